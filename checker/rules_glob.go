package main

import (
	"fmt"
	"go/ast"
	"go/token"
	"go/types"
	"golang.org/x/tools/go/packages"
	"sort"
	"strings"

	"golang.org/x/tools/go/ssa"
)

func init() {
	register(&Rule{
		ID: "GLOB-1",
		Doc: "shared-state inventory: every package-level variable of the module is enumerated with every store, address-taking and mutation through a loaded reference; " +
			"stores exist only in the package initialiser or in package internal/monitor, where each is dominated by the true edge of `m != nil` (or of `param != nil` for the value stored into m); " +
			"no address of a package-level variable escapes; no initialiser places a non-nil reference (pointer, map, slice, func, chan) into a package-level variable",
		Floor: 4,
		Ctl:   []string{"internal__phase4__glob1.go.txt"},
		Run:   runGlob1,
	})
	register(&Rule{
		ID: "MON-1",
		Doc: "monitor non-interference: monitor globals are read only in package monitor; every function of package monitor called from another module package has no result and modifies nothing but the monitor globals " +
			"(a boolean query is tolerated when its result is used only as a branch condition and everything control-dependent on that branch is log-only: no store into pre-existing memory, no map update, no early return, no call that modifies state or is not known to be pure, and no value computed there used outside); " +
			"under the m != nil guards only Monitor.Log and Phase()/String() of the algorithm values are invoked, and those have empty modification sets; the options.monitor field flows only into monitor.Set",
		Floor: 8,
		Ctl:   []string{"internal__monitor__mon1.go.txt", "internal__phase1__mon1caller.go.txt"}, MinCtl: 1,
		Run: runMon1,
	})
	register(&Rule{
		ID:    "ORD-1",
		Doc:   "in Layout, monitor.Set(x) is followed in the same block, with no call in between, by `defer monitor.Reset()`; Set has no other call site in the module; Reset stores nil/zero into all monitor globals and those stores depend on nothing but the m != nil guard",
		Floor: 2,
		Ctl:   []string{"ROOT__ord1.go.txt"},
		Run:   runOrd1,
	})
	register(&Rule{
		ID:    "OWN-2",
		Doc:   "read confinement: packages phase1, phase2, phase3, connected and preprocessor never load Node/Layer X,Y,W,H nor Params.NodeSpacing/LayerSpacing (one obligation per function of those packages)",
		Floor: 75,
		Ctl:   []string{"internal__phase3__own2.go.txt"},
		Run:   runOwn2,
	})
}

// monitorGlobal: the package-level variable of package monitor that holds the installed monitor (the one of interface type).
func (m *Model) monitorGlobal() *ssa.Global {
	sp := m.SSAPkg[modPath+"/internal/monitor"]
	if sp == nil {
		return nil
	}
	var out *ssa.Global
	var names []string
	for n := range sp.Members {
		names = append(names, n)
	}
	sort.Strings(names)
	for _, n := range names {
		if g, ok := sp.Members[n].(*ssa.Global); ok && !strings.HasPrefix(n, "init$") {
			if types.IsInterface(g.Type().(*types.Pointer).Elem()) && out == nil {
				out = g
			}
		}
	}
	return out
}

// monitorCell: where the installed monitor lives - the interface-typed global of package monitor (field -1), or the one
// interface-typed field of a struct-typed global of that package (`var current state`).
func (m *Model) monitorCell() (*ssa.Global, int) {
	if g := m.monitorGlobal(); g != nil {
		return g, -1
	}
	sp := m.SSAPkg[modPath+"/internal/monitor"]
	if sp == nil {
		return nil, -1
	}
	var names []string
	for n := range sp.Members {
		names = append(names, n)
	}
	sort.Strings(names)
	for _, n := range names {
		g, ok := sp.Members[n].(*ssa.Global)
		if !ok || strings.HasPrefix(n, "init$") {
			continue
		}
		st, ok := g.Type().(*types.Pointer).Elem().Underlying().(*types.Struct)
		if !ok {
			continue
		}
		idx, cnt := -1, 0
		for i := 0; i < st.NumFields(); i++ {
			if types.IsInterface(st.Field(i).Type()) {
				idx = i
				cnt++
			}
		}
		if cnt == 1 {
			return g, idx
		}
	}
	return nil, -1
}

// isMonitorCellAddr / isMonitorCellLoad: the address of the monitor cell, a load of it
func (m *Model) isMonitorCellAddr(a ssa.Value) bool {
	g, fi := m.monitorCell()
	if g == nil {
		return false
	}
	if fi < 0 {
		return a == ssa.Value(g)
	}
	fa, ok := a.(*ssa.FieldAddr)
	return ok && fa.X == ssa.Value(g) && fa.Field == fi
}

func (m *Model) isMonitorCellLoad(v ssa.Value) bool {
	u, ok := v.(*ssa.UnOp)
	return ok && u.Op == token.MUL && m.isMonitorCellAddr(u.X)
}

func globName(g *ssa.Global) string { return shortPkg(g.Pkg.Pkg.Path()) + "." + g.Name() }

func isNilOrZeroConst(v ssa.Value) bool {
	c, ok := v.(*ssa.Const)
	if !ok {
		return false
	}
	if c.Value == nil {
		return true
	}
	s := c.Value.ExactString()
	return s == "0" || s == `""` || s == "false"
}

func typeHasRef(t types.Type, depth int) bool {
	if depth > 6 {
		return true
	}
	switch u := types.Unalias(t).Underlying().(type) {
	case *types.Pointer, *types.Map, *types.Slice, *types.Chan, *types.Signature, *types.Interface:
		return true
	case *types.Struct:
		for i := 0; i < u.NumFields(); i++ {
			if typeHasRef(u.Field(i).Type(), depth+1) {
				return true
			}
		}
	case *types.Array:
		return typeHasRef(u.Elem(), depth+1)
	}
	return false
}

// guardedByNonNil reports whether instruction in is dominated by the true edge of `X != nil`
// where X satisfies ok(X).
func guardedByNonNil(in ssa.Instruction, ok func(v ssa.Value) bool) bool {
	b := in.Block()
	for _, a := range b.Parent().Blocks {
		if len(a.Succs) != 2 {
			continue
		}
		iff, isIf := a.Instrs[len(a.Instrs)-1].(*ssa.If)
		if !isIf {
			continue
		}
		bo, isBin := iff.Cond.(*ssa.BinOp)
		if !isBin {
			continue
		}
		var x ssa.Value
		if c, isC := bo.Y.(*ssa.Const); isC && c.Value == nil {
			x = bo.X
		} else if c, isC := bo.X.(*ssa.Const); isC && c.Value == nil {
			x = bo.Y
		} else {
			continue
		}
		if !ok(x) {
			continue
		}
		var tgt *ssa.BasicBlock
		switch bo.Op {
		case token.NEQ:
			tgt = a.Succs[0]
		case token.EQL:
			tgt = a.Succs[1]
		default:
			continue
		}
		if len(tgt.Preds) == 1 && tgt.Dominates(b) {
			return true
		}
	}
	return false
}

func runGlob1(m *Model, r *RuleResult) {
	m.fxInit()
	monPkg := modPath + "/internal/monitor"
	// enumerate package-level variables from the typed AST (includes blank ones)
	type gv struct {
		pkg  string
		name string
		obj  *types.Var
		spec *ast.ValueSpec
		idx  int
		pos  token.Pos
		ctl  bool
	}
	var gvs []gv
	for _, p := range m.Pkgs {
		for _, f := range p.Syntax {
			for _, d := range f.Decls {
				gd, ok := d.(*ast.GenDecl)
				if !ok || gd.Tok != token.VAR {
					continue
				}
				for _, s := range gd.Specs {
					vs := s.(*ast.ValueSpec)
					for i, n := range vs.Names {
						obj, _ := p.TypesInfo.Defs[n].(*types.Var)
						gvs = append(gvs, gv{p.PkgPath, n.Name, obj, vs, i, n.Pos(), m.IsPosctl(n.Pos())})
					}
				}
			}
		}
	}
	r.stat("package_level_vars", len(gvs))
	// index uses of every ssa.Global
	type use struct {
		in ssa.Instruction
		fn *ssa.Function
	}
	uses := map[*ssa.Global][]use{}
	for _, f := range m.Funcs {
		eachInstr(f, func(in ssa.Instruction) {
			for _, op := range in.Operands(nil) {
				if g, ok := (*op).(*ssa.Global); ok && inModulePath(g.Pkg.Pkg.Path()) {
					uses[g] = append(uses[g], use{in, f})
				}
			}
		})
	}
	isMonGlobalLoad := m.isMonitorCellLoad
	for _, v := range gvs {
		key := shortPkg(v.pkg) + "." + v.name
		if !m.Prod[v.pkg] && !v.ctl {
			r.add(Obligation{Key: "var:" + key, Pos: m.Pos(v.pos), Desc: "package-level variable of a test-support package that the library does not import", Verdict: "holds"})
			continue
		}
		if v.name == "_" {
			r.add(Obligation{Key: "var:" + key + "@" + m.File(v.pos), Pos: m.Pos(v.pos), Desc: "blank package-level variable (compile-time assertion): no storage", Verdict: "holds", Control: v.ctl})
			continue
		}
		sp := m.SSAPkg[v.pkg]
		var g *ssa.Global
		if sp != nil {
			g, _ = sp.Members[v.name].(*ssa.Global)
		}
		if g == nil {
			r.add(Obligation{Key: "var:" + key, Pos: m.Pos(v.pos), Desc: "package-level variable", Verdict: "undecided", Detail: "no SSA global found", Control: v.ctl})
			continue
		}
		var problems []string
		nstores, nloads := 0, 0
		// initialiser: no non-nil reference
		if typeHasRef(v.obj.Type(), 0) && len(v.spec.Values) > 0 {
			var init ast.Expr
			if len(v.spec.Values) == len(v.spec.Names) {
				init = v.spec.Values[v.idx]
			} else {
				init = v.spec.Values[0]
			}
			ip := m.initialiserProblems(m.ByPath[v.pkg], init, 0)
			if len(ip) > 0 && m.isReadOnlyConstantTable(g, v.obj.Type()) {
				// a look-up table of constants / function values that is only ever read (indexed, looked up, ranged, len)
				ip = nil
			}
			problems = append(problems, ip...)
		}
		var visitAddr func(addr ssa.Value, fn *ssa.Function, depth int)
		checkStore := func(st ssa.Instruction, fn *ssa.Function) {
			nstores++
			if isPkgInit(fn) {
				return
			}
			if pkgPathOf(fn) != monPkg {
				problems = append(problems, fmt.Sprintf("store outside the initialiser and outside package monitor in %s at %s", funcKey(fn), m.Pos(st.Pos())))
				return
			}
			// guard: m != nil, or param != nil where param is the value stored into m in this function
			stored := map[ssa.Value]bool{}
			eachInstr(fn, func(in ssa.Instruction) {
				if s, ok := in.(*ssa.Store); ok {
					if m.isMonitorCellAddr(s.Addr) {
						stored[s.Val] = true
					}
				}
			})
			ok := guardedByNonNil(st, func(x ssa.Value) bool {
				if isMonGlobalLoad(x) {
					return true
				}
				if _, isParam := x.(*ssa.Parameter); isParam && stored[x] {
					return true
				}
				return false
			})
			if !ok {
				problems = append(problems, fmt.Sprintf("store in %s at %s is not dominated by the true edge of `m != nil`: it executes even when no monitor was supplied", funcKey(fn), m.Pos(st.Pos())))
			}
		}
		visitAddr = func(addr ssa.Value, fn *ssa.Function, depth int) {
			refs := addr.Referrers()
			if refs == nil {
				return
			}
			for _, ref := range *refs {
				switch x := ref.(type) {
				case *ssa.UnOp:
					if x.Op == token.MUL {
						nloads++
						continue
					}
					problems = append(problems, "address used by "+x.String()+" at "+m.Pos(x.Pos()))
				case *ssa.Store:
					if x.Addr == addr {
						checkStore(x, x.Parent())
					} else {
						problems = append(problems, fmt.Sprintf("address of the variable is stored (escapes) in %s at %s", funcKey(x.Parent()), m.Pos(x.Pos())))
					}
				case *ssa.FieldAddr:
					visitAddr(x, fn, depth+1)
				case *ssa.IndexAddr:
					visitAddr(x, fn, depth+1)
				case *ssa.DebugRef:
				default:
					problems = append(problems, fmt.Sprintf("address of the variable escapes through %T in %s at %s", ref, funcKey(ref.Parent()), m.Pos(ref.Pos())))
				}
			}
		}
		// Referrers() of a Global is nil; use the operand index
		for _, u := range uses[g] {
			switch x := u.in.(type) {
			case *ssa.UnOp:
				if x.Op == token.MUL && x.X == g {
					nloads++
					continue
				}
				problems = append(problems, "address used by "+x.String()+" at "+m.Pos(x.Pos()))
			case *ssa.Store:
				if x.Addr == g {
					checkStore(x, u.fn)
				} else {
					problems = append(problems, fmt.Sprintf("address of the variable is stored (escapes) in %s at %s", funcKey(u.fn), m.Pos(x.Pos())))
				}
			case *ssa.FieldAddr:
				visitAddr(x, u.fn, 0)
			case *ssa.IndexAddr:
				visitAddr(x, u.fn, 0)
			case *ssa.DebugRef:
			default:
				problems = append(problems, fmt.Sprintf("address of the variable escapes through %T in %s at %s", u.in, funcKey(u.fn), m.Pos(u.in.Pos())))
			}
		}
		// mutation through a reference loaded from the variable (map cell, slice element, pointee)
		gl := "global:" + g.Pkg.Pkg.Path() + "." + g.Name()
		for _, f := range m.Funcs {
			for _, w := range m.effects[f].Writes {
				if w.Loc == gl || !strings.HasPrefix(w.Loc, gl) {
					continue
				}
				if isPkgInit(f) {
					continue
				}
				problems = append(problems, fmt.Sprintf("shared object reachable from the variable is mutated (%s) in %s at %s", strings.TrimPrefix(w.Loc, gl), funcKey(f), m.Pos(w.Instr.Pos())))
			}
		}
		desc := fmt.Sprintf("package-level variable %s %s: %d stores, %d loads", key, v.obj.Type().String(), nstores, nloads)
		if len(problems) == 0 {
			r.add(Obligation{Key: "var:" + key, Pos: m.Pos(v.pos), Desc: desc, Verdict: "holds", Control: v.ctl})
		} else {
			sort.Strings(problems)
			r.add(Obligation{Key: "var:" + key, Pos: m.Pos(v.pos), Desc: desc, Verdict: "violation",
				Detail: "state shared between Layout calls: " + strings.Join(problems, "; "), Control: v.ctl})
		}
		r.stat("global_stores", nstores)
	}
}

// ---------- MON-1 ----------

func runMon1(m *Model, r *RuleResult) {
	m.fxInit()
	monPkg := modPath + "/internal/monitor"
	// (a) loads of monitor globals only inside package monitor
	for _, f := range m.Funcs {
		if pkgPathOf(f) == monPkg {
			continue
		}
		eachInstr(f, func(in ssa.Instruction) {
			for _, op := range in.Operands(nil) {
				if g, ok := (*op).(*ssa.Global); ok && g.Pkg.Pkg.Path() == monPkg {
					r.add(Obligation{Key: "read-outside:" + funcKey(f) + ":" + g.Name(), Pos: m.Pos(in.Pos()), Desc: "monitor global accessed outside package monitor",
						Verdict: "violation", Detail: "the pipeline can observe whether a monitor is installed", Control: m.FuncIsPosctl(f)})
				}
			}
		})
	}
	// (b) functions of package monitor called from other module packages
	called := map[*ssa.Function][]ssa.CallInstruction{}
	for _, f := range m.Funcs {
		if pkgPathOf(f) == monPkg {
			continue
		}
		eachInstr(f, func(in ssa.Instruction) {
			if ci, ok := in.(ssa.CallInstruction); ok {
				for _, c := range m.Callees(ci) {
					if pkgPathOf(c) == monPkg && c.Parent() == nil && !isPkgInit(c) && !isWrapper(c) {
						called[c] = append(called[c], ci)
					}
				}
			}
		})
	}
	var fns []*ssa.Function
	for f := range called {
		fns = append(fns, f)
	}
	sort.Slice(fns, func(i, j int) bool { return fns[i].String() < fns[j].String() })
	constructors := map[string]bool{}
	for _, f := range fns {
		ctl := m.FuncIsPosctl(f)
		// constructors of monitor values (called by user-facing option code only with user data) are recognised by returning the Monitor interface / FilterFn
		key := "entry:" + funcKey(f)
		var problems []string
		res := f.Signature.Results()
		isCtor := false
		if res.Len() == 1 {
			rt := namedKey(res.At(0).Type())
			if rt == "internal/monitor.Monitor" || rt == "internal/monitor.FilterFn" {
				isCtor = true
				constructors[funcKey(f)] = true
			}
		}
		if monitorInstallWrappers(m, m.anchorMonitorSet(), m.anchorMonitorReset())[f] {
			// returns the Reset function: no information about the monitor reaches the pipeline (ORD-1 checks its use)
			isCtor = true
		}
		if res.Len() > 0 && !isCtor {
			// a boolean query ("is anybody listening?") is harmless when all it controls is logging
			okQuery := false
			if b, isB := res.At(0).Type().Underlying().(*types.Basic); isB && res.Len() == 1 && b.Kind() == types.Bool {
				okQuery = true
				for _, ci := range called[f] {
					if why := logOnlyRegion(m, ci, monPkg); why != "" {
						okQuery = false
						problems = append(problems, "its result steers more than logging at "+m.Pos(ci.Pos())+": "+why)
					}
				}
			}
			if !okQuery {
				problems = append(problems, "returns a value to the pipeline ("+res.String()+"): monitor state can influence the layout")
			}
		}
		e := m.effects[f]
		for _, l := range modList(e) {
			if strings.HasPrefix(l, "global:"+monPkg+".") {
				continue
			}
			if strings.HasPrefix(l, "internal/monitor.") {
				continue // monitor's own structs
			}
			problems = append(problems, "modifies "+l)
		}
		// callees under the guards
		eachInstr(f, func(in ssa.Instruction) {
			ci, ok := in.(ssa.CallInstruction)
			if !ok {
				return
			}
			c := ci.Common()
			if _, ok := c.Value.(*ssa.Builtin); ok {
				return
			}
			if c.IsInvoke() {
				recv := namedKey(c.Value.Type())
				mn := c.Method.Name()
				okInvoke := (recv == "internal/monitor.Monitor" && mn == "Log") || (recv == "internal/processor.P" && (mn == "Phase" || mn == "String"))
				if !okInvoke {
					problems = append(problems, "invokes "+recv+"."+mn+" at "+m.Pos(in.Pos()))
				}
				for _, cal := range m.Callees(ci) {
					if !inModule(cal) {
						continue
					}
					ce := m.effects[cal]
					if ce == nil {
						continue
					}
					for _, l := range modList(ce) {
						if strings.HasPrefix(l, "internal/monitor.") || strings.HasPrefix(l, "global:"+monPkg+".") {
							continue
						}
						problems = append(problems, "callee "+funcKey(cal)+" of "+mn+" modifies "+l)
					}
				}
				return
			}
			if cal := c.StaticCallee(); cal != nil {
				if pkgPathOf(cal) != monPkg {
					problems = append(problems, "calls "+funcKey(cal)+" at "+m.Pos(in.Pos()))
				}
			} else {
				problems = append(problems, "dynamic call at "+m.Pos(in.Pos()))
			}
		})
		desc := fmt.Sprintf("monitor entry point %s called from %d site(s) outside the package", funcKey(f), len(called[f]))
		if isCtor {
			desc = "monitor constructor " + funcKey(f)
		}
		if len(problems) == 0 {
			r.add(Obligation{Key: key, Pos: m.Pos(f.Pos()), Desc: desc, Verdict: "holds", Control: ctl})
		} else {
			r.add(Obligation{Key: key, Pos: m.Pos(f.Pos()), Desc: desc, Verdict: "violation", Detail: strings.Join(problems, "; "), Control: ctl})
		}
	}
	// implementations of Monitor.Log inside the module must not touch graph state
	for _, f := range m.Funcs {
		if pkgPathOf(f) != monPkg || f.Name() != "Log" || f.Signature.Recv() == nil {
			continue
		}
		var problems []string
		for _, l := range modList(m.effects[f]) {
			if !strings.HasPrefix(l, "internal/monitor.") && !strings.HasPrefix(l, "global:"+monPkg+".") {
				problems = append(problems, "modifies "+l)
			}
		}
		if len(problems) == 0 {
			r.add(Obligation{Key: "impl:" + funcKey(f), Pos: m.Pos(f.Pos()), Desc: "Monitor implementation only forwards the event", Verdict: "holds", Control: m.FuncIsPosctl(f)})
		} else {
			r.add(Obligation{Key: "impl:" + funcKey(f), Pos: m.Pos(f.Pos()), Desc: "Monitor implementation", Verdict: "violation", Detail: strings.Join(problems, "; "), Control: m.FuncIsPosctl(f)})
		}
	}
	// (e) the options.monitor field flows only into monitor.Set
	for _, f := range m.Funcs {
		if pkgPathOf(f) != modPath {
			continue
		}
		eachInstr(f, func(in ssa.Instruction) {
			var loaded ssa.Value
			switch x := in.(type) {
			case *ssa.UnOp:
				if x.Op == token.MUL {
					if fa, ok := x.X.(*ssa.FieldAddr); ok {
						_, steps := fieldChain(fa)
						if locOfSteps(steps) == "autog.options.monitor" {
							loaded = x
						}
					}
				}
			case *ssa.Field:
				_, steps := fieldChain(x)
				if locOfSteps(steps) == "autog.options.monitor" {
					loaded = x
				}
			}
			if loaded == nil {
				return
			}
			okUse := true
			var bad string
			if refs := loaded.Referrers(); refs != nil {
				for _, ref := range *refs {
					if ci, ok := ref.(ssa.CallInstruction); ok {
						if cal := ci.Common().StaticCallee(); cal != nil && pkgPathOf(cal) == monPkg && (cal == m.anchorMonitorSet() || monitorInstallWrappers(m, m.anchorMonitorSet(), m.anchorMonitorReset())[cal]) {
							continue
						}
					}
					if _, ok := ref.(*ssa.DebugRef); ok {
						continue
					}
					okUse = false
					bad = fmt.Sprintf("%T at %s", ref, m.Pos(ref.Pos()))
				}
			}
			key := "options.monitor-use:" + funcKey(f)
			if okUse {
				r.add(Obligation{Key: key, Pos: m.Pos(in.Pos()), Desc: "the supplied monitor is only handed to monitor.Set", Verdict: "holds", Control: m.FuncIsPosctl(f)})
			} else {
				r.add(Obligation{Key: key, Pos: m.Pos(in.Pos()), Desc: "the supplied monitor is used by the pipeline", Verdict: "violation", Detail: "options.monitor flows into " + bad + ": the layout can depend on whether a monitor is present", Control: m.FuncIsPosctl(f)})
			}
		})
	}
	r.stat("monitor_entry_points", len(fns))
}

// ---------- ORD-1 ----------

// monitorInstallWrappers: top-level functions of package monitor (other than Set) that call Set exactly once, unconditionally,
// and return the Reset function itself on every path.
func monitorInstallWrappers(m *Model, set, reset *ssa.Function) map[*ssa.Function]bool {
	out := map[*ssa.Function]bool{}
	if set == nil || reset == nil {
		return out
	}
	for _, f := range m.Src {
		if pkgPathOf(f) != pkgPathOf(set) || f == set || f.Parent() != nil || m.FuncIsPosctl(f) || f.Signature.Results().Len() != 1 {
			continue
		}
		sites := staticCalls(f, func(c *ssa.Function) bool { return c == set })
		if len(sites) != 1 || sites[0].Block() != f.Blocks[0] {
			continue
		}
		if _, isCall := sites[0].(*ssa.Call); !isCall {
			continue
		}
		ok := true
		n := 0
		eachInstr(f, func(in ssa.Instruction) {
			if ret, isRet := in.(*ssa.Return); isRet {
				n++
				v := ret.Results[0]
				if ct, isCT := v.(*ssa.ChangeType); isCT {
					v = ct.X
				}
				if fn, isFn := v.(*ssa.Function); !isFn || fn != reset {
					ok = false
				}
			}
		})
		if ok && n > 0 {
			out[f] = true
		}
	}
	return out
}

func runOrd1(m *Model, r *RuleResult) {
	monPkg := modPath + "/internal/monitor"
	set := m.anchorMonitorSet()
	reset := m.anchorMonitorReset()
	layout := m.SSAFunc("autog", "Layout")
	if set == nil || reset == nil || layout == nil {
		r.undecided("anchors", "-", "monitor.Set / monitor.Reset / autog.Layout", "anchor function not found")
		return
	}
	// installer wrappers: functions of package monitor that call Set and return the Reset function on every path
	wrappers := monitorInstallWrappers(m, set, reset)
	for _, f := range m.Funcs {
		eachInstr(f, func(in ssa.Instruction) {
			ci, ok := in.(ssa.CallInstruction)
			if !ok || !wrappers[ci.Common().StaticCallee()] {
				return
			}
			ctl := m.FuncIsPosctl(f)
			key := "set-site:" + funcKey(f)
			// the returned reset function is deferred straight away: the next call-like instruction is `defer <result>()`
			var next ssa.Instruction
			for _, x := range in.Block().Instrs[instrIndex(in)+1:] {
				if _, ok := x.(ssa.CallInstruction); ok {
					next = x
					break
				}
			}
			d, isDefer := next.(*ssa.Defer)
			_, isPlainCall := in.(*ssa.Call)
			switch {
			case !isPlainCall:
				r.add(Obligation{Key: key, Pos: m.Pos(in.Pos()), Desc: "monitor installer call", Verdict: "violation", Detail: "the installer is deferred or started as a goroutine", Control: ctl})
			case !isDefer || d.Call.Value != ci.Value():
				what := "no call follows in the block"
				if next != nil {
					what = "next call is " + next.String()
				}
				r.add(Obligation{Key: key, Pos: m.Pos(in.Pos()), Desc: "the function returned by the monitor installer must be deferred immediately", Verdict: "violation",
					Detail: what + ": a panic (or any exit) between installing the monitor and deferring its removal leaves the monitor installed for later calls", Control: ctl})
			case f != layout:
				r.add(Obligation{Key: key, Pos: m.Pos(in.Pos()), Desc: "monitor installer call site outside Layout", Verdict: "violation", Detail: "only Layout installs the monitor", Control: ctl})
			default:
				r.add(Obligation{Key: key, Pos: m.Pos(in.Pos()), Desc: "the monitor is installed through " + ci.Common().StaticCallee().Name() + ", whose result (Reset) is deferred immediately", Verdict: "holds", Control: ctl})
			}
		})
	}
	// call sites of Set across the module
	for _, f := range m.Funcs {
		if wrappers[f] {
			continue // the wrapper's own call of Set: judged at the wrapper's call sites
		}
		eachInstr(f, func(in ssa.Instruction) {
			ci, ok := in.(ssa.CallInstruction)
			if !ok || ci.Common().StaticCallee() != set {
				return
			}
			ctl := m.FuncIsPosctl(f)
			key := "set-site:" + funcKey(f)
			// next call-like instruction in the same block must be `defer Reset()`
			b := in.Block()
			i := instrIndex(in)
			var next ssa.Instruction
			for _, x := range b.Instrs[i+1:] {
				if _, ok := x.(ssa.CallInstruction); ok {
					next = x
					break
				}
			}
			d, isDefer := next.(*ssa.Defer)
			if _, isGo := in.(*ssa.Go); isGo {
				r.add(Obligation{Key: key, Pos: m.Pos(in.Pos()), Desc: "monitor.Set call", Verdict: "violation", Detail: "Set is started as a goroutine", Control: ctl})
				return
			}
			if _, isDef := in.(*ssa.Defer); isDef {
				r.add(Obligation{Key: key, Pos: m.Pos(in.Pos()), Desc: "monitor.Set call", Verdict: "violation", Detail: "Set is deferred", Control: ctl})
				return
			}
			if !isDefer || d.Call.StaticCallee() != reset {
				what := "no call follows in the block"
				if next != nil {
					what = "next call is " + next.String()
				}
				r.add(Obligation{Key: key, Pos: m.Pos(in.Pos()), Desc: "monitor.Set must be immediately followed by `defer monitor.Reset()`", Verdict: "violation",
					Detail: what + ": a panic (or any exit) between Set and the deferred Reset leaves the monitor installed for later calls", Control: ctl})
				return
			}
			if f != layout {
				r.add(Obligation{Key: key, Pos: m.Pos(in.Pos()), Desc: "monitor.Set call site outside Layout", Verdict: "violation", Detail: "only Layout installs the monitor", Control: ctl})
				return
			}
			r.add(Obligation{Key: key, Pos: m.Pos(in.Pos()), Desc: "monitor.Set(x) immediately followed by defer monitor.Reset()", Verdict: "holds", Control: ctl})
		})
	}
	// Reset clears all globals of package monitor under the m != nil guard only
	sp := m.SSAPkg[monPkg]
	var names []string
	for n, mem := range sp.Members {
		if _, ok := mem.(*ssa.Global); ok && !strings.HasPrefix(n, "init$") {
			names = append(names, n)
		}
	}
	sort.Strings(names)
	for _, n := range names {
		g := sp.Members[n].(*ssa.Global)
		var st *ssa.Store
		eachInstr(reset, func(in ssa.Instruction) {
			if s, ok := in.(*ssa.Store); ok && s.Addr == g {
				st = s
			}
		})
		key := "reset-clears:" + n
		if st == nil {
			r.violation(key, m.Pos(reset.Pos()), "Reset must clear monitor global "+n, "no store to "+n+" in Reset: the next call's events carry stale state or the monitor stays installed")
			continue
		}
		if !isNilOrZeroConst(st.Val) {
			r.violation(key, m.Pos(st.Pos()), "Reset must clear monitor global "+n, "stored value is not nil/zero")
			continue
		}
		deps := transitiveControlDeps(st.Block())
		bad := ""
		for _, d := range deps {
			bo, ok := d.If.Cond.(*ssa.BinOp)
			good := false
			if ok && ((bo.Op == token.NEQ && d.Branch == 0) || (bo.Op == token.EQL && d.Branch == 1)) {
				if m.isMonitorCellLoad(bo.X) {
					if c, ok := bo.Y.(*ssa.Const); ok && c.Value == nil {
						good = true
					}
				}
			}
			if !good {
				bad = d.If.Cond.String() + " at " + m.Pos(d.If.Pos())
			}
		}
		if bad != "" {
			r.violation(key, m.Pos(st.Pos()), "Reset must clear monitor global "+n, "the clearing store also depends on "+bad)
			continue
		}
		r.holds(key, m.Pos(st.Pos()), "Reset stores nil/zero into "+n+" whenever a monitor is installed")
	}
}

// ---------- OWN-2 ----------

var own2Packages = map[string]bool{"internal/phase1": true, "internal/phase2": true, "internal/phase3": true, "internal/graph/connected": true, "internal/processor/preprocessor": true}

var own2Forbidden = map[string]bool{
	igNode + ".X": true, igNode + ".Y": true, igNode + ".W": true, igNode + ".H": true, igNode + ".Size": true,
	igLayer + ".X": true, igLayer + ".Y": true, igLayer + ".W": true, igLayer + ".H": true, igLayer + ".Size": true,
	igPar + ".NodeSpacing": true, igPar + ".LayerSpacing": true,
	"internal/graph.Size.X": true, "internal/graph.Size.Y": true, "internal/graph.Size.W": true, "internal/graph.Size.H": true,
}

// readLocs returns the abstract locations read by an instruction (loads of fields, whole-struct loads).
func readLocs(in ssa.Instruction) []string {
	switch x := in.(type) {
	case *ssa.UnOp:
		if x.Op != token.MUL {
			return nil
		}
		if fa, ok := x.X.(*ssa.FieldAddr); ok {
			_, steps := fieldChain(fa)
			return leafLocs(steps)
		}
		// whole-struct load through a pointer: reads every leaf of the struct
		if st, ok := types.Unalias(x.Type()).Underlying().(*types.Struct); ok {
			owner := namedKey(x.Type())
			var out []string
			var rec func(st *types.Struct, depth int)
			rec = func(st *types.Struct, depth int) {
				if depth > 3 {
					return
				}
				for i := 0; i < st.NumFields(); i++ {
					f := st.Field(i)
					if sub, ok := types.Unalias(f.Type()).Underlying().(*types.Struct); ok && f.Embedded() {
						rec(sub, depth+1)
						continue
					}
					if f.Name() != "_" {
						out = append(out, owner+"."+f.Name())
					}
				}
			}
			rec(st, 0)
			return out
		}
	case *ssa.Field:
		_, steps := fieldChain(x)
		return leafLocs(steps)
	}
	return nil
}

func runOwn2(m *Model, r *RuleResult) {
	for _, f := range m.Src {
		sp := shortPkg(pkgPathOf(f))
		if !own2Packages[sp] {
			continue
		}
		var bad []string
		eachInstr(f, func(in ssa.Instruction) {
			for _, l := range readLocs(in) {
				if own2Forbidden[l] {
					bad = append(bad, l+" at "+m.Pos(in.Pos()))
				}
			}
		})
		key := "fn:" + funcKey(f)
		if f.Parent() != nil {
			key = "fn:" + funcKey(f.Parent()) + "$lit@" + funcKey(f)
		}
		ctl := m.FuncIsPosctl(f)
		if len(bad) == 0 {
			r.add(Obligation{Key: key, Pos: m.Pos(f.Pos()), Desc: "reads no size, coordinate or spacing", Verdict: "holds", Control: ctl})
		} else {
			r.add(Obligation{Key: key, Pos: m.Pos(f.Pos()), Desc: "size/coordinate/spacing read in a size-agnostic phase", Verdict: "violation",
				Detail: "phases 1-3 must be independent of lengths (unit independence, monitor and ownership arguments): reads " + strings.Join(bad, ", "), Control: ctl})
		}
	}
}

// logOnlyRegion: the boolean result of the monitor query at site ci is used only as a branch condition, and everything that
// is control-dependent on that branch only computes values and calls package monitor: no store into memory that existed before,
// no map update, no call that modifies anything, no in-place library routine, and no value computed there is used outside.
// Returns "" when that holds, else the reason.
func logOnlyRegion(m *Model, ci ssa.CallInstruction, monPkg string) string {
	v := ci.Value()
	if v == nil || v.Referrers() == nil {
		return ""
	}
	var ifs []*ssa.If
	var collect func(x ssa.Value, depth int) string
	collect = func(x ssa.Value, depth int) string {
		if x.Referrers() == nil || depth > 3 {
			return ""
		}
		for _, ref := range *x.Referrers() {
			switch y := ref.(type) {
			case *ssa.If:
				ifs = append(ifs, y)
			case *ssa.UnOp:
				if y.Op != token.NOT {
					return "the result is used by " + y.String()
				}
				if why := collect(y, depth+1); why != "" {
					return why
				}
			case *ssa.DebugRef:
			default:
				return fmt.Sprintf("the result is used by %T at %s, not only as a branch condition", ref, m.Pos(ref.Pos()))
			}
		}
		return ""
	}
	if why := collect(v, 0); why != "" {
		return why
	}
	fn := ci.Parent()
	region := map[*ssa.BasicBlock]bool{}
	for _, b := range fn.Blocks {
		for _, d := range transitiveControlDeps(b) {
			for _, iff := range ifs {
				if d.If == iff {
					region[b] = true
				}
			}
		}
	}
	pureExt := func(full string) bool {
		switch {
		case strings.HasPrefix(full, "fmt.Sprint"), strings.HasPrefix(full, "strconv."), full == "strings.Join", full == "strings.Repeat", full == "slices.Clone", strings.HasPrefix(full, "math."):
			return true
		}
		return false
	}
	m.fxInit()
	for b := range region {
		for _, in := range b.Instrs {
			switch x := in.(type) {
			case *ssa.Store:
				// only into memory allocated inside the region (argument packing)
				base := x.Addr
				for {
					switch a := base.(type) {
					case *ssa.IndexAddr:
						base = a.X
						continue
					case *ssa.FieldAddr:
						base = a.X
						continue
					}
					break
				}
				if al, ok := base.(*ssa.Alloc); !ok || !region[al.Block()] {
					return "store at " + m.Pos(x.Pos())
				}
			case *ssa.MapUpdate:
				return "map update at " + m.Pos(x.Pos())
			case *ssa.Send, *ssa.Go, *ssa.Defer, *ssa.Panic:
				return fmt.Sprintf("%T at %s", in, m.Pos(in.Pos()))
			case *ssa.Return:
				return "return at " + m.Pos(x.Pos()) + " (the function ends early when a monitor is present or absent)"
			case ssa.CallInstruction:
				c := x.Common()
				if bi, ok := c.Value.(*ssa.Builtin); ok {
					switch bi.Name() {
					case "len", "cap", "min", "max":
						continue
					}
					return "builtin " + bi.Name() + " at " + m.Pos(in.Pos())
				}
				for _, cal := range m.Callees(x) {
					if pkgPathOf(cal) == monPkg {
						continue
					}
					if inModule(cal) {
						e := m.effects[cal]
						if e == nil || len(modList(e)) > 0 || len(e.ParamWrites) > 0 || len(e.GlobalsMod) > 0 {
							return "call of " + funcKey(cal) + " at " + m.Pos(in.Pos()) + ", which modifies state"
						}
						continue
					}
					if _, full := extFuncName(cal); !pureExt(full) {
						return "call of " + full + " at " + m.Pos(in.Pos()) + " (not known to be free of side effects)"
					}
				}
				if len(m.Callees(x)) == 0 {
					return "unresolved call at " + m.Pos(in.Pos())
				}
			}
			// no value computed in the region is used outside of it
			if val, ok := in.(ssa.Value); ok && val.Referrers() != nil {
				for _, ref := range *val.Referrers() {
					if _, isDbg := ref.(*ssa.DebugRef); isDbg {
						continue
					}
					if rb := ref.Block(); rb != nil && !region[rb] {
						return "a value computed under the query (" + m.Pos(in.Pos()) + ") is used outside of it at " + m.Pos(ref.Pos())
					}
				}
			}
		}
	}
	return ""
}

// initialiserProblems: does the initialiser expression of a package-level variable create a non-nil reference (shared
// mutable storage)? Calls of module functions whose body is a single return statement are followed into the returned
// expressions (a constructor of default values).
func (m *Model) initialiserProblems(p *packages.Package, init ast.Expr, depth int) []string {
	var problems []string
	if p == nil {
		return []string{"initialiser in an unknown package"}
	}
	ast.Inspect(init, func(n ast.Node) bool {
		switch x := n.(type) {
		case *ast.UnaryExpr:
			if x.Op == token.AND {
				problems = append(problems, "initialiser takes an address (&) at "+m.Pos(x.Pos()))
			}
		case *ast.FuncLit:
			problems = append(problems, "initialiser holds a function literal at "+m.Pos(x.Pos()))
			return false
		case *ast.CompositeLit:
			if t := p.TypesInfo.TypeOf(x); t != nil {
				switch t.Underlying().(type) {
				case *types.Map, *types.Slice, *types.Pointer:
					problems = append(problems, "initialiser allocates a shared "+t.String()+" at "+m.Pos(x.Pos()))
				}
			}
		case *ast.CallExpr:
			if tv, ok := p.TypesInfo.Types[x.Fun]; ok && tv.IsType() {
				return true // conversion
			}
			if t := p.TypesInfo.TypeOf(x); t != nil && typeHasRef(t, 0) {
				// a constructor of this module that only returns an expression of the same harmless kind
				if fn, ok := calleeObj(p.TypesInfo, x).(*types.Func); ok && depth < 3 {
					if fd := m.Decl[fn]; fd != nil && fd.Body != nil && len(fd.Body.List) == 1 {
						if ret, ok := fd.Body.List[0].(*ast.ReturnStmt); ok && len(ret.Results) > 0 {
							for _, re := range ret.Results {
								problems = append(problems, m.initialiserProblems(m.DeclPkg[fn], re, depth+1)...)
							}
							// the arguments are still inspected by the walk
							return true
						}
					}
				}
				problems = append(problems, "initialiser calls "+types.ExprString(x.Fun)+" returning a reference-bearing value at "+m.Pos(x.Pos()))
			}
		}
		return true
	})
	return problems
}

// isReadOnlyConstantTable: the package-level variable g is a map or slice whose elements carry no mutable reference
// (basic types, function values, structs of those) and every load of it in the program is only read: Lookup, Index,
// IndexAddr + load, Range, len/cap. Such a table is shared, but immutable.
func (m *Model) isReadOnlyConstantTable(g *ssa.Global, t types.Type) bool {
	var elem types.Type
	switch u := t.Underlying().(type) {
	case *types.Map:
		elem = u.Elem()
		if immutableElem(u.Key(), 0) == false {
			return false
		}
	case *types.Slice:
		elem = u.Elem()
	case *types.Array:
		elem = u.Elem()
	default:
		return false
	}
	if !immutableElem(elem, 0) {
		return false
	}
	ok := true
	for _, f := range m.Funcs {
		if isPkgInit(f) {
			continue
		}
		eachInstr(f, func(in ssa.Instruction) {
			u, isU := in.(*ssa.UnOp)
			if isU && u.Op == token.MUL && u.X == ssa.Value(g) {
				if u.Referrers() == nil {
					return
				}
				for _, ref := range *u.Referrers() {
					switch x := ref.(type) {
					case *ssa.Lookup, *ssa.Index, *ssa.Range, *ssa.DebugRef:
					case *ssa.IndexAddr:
						for _, r2 := range *x.Referrers() {
							if l2, isL := r2.(*ssa.UnOp); !isL || l2.Op != token.MUL {
								ok = false
							}
						}
					case ssa.CallInstruction:
						if b, isB := x.Common().Value.(*ssa.Builtin); !isB || (b.Name() != "len" && b.Name() != "cap") {
							ok = false
						}
					default:
						ok = false
					}
				}
				return
			}
			// any other use of the global's address (store, address escaping)
			for _, op := range in.Operands(nil) {
				if op != nil && *op == ssa.Value(g) {
					if st, isSt := in.(*ssa.Store); isSt && st.Addr == ssa.Value(g) {
						ok = false
					} else if !isU {
						ok = false
					}
				}
			}
		})
	}
	return ok
}

func immutableElem(t types.Type, depth int) bool {
	if depth > 3 {
		return false
	}
	switch u := t.Underlying().(type) {
	case *types.Basic, *types.Signature:
		return true
	case *types.Struct:
		for i := 0; i < u.NumFields(); i++ {
			if !immutableElem(u.Field(i).Type(), depth+1) {
				return false
			}
		}
		return true
	case *types.Array:
		return immutableElem(u.Elem(), depth+1)
	}
	return false
}
