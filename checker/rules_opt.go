package main

// OPT-1: optimality criterion of the network-simplex pivot loop (necessary structural clauses of C10).

import (
	"fmt"
	"go/token"
	"go/types"
	"strings"

	"golang.org/x/tools/go/ssa"
)

func init() {
	register(&Rule{
		ID: "OPT-1",
		Doc: "pivot-loop exit criterion: the pivot loop runs while its leave-edge selector returns non-nil; that selector returns nil only after a complete scan (index 0 .. len-1) of the graph's whole edge list and returns an element exactly when it is a tree edge with a negative cut value, so the loop can stop (budget aside) only when no tree edge has a negative cut value - the optimality criterion; " +
			"the enter-edge selector scans the whole edge list as well and keeps candidate and minimum slack paired under a strict comparison",
		Floor: 4,
		Ctl:   []string{"internal__phase2__opt1.go.txt"},
		Run:   runOpt1,
	})
}

// fullScanLoop: l iterates an index over the whole slice p: phi(-1) with idx+1 < len(p), or phi(0) with idx < len(p).
func fullScanLoop(l *loopInfo, p ssa.Value) (idx ssa.Value, ok bool, why string) {
	iff, isIf := l.Head.Instrs[len(l.Head.Instrs)-1].(*ssa.If)
	if !isIf {
		return nil, false, "loop header has no exit test"
	}
	bo, isBin := iff.Cond.(*ssa.BinOp)
	if !isBin || bo.Op != token.LSS {
		return nil, false, "loop exit test is not index < len"
	}
	call, isCall := bo.Y.(*ssa.Call)
	if !isCall {
		return nil, false, "loop bound is not len(slice)"
	}
	if b, isB := call.Call.Value.(*ssa.Builtin); !isB || b.Name() != "len" || !(call.Call.Args[0] == p || sameFieldReload(call.Call.Args[0], p, l)) {
		return nil, false, "loop bound is not the length of the scanned slice"
	}
	// index: bo.X is phi (start 0) or phi+1 (start -1)
	var phi *ssa.Phi
	start := int64(0)
	switch x := bo.X.(type) {
	case *ssa.Phi:
		phi = x
	case *ssa.BinOp:
		if x.Op == token.ADD {
			if c, isC := constInt(x.Y); isC && c == 1 {
				phi, _ = x.X.(*ssa.Phi)
				start = -1
			}
		}
	}
	if phi == nil {
		return nil, false, "loop index is not a counter"
	}
	hasStart, hasInc := false, false
	for _, e := range phi.Edges {
		if c, isC := constInt(e); isC {
			if c != start {
				return nil, false, fmt.Sprintf("the scan starts at index %d, not at the beginning", c+(0-start))
			}
			hasStart = true
			continue
		}
		if eb, isB := e.(*ssa.BinOp); isB && eb.Op == token.ADD {
			if c, isC := constInt(eb.Y); isC && c == 1 {
				hasInc = true
				continue
			}
		}
		if e == ssa.Value(phi) {
			continue
		}
		return nil, false, "the scan starts at " + e.String() + ", not at the beginning of the list"
	}
	if !hasStart || !hasInc {
		return nil, false, "loop index does not run from the beginning in steps of 1"
	}
	return bo.X, true, ""
}

// fullScanLoopAny: like fullScanLoop, and also `for i := 0; i <= len(p)-1; i++` and the descending scan
// `for i := len(p)-1; i >= 0; i--`. Returns the value that indexes the scanned slice.
func fullScanLoopAny(l *loopInfo, p ssa.Value) (idx ssa.Value, ok bool) {
	if idx, ok, _ := fullScanLoop(l, p); ok {
		return idx, true
	}
	iff, isIf := l.Head.Instrs[len(l.Head.Instrs)-1].(*ssa.If)
	if !isIf {
		return nil, false
	}
	bo, isBin := iff.Cond.(*ssa.BinOp)
	if !isBin {
		return nil, false
	}
	isLenOfP := func(v ssa.Value) bool {
		call, isCall := v.(*ssa.Call)
		if !isCall {
			return false
		}
		b, isB := call.Call.Value.(*ssa.Builtin)
		return isB && b.Name() == "len" && (call.Call.Args[0] == p || sameFieldReload(call.Call.Args[0], p, l) || sameSSAExpr(call.Call.Args[0], p, 0))
	}
	isLenMinus1 := func(v ssa.Value) bool {
		b2, ok := v.(*ssa.BinOp)
		if !ok || b2.Op != token.SUB {
			return false
		}
		c, isC := constInt(b2.Y)
		return isC && c == 1 && isLenOfP(b2.X)
	}
	phi, isPhi := bo.X.(*ssa.Phi)
	if !isPhi || phi.Block() != l.Head {
		return nil, false
	}
	step := func(want int64, tok token.Token) (hasStep bool, start ssa.Value, okShape bool) {
		okShape = true
		for _, e := range phi.Edges {
			if eb, isB := e.(*ssa.BinOp); isB && eb.Op == tok && eb.X == ssa.Value(phi) {
				if c, isC := constInt(eb.Y); isC && c == want {
					hasStep = true
					continue
				}
			}
			if e == ssa.Value(phi) {
				continue
			}
			if start != nil {
				okShape = false
			}
			start = e
		}
		return
	}
	switch bo.Op {
	case token.LEQ: // i <= len(p)-1, from 0 upwards
		if !isLenMinus1(bo.Y) {
			return nil, false
		}
		hasStep, start, okShape := step(1, token.ADD)
		if c, isC := constInt(start); hasStep && okShape && start != nil && isC && c == 0 {
			return phi, true
		}
	case token.GEQ: // i >= 0, from len(p)-1 downwards
		if c, isC := constInt(bo.Y); !isC || c != 0 {
			return nil, false
		}
		hasStep, start, okShape := step(1, token.SUB)
		if hasStep && okShape && start != nil && isLenMinus1(start) {
			return phi, true
		}
	}
	return nil, false
}

func sliceParamOf(f *ssa.Function) ssa.Value {
	for _, p := range f.Params {
		if sl, ok := p.Type().Underlying().(*types.Slice); ok && namedKey(sl.Elem()) == igEdge {
			return p
		}
	}
	return nil
}

func runOpt1(m *Model, r *RuleResult) {
	m.fxInit()
	n := 0
	for _, f := range m.Src {
		if shortPkg(pkgPathOf(f)) != "internal/phase2" {
			continue
		}
		loops := naturalLoops(f)
		var pivotLoop *loopInfo
		eachInstr(f, func(in ssa.Instruction) {
			ci, ok := in.(ssa.CallInstruction)
			if !ok {
				return
			}
			for _, cal := range m.Callees(ci) {
				e := m.effects[cal]
				if e != nil && e.Mod[igEdge+".IsInSpanningTree"] && e.Mod[igNode+".Layer"] && e.Mod[igEdge+".CutValue"] {
					if ls := loopsContaining(loops, in.Block()); len(ls) > 0 {
						pivotLoop = ls[0]
					}
				}
			}
		})
		if pivotLoop == nil {
			continue
		}
		n++
		ctl := m.FuncIsPosctl(f)
		key := "pivot-loop:" + funcKey(f)
		pos := m.Pos(pivotLoop.Head.Instrs[0].Pos())
		// loop condition: phi != nil
		iff, _ := pivotLoop.Head.Instrs[len(pivotLoop.Head.Instrs)-1].(*ssa.If)
		var ephi *ssa.Phi
		if iff != nil {
			if bo, ok := iff.Cond.(*ssa.BinOp); ok && bo.Op == token.NEQ {
				if c, isC := bo.Y.(*ssa.Const); isC && c.Value == nil {
					ephi, _ = bo.X.(*ssa.Phi)
				}
			}
		}
		if ephi == nil {
			if opt1StepForm(m, r, f, pivotLoop, key, pos, ctl) || opt1InLoopForm(m, r, f, pivotLoop, key, pos, ctl) {
				continue
			}
			r.add(Obligation{Key: key + ":runs-while-leave-edge", Pos: pos, Desc: "the pivot loop runs while a leave edge exists", Verdict: "violation", Detail: "the loop condition is not `leaveEdge != nil`", Control: ctl})
			continue
		}
		r.add(Obligation{Key: key + ":runs-while-leave-edge", Pos: pos, Desc: "the pivot loop runs while the leave-edge selector returns an edge", Verdict: "holds", Control: ctl})
		// selectors feeding the phi
		sels := map[*ssa.Function]bool{}
		okArgs := true
		for _, e := range ephi.Edges {
			call, ok := e.(*ssa.Call)
			if !ok || call.Call.StaticCallee() == nil {
				okArgs = false
				continue
			}
			sels[call.Call.StaticCallee()] = true
			// the scanned slice is the graph's whole edge list
			okList := false
			for _, a := range call.Call.Args {
				for _, o := range originsOf(a, 0) {
					if o.Kind == "fieldload" && o.Loc == igDG+".Edges" {
						okList = true
					}
				}
			}
			if !okList {
				okArgs = false
			}
		}
		if okArgs && len(sels) == 1 {
			r.add(Obligation{Key: key + ":leave-edge-source", Pos: pos, Desc: "before the loop and after every pivot the leave edge is selected by the same selector from g.Edges", Verdict: "holds", Control: ctl})
		} else {
			r.add(Obligation{Key: key + ":leave-edge-source", Pos: pos, Desc: "the leave edge must be re-selected from the whole edge list after every pivot", Verdict: "violation", Detail: "the loop variable is not fed by one selector applied to g.Edges on every edge", Control: ctl})
		}
		for sel := range sels {
			checkLeaveSelector(m, r, sel, ctl)
		}
		// enter-edge selector: other *Edge-returning static callee in the loop taking an edge slice
		eachInstr(f, func(in ssa.Instruction) {
			call, ok := in.(*ssa.Call)
			if !ok || !pivotLoop.Body[in.Block()] || call.Call.StaticCallee() == nil {
				return
			}
			cal := call.Call.StaticCallee()
			if sels[cal] || sliceParamOf(cal) == nil || cal.Signature.Results().Len() != 1 || namedKey(cal.Signature.Results().At(0).Type()) != igEdge {
				return
			}
			checkEnterSelector(m, r, cal, ctl)
		})
	}
	if n == 0 {
		r.undecided("pivot-loop", "-", "a pivot loop must exist in phase 2", "not found")
	}
}

func checkLeaveSelector(m *Model, r *RuleResult, sel *ssa.Function, ctl bool) {
	key := "leave-selector:" + funcKey(sel)
	pos := m.Pos(sel.Pos())
	p := sliceParamOf(sel)
	if p == nil {
		r.add(Obligation{Key: key, Pos: pos, Desc: "leave-edge selector scans an edge slice", Verdict: "undecided", Detail: "no []*Edge parameter", Control: ctl})
		return
	}
	loops := naturalLoops(sel)
	var bad []string
	nNil, nElem := 0, 0
	if handled, sbad := leaveSelectorBySearch(m, sel, p); handled {
		if len(sbad) == 0 {
			r.add(Obligation{Key: key, Pos: pos, Desc: "the selector returns nil only when the library search over the whole list finds nothing, and otherwise the first element that is a tree edge with negative cut value", Verdict: "holds", Control: ctl})
		} else {
			r.add(Obligation{Key: key, Pos: pos, Desc: "the pivot loop may stop only when no tree edge has a negative cut value", Verdict: "violation",
				Detail: strings.Join(uniq(sbad), "; ") + ": the loop can terminate while a negative cut value remains, so the layering is not of minimum total length", Control: ctl})
		}
		return
	}
	eachInstr(sel, func(in ssa.Instruction) {
		ret, ok := in.(*ssa.Return)
		if !ok || len(ret.Results) != 1 {
			return
		}
		if c, isC := ret.Results[0].(*ssa.Const); isC && c.Value == nil {
			nNil++
			// reached only through the exit edge of a full scan
			b := ret.Block()
			if len(b.Preds) != 1 {
				bad = append(bad, "`return nil` is reachable from several places")
				return
			}
			var l *loopInfo
			for _, x := range loops {
				if x.Head == b.Preds[0] {
					l = x
				}
			}
			if l == nil {
				bad = append(bad, "`return nil` does not follow a scan loop")
				return
			}
			if _, ok, why := fullScanLoop(l, p); !ok {
				bad = append(bad, "nil is returned after an incomplete scan: "+why)
			}
			// no other exit from the loop than returns of elements
			for bb := range l.Body {
				for _, s := range bb.Succs {
					if !l.Body[s] && !(bb == l.Head) {
						if _, isRet := s.Instrs[len(s.Instrs)-1].(*ssa.Return); !isRet {
							bad = append(bad, "the scan can be left early at "+m.Pos(bb.Instrs[len(bb.Instrs)-1].Pos()))
						}
					}
				}
			}
			return
		}
		// element return: must be an element of p under IsInSpanningTree && CutValue < 0
		nElem++
		u, ok := ret.Results[0].(*ssa.UnOp)
		isElem := false
		if ok && u.Op == token.MUL {
			if ia, ok := u.X.(*ssa.IndexAddr); ok && ia.X == p {
				isElem = true
			}
		}
		if !isElem {
			bad = append(bad, "a returned edge is not an element of the scanned list")
			return
		}
		tree, neg := false, false
		for _, d := range iterationControlDeps(ret.Block(), loops) {
			if k := treeNegFact(d.If.Cond, u); k == "" || d.Branch != 0 {
				bad = append(bad, "the returned edge must satisfy a further condition ("+d.If.Cond.String()+" at "+m.Pos(d.If.Cond.Pos())+"): a tree edge with negative cut value that fails it is passed over")
			}
			if d.Branch != 0 {
				continue
			}
			if ld, ok := d.If.Cond.(*ssa.UnOp); ok && ld.Op == token.MUL {
				if fa, ok := ld.X.(*ssa.FieldAddr); ok {
					base, steps := fieldChain(fa)
					if base == ssa.Value(u) && locOfSteps(steps) == igEdge+".IsInSpanningTree" {
						tree = true
					}
				}
			}
			if bo, ok := d.If.Cond.(*ssa.BinOp); ok && bo.Op == token.LSS {
				if c, isC := constInt(bo.Y); isC && c == 0 {
					if ld, ok := bo.X.(*ssa.UnOp); ok && ld.Op == token.MUL {
						if fa, ok := ld.X.(*ssa.FieldAddr); ok {
							base, steps := fieldChain(fa)
							if base == ssa.Value(u) && locOfSteps(steps) == igEdge+".CutValue" {
								neg = true
							}
						}
					}
				}
			}
		}
		if !tree || !neg {
			bad = append(bad, fmt.Sprintf("an edge is returned without being a tree edge (%v) with negative cut value (%v)", tree, neg))
		}
	})
	if nNil == 0 || nElem == 0 {
		bad = append(bad, fmt.Sprintf("selector has %d nil returns and %d element returns", nNil, nElem))
	}
	if len(bad) == 0 {
		r.add(Obligation{Key: key, Pos: pos, Desc: "the selector returns nil only after scanning the whole list, and an element exactly when it is a tree edge with negative cut value", Verdict: "holds", Control: ctl})
	} else {
		r.add(Obligation{Key: key, Pos: pos, Desc: "the pivot loop may stop only when no tree edge has a negative cut value", Verdict: "violation",
			Detail: strings.Join(uniq(bad), "; ") + ": the loop can terminate while a negative cut value remains, so the layering is not of minimum total length", Control: ctl})
	}
}

func checkEnterSelector(m *Model, r *RuleResult, sel *ssa.Function, ctl bool) {
	key := "enter-selector:" + funcKey(sel)
	for _, o := range r.Obligations {
		if o.Key == key {
			return
		}
	}
	pos := m.Pos(sel.Pos())
	p := sliceParamOf(sel)
	loops := naturalLoops(sel)
	var bad []string
	nret := 0
	eachInstr(sel, func(in ssa.Instruction) {
		ret, ok := in.(*ssa.Return)
		if !ok || len(ret.Results) != 1 {
			return
		}
		nret++
		cand, ok := ret.Results[0].(*ssa.Phi)
		if !ok {
			bad = append(bad, "the returned candidate is not accumulated over a scan")
			return
		}
		var l *loopInfo
		for _, x := range loops {
			if x.Head == cand.Block() {
				l = x
			}
		}
		if l == nil {
			bad = append(bad, "the candidate is not a loop-carried value")
			return
		}
		if _, ok, why := fullScanLoop(l, p); !ok {
			bad = append(bad, "candidates are taken from an incomplete scan: "+why)
		}
		if len(ret.Block().Preds) != 1 || ret.Block().Preds[0] != l.Head {
			bad = append(bad, "the selector can return before the scan is complete")
		}
		// paired strict argmin: the edge where cand changes is the true edge of x < minphi, where minphi takes x on the same edge
		// (with `continue` in a three-clause loop the new values first meet in a phi of the post block: look through it)
		flowsTo := func(q, head *ssa.Phi) bool {
			seen := map[*ssa.Phi]bool{}
			var rec func(h *ssa.Phi) bool
			rec = func(h *ssa.Phi) bool {
				if h == q {
					return true
				}
				if seen[h] {
					return false
				}
				seen[h] = true
				for _, e := range h.Edges {
					if ph, ok := e.(*ssa.Phi); ok && rec(ph) {
						return true
					}
				}
				return false
			}
			return rec(head)
		}
		seenPhi := map[*ssa.Phi]bool{}
		var expand func(ph *ssa.Phi)
		expand = func(ph *ssa.Phi) {
			if seenPhi[ph] {
				return
			}
			seenPhi[ph] = true
			for i, e := range ph.Edges {
				if e == ssa.Value(cand) {
					continue
				}
				if c, isC := e.(*ssa.Const); isC && c.Value == nil {
					continue
				}
				if inner, ok := e.(*ssa.Phi); ok && l.Body[inner.Block()] {
					expand(inner)
					continue
				}
				pred := ph.Block().Preds[i]
				okPair := false
				for _, d := range transitiveControlDepsWithin(pred, l) {
					bo, ok := d.If.Cond.(*ssa.BinOp)
					if !ok || bo.Op != token.LSS || d.Branch != 0 {
						continue
					}
					minphi, ok := bo.Y.(*ssa.Phi)
					if !ok || minphi.Block() != cand.Block() {
						continue
					}
					for _, in := range ph.Block().Instrs {
						q, isPhi := in.(*ssa.Phi)
						if !isPhi {
							break
						}
						if i < len(q.Edges) && q.Edges[i] == bo.X && flowsTo(q, minphi) {
							okPair = true
						}
					}
				}
				if !okPair {
					bad = append(bad, "a candidate is taken without a strict `slack < minimum` test that also records the new minimum")
				}
			}
		}
		expand(cand)
	})
	if nret == 0 {
		bad = append(bad, "no return")
	}
	if len(bad) == 0 {
		r.add(Obligation{Key: key, Pos: pos, Desc: "the enter edge is the first strict minimum-slack candidate of a complete scan", Verdict: "holds", Control: ctl})
	} else {
		r.add(Obligation{Key: key, Pos: pos, Desc: "the enter edge must have minimum slack among all candidates", Verdict: "violation",
			Detail: strings.Join(uniq(bad), "; ") + ": exchanging with a non-minimal edge makes other edges infeasible (shorter than their minimum length)", Control: ctl})
	}
}

func isLoopHeadTest(loops []*loopInfo, iff *ssa.If) bool {
	for _, l := range loops {
		if l.Head == iff.Block() {
			return true
		}
	}
	return false
}

// treeNegFact classifies a condition on the edge value e: "tree" (load of e.IsInSpanningTree), "neg" (e.CutValue < 0), or "".
func treeNegFact(c ssa.Value, e ssa.Value) string {
	if ld, ok := c.(*ssa.UnOp); ok && ld.Op == token.MUL {
		if fa, ok := ld.X.(*ssa.FieldAddr); ok {
			base, steps := fieldChain(fa)
			if base == e && locOfSteps(steps) == igEdge+".IsInSpanningTree" {
				return "tree"
			}
		}
	}
	if bo, ok := c.(*ssa.BinOp); ok && bo.Op == token.LSS {
		if k, isC := constInt(bo.Y); isC && k == 0 {
			if ld, ok := bo.X.(*ssa.UnOp); ok && ld.Op == token.MUL {
				if fa, ok := ld.X.(*ssa.FieldAddr); ok {
					base, steps := fieldChain(fa)
					if base == e && locOfSteps(steps) == igEdge+".CutValue" {
						return "neg"
					}
				}
			}
		}
	}
	return ""
}

// predicateIsTreeNeg: the boolean function fn(e) is true exactly under e.IsInSpanningTree && e.CutValue < 0.
func predicateIsTreeNeg(fn *ssa.Function) (bool, string) {
	if fn == nil || len(fn.Params) != 1 || len(fn.Blocks) == 0 {
		return false, "the search predicate is not a one-argument function"
	}
	e := ssa.Value(fn.Params[0])
	// facts that hold when value v, computed/selected at the end of block at, is true
	var truth func(v ssa.Value, at *ssa.BasicBlock, depth int) (facts map[string]bool, never bool, extra string)
	truth = func(v ssa.Value, at *ssa.BasicBlock, depth int) (map[string]bool, bool, string) {
		facts := map[string]bool{}
		extra := ""
		for _, d := range transitiveControlDeps(at) {
			k := treeNegFact(d.If.Cond, e)
			if k == "" || d.Branch != 0 {
				extra = d.If.Cond.String()
				continue
			}
			facts[k] = true
		}
		switch x := v.(type) {
		case *ssa.Const:
			if x.Value != nil && x.Value.String() == "false" {
				return nil, true, ""
			}
			return facts, false, extra
		case *ssa.Phi:
			if depth > 3 {
				return nil, false, "nested selection"
			}
			merged := map[string]bool{}
			first := true
			for i, ed := range x.Edges {
				f, never, ex := truth(ed, x.Block().Preds[i], depth+1)
				if never {
					continue
				}
				if ex != "" {
					return nil, false, ex
				}
				if first {
					merged, first = f, false
				} else if len(f) != len(merged) {
					return nil, false, "alternatives with different conditions"
				}
			}
			if first {
				return nil, true, ""
			}
			return merged, false, ""
		default:
			if k := treeNegFact(v, e); k != "" {
				facts[k] = true
				return facts, false, extra
			}
			return nil, false, v.String()
		}
	}
	nret := 0
	for _, b := range fn.Blocks {
		ret, ok := b.Instrs[len(b.Instrs)-1].(*ssa.Return)
		if !ok || len(ret.Results) != 1 {
			continue
		}
		f, never, extra := truth(ret.Results[0], b, 0)
		if never {
			continue
		}
		nret++
		if extra != "" {
			return false, "the search predicate also depends on " + extra
		}
		if !f["tree"] || !f["neg"] || len(f) != 2 {
			return false, fmt.Sprintf("the search predicate is not `tree edge && cut value < 0` (tree: %v, negative: %v)", f["tree"], f["neg"])
		}
	}
	if nret == 0 {
		return false, "the search predicate is never true"
	}
	return true, ""
}

// leaveSelectorBySearch recognises  i := slices.IndexFunc(p, pred); if i < 0 { return nil }; return p[i]  (either polarity).
func leaveSelectorBySearch(m *Model, sel *ssa.Function, p ssa.Value) (handled bool, bad []string) {
	var search *ssa.Call
	eachInstr(sel, func(in ssa.Instruction) {
		c, ok := in.(*ssa.Call)
		if !ok {
			return
		}
		cal := c.Call.StaticCallee()
		if cal == nil || cal.Pkg == nil && cal.Origin() == nil {
			return
		}
		o := cal
		if cal.Origin() != nil {
			o = cal.Origin()
		}
		if o.Pkg != nil && o.Pkg.Pkg.Path() == "slices" && o.Name() == "IndexFunc" {
			search = c
		}
	})
	if search == nil {
		return false, nil
	}
	if len(naturalLoops(sel)) > 0 {
		return true, []string{"the selector mixes a library search with its own loop"}
	}
	arg0 := search.Call.Args[0]
	if ct, ok := arg0.(*ssa.ChangeType); ok {
		arg0 = ct.X
	}
	if arg0 != p {
		bad = append(bad, "the library search does not scan the whole edge list it is given")
	}
	var pred *ssa.Function
	switch f := search.Call.Args[1].(type) {
	case *ssa.Function:
		pred = f
	case *ssa.MakeClosure:
		pred, _ = f.Fn.(*ssa.Function)
	case *ssa.ChangeType:
		pred, _ = f.X.(*ssa.Function)
	}
	if ok, why := predicateIsTreeNeg(pred); !ok {
		bad = append(bad, why)
	}
	nNil, nElem := 0, 0
	eachInstr(sel, func(in ssa.Instruction) {
		ret, ok := in.(*ssa.Return)
		if !ok || len(ret.Results) != 1 {
			return
		}
		// the test on the search result that guards this return
		notFound := 0 // +1: guarded by "not found", -1: guarded by "found"
		for _, d := range transitiveControlDeps(ret.Block()) {
			bo, ok := d.If.Cond.(*ssa.BinOp)
			if !ok || bo.X != ssa.Value(search) {
				bad = append(bad, "a return depends on "+d.If.Cond.String())
				continue
			}
			k, isC := constInt(bo.Y)
			var nf bool // the condition being true means "not found"
			switch {
			case bo.Op == token.LSS && isC && k == 0, bo.Op == token.EQL && isC && k == -1, bo.Op == token.LEQ && isC && k == -1:
				nf = true
			case bo.Op == token.GEQ && isC && k == 0, bo.Op == token.NEQ && isC && k == -1, bo.Op == token.GTR && isC && k == -1:
				nf = false
			default:
				bad = append(bad, "unrecognised test of the search result: "+bo.String())
				continue
			}
			if nf == (d.Branch == 0) {
				notFound = 1
			} else {
				notFound = -1
			}
		}
		if c, isC := ret.Results[0].(*ssa.Const); isC && c.Value == nil {
			nNil++
			if notFound != 1 {
				bad = append(bad, "nil is returned although the search may have found an edge")
			}
			return
		}
		nElem++
		u, ok := ret.Results[0].(*ssa.UnOp)
		okElem := false
		if ok && u.Op == token.MUL {
			if ia, ok := u.X.(*ssa.IndexAddr); ok && ia.X == p && ia.Index == ssa.Value(search) {
				okElem = true
			}
		}
		if !okElem {
			bad = append(bad, "the returned edge is not the element the search found")
		}
		if notFound != -1 {
			bad = append(bad, "an element is returned without testing that the search found one")
		}
	})
	if nNil == 0 || nElem == 0 {
		bad = append(bad, fmt.Sprintf("selector has %d nil returns and %d element returns", nNil, nElem))
	}
	return true, bad
}

// sameFieldReload: a and b are two loads of the same field of the same object (an index loop re-reads g.Nodes in its header
// and in its body) and the loop does not store into that field.
func sameFieldReload(a, b ssa.Value, l *loopInfo) bool {
	ua, ok1 := a.(*ssa.UnOp)
	ub, ok2 := b.(*ssa.UnOp)
	if !ok1 || !ok2 || ua.Op != token.MUL || ub.Op != token.MUL {
		return false
	}
	fa, ok1 := ua.X.(*ssa.FieldAddr)
	fb, ok2 := ub.X.(*ssa.FieldAddr)
	if !ok1 || !ok2 || !sameSSAExpr(fa, fb, 0) {
		return false
	}
	for bb := range l.Body {
		for _, in := range bb.Instrs {
			if st, ok := in.(*ssa.Store); ok {
				if f2, ok := st.Addr.(*ssa.FieldAddr); ok && f2.Field == fa.Field && types.Identical(f2.X.Type(), fa.X.Type()) {
					return false
				}
			}
		}
	}
	return true
}

// ---------- TIGHT-1 ----------

func init() {
	register(&Rule{
		ID: "TIGHT-1",
		Doc: "only tight edges enter the spanning tree: every store `Edge.IsInSpanningTree := true` of the layering phase is control-dependent on `slack(e) == 0` for the same edge (tree construction), " +
			"or sits in a function that first computes d := slack(f) of that same edge and shifts Node.Layer by d (the pivot makes the entering edge tight); slack is recognised by shape (To.Layer - From.Layer - Delta, inline or through a one-line helper). " +
			"A tree with slack edges is not a feasible basis: all cut values can be non-negative while edges are longer than necessary",
		Floor: 2,
		Ctl:   []string{"internal__phase2__tight1.go.txt"},
		Run:   runTight1,
	})
}

// slackOf: v is the slack of edge value e (inline To.Layer - From.Layer - Delta, or a call of a helper that returns it).
func slackOf(v ssa.Value, depth int) (e ssa.Value, ok bool) {
	if depth > 2 {
		return nil, false
	}
	loadPath := func(x ssa.Value, want string) (ssa.Value, bool) {
		u, isU := x.(*ssa.UnOp)
		if !isU || u.Op != token.MUL {
			return nil, false
		}
		fa, isFA := u.X.(*ssa.FieldAddr)
		if !isFA {
			return nil, false
		}
		base, steps := fieldChain(fa)
		if locOfSteps(steps) != want {
			return nil, false
		}
		return base, true
	}
	endLayer := func(x ssa.Value, end string) (ssa.Value, bool) {
		nb, ok := loadPath(x, igNode+".Layer")
		if !ok {
			return nil, false
		}
		return loadPath(nb, igEdge+"."+end)
	}
	switch x := v.(type) {
	case *ssa.BinOp:
		if x.Op != token.SUB {
			return nil, false
		}
		inner, isB := x.X.(*ssa.BinOp)
		if !isB || inner.Op != token.SUB {
			return nil, false
		}
		e1, ok1 := endLayer(inner.X, "To")
		e2, ok2 := endLayer(inner.Y, "From")
		e3, ok3 := loadPath(x.Y, igEdge+".Delta")
		if ok1 && ok2 && ok3 && e1 == e2 && e2 == e3 {
			return e1, true
		}
	case *ssa.Call:
		c := x.Call.StaticCallee()
		if c == nil || len(c.Blocks) != 1 || len(c.Params) != 1 || len(x.Call.Args) != 1 {
			return nil, false
		}
		if ret, isRet := c.Blocks[0].Instrs[len(c.Blocks[0].Instrs)-1].(*ssa.Return); isRet && len(ret.Results) == 1 {
			if pe, ok := slackOf(ret.Results[0], depth+1); ok && pe == ssa.Value(c.Params[0]) {
				return x.Call.Args[0], true
			}
		}
	}
	return nil, false
}

func runTight1(m *Model, r *RuleResult) {
	for _, f := range m.Src {
		if shortPkg(pkgPathOf(f)) != "internal/phase2" {
			continue
		}
		loops := naturalLoops(f)
		n := 0
		eachInstr(f, func(in ssa.Instruction) {
			st, ok := in.(*ssa.Store)
			if !ok {
				return
			}
			c, isC := st.Val.(*ssa.Const)
			if !isC || !isConstBool(c, true) {
				return
			}
			fa, ok := st.Addr.(*ssa.FieldAddr)
			if !ok {
				return
			}
			eb, steps := fieldChain(fa)
			if locOfSteps(steps) != igEdge+".IsInSpanningTree" || isFreshObject(eb, 0) {
				return
			}
			n++
			key := fmt.Sprintf("tree-entry:%s#%d", funcKey(f), n)
			ctl := m.FuncIsPosctl(f)
			// (a) guarded by slack(e) == 0
			guarded := false
			var deps []ctrlDep
			for _, d := range iterationControlDeps(st.Block(), loops) {
				deps = append(deps, d)
				// `case a && b && c:` of a tagless switch is lowered to a phi of false constants and the last conjunct: on its true edge
				// every conjunct that feeds the phi is true
				if phi, isPhi := d.If.Cond.(*ssa.Phi); isPhi && d.Branch == 0 {
					for _, e := range phi.Edges {
						if c, isC := e.(*ssa.Const); isC && isConstBool(c, false) {
							continue
						}
						if _, isBin := e.(*ssa.BinOp); isBin {
							deps = append(deps, ctrlDep{If: &ssa.If{Cond: e}, Branch: 0})
						}
					}
				}
			}
			for _, d := range deps {
				bo, ok := d.If.Cond.(*ssa.BinOp)
				if !ok {
					continue
				}
				if k, isK := constInt(bo.Y); isK && k == 0 {
					if se, ok := slackOf(bo.X, 0); ok && (se == eb || sameSSAExpr(se, eb, 0)) {
						if (bo.Op == token.EQL && d.Branch == 0) || (bo.Op == token.NEQ && d.Branch == 1) || (bo.Op == token.LEQ && d.Branch == 0) {
							guarded = true
						}
					}
				}
			}
			// (b) made tight: d := slack(e) computed before, and Node.Layer shifted by d in this function
			madeTight := false
			eachInstr(f, func(in2 ssa.Instruction) {
				v, isV := in2.(ssa.Value)
				if !isV {
					return
				}
				se, ok := slackOf(v, 0)
				if !ok || !(se == eb || sameSSAExpr(se, eb, 0)) || !instrDominates(in2, st) {
					return
				}
				eachInstr(f, func(in3 ssa.Instruction) {
					ls, ok := in3.(*ssa.Store)
					if !ok {
						return
					}
					fa3, ok := ls.Addr.(*ssa.FieldAddr)
					if !ok {
						return
					}
					_, st3 := fieldChain(fa3)
					if locOfSteps(st3) != igNode+".Layer" {
						return
					}
					if bo, ok := ls.Val.(*ssa.BinOp); ok && (bo.Op == token.SUB || bo.Op == token.ADD) && (bo.Y == v || bo.X == v) {
						madeTight = true
					}
				})
			})
			switch {
			case guarded:
				r.add(Obligation{Key: key, Pos: m.Pos(st.Pos()), Desc: "the edge enters the tree only under slack(e) == 0", Verdict: "holds", Control: ctl})
			case madeTight:
				r.add(Obligation{Key: key, Pos: m.Pos(st.Pos()), Desc: "the edge enters the tree after the layers were shifted by its slack (it is tight then)", Verdict: "holds", Control: ctl})
			default:
				r.add(Obligation{Key: key, Pos: m.Pos(st.Pos()), Desc: "an edge may enter the spanning tree only when it is tight", Verdict: "violation",
					Detail: "IsInSpanningTree := true is neither guarded by slack(e) == 0 nor preceded by a shift of the layers by slack(e): the tree is not a feasible basis, all cut values can be non-negative while the layering is longer than necessary", Control: ctl})
			}
		})
	}
}

// opt1StepForm: the pivot loop calls a step function `pivot(g) bool` and stops when it reports false. The step selects the
// leave edge from g.Edges itself; it may report false only when the leave-edge selector (or the enter-edge selector) returned
// nil, and true only after the exchange. Returns false when the loop is not of this form.
func opt1StepForm(m *Model, r *RuleResult, f *ssa.Function, l *loopInfo, key, pos string, ctl bool) bool {
	// the step: a bool-returning module callee in the loop whose result decides an exit
	var step *ssa.Function
	for b := range l.Body {
		iff, ok := b.Instrs[len(b.Instrs)-1].(*ssa.If)
		if !ok || (l.Body[b.Succs[0]] && l.Body[b.Succs[1]]) {
			continue
		}
		c := iff.Cond
		neg := false
		if u, ok := c.(*ssa.UnOp); ok && u.Op == token.NOT {
			c, neg = u.X, true
		}
		call, ok := c.(*ssa.Call)
		if !ok || call.Call.StaticCallee() == nil || !inModule(call.Call.StaticCallee()) {
			continue
		}
		// the loop is left when the step returns false
		exitOnFalse := (!neg && !l.Body[b.Succs[1]]) || (neg && !l.Body[b.Succs[0]])
		e := m.effects[call.Call.StaticCallee()]
		if exitOnFalse && e != nil && e.Mod[igEdge+".IsInSpanningTree"] && e.Mod[igNode+".Layer"] {
			step = call.Call.StaticCallee()
		}
	}
	if step == nil {
		return false
	}
	isEdgeSel := func(c *ssa.Function) bool {
		return c != nil && sliceParamOf(c) != nil && c.Signature.Results().Len() == 1 && namedKey(c.Signature.Results().At(0).Type()) == igEdge
	}
	var selCalls []*ssa.Call
	eachInstr(step, func(in ssa.Instruction) {
		if call, ok := in.(*ssa.Call); ok && isEdgeSel(call.Call.StaticCallee()) {
			selCalls = append(selCalls, call)
		}
	})
	if len(selCalls) != 2 {
		r.add(Obligation{Key: key + ":runs-while-leave-edge", Pos: pos, Desc: "the pivot step selects a leave edge and an enter edge", Verdict: "violation",
			Detail: fmt.Sprintf("%d edge selectors are called in %s, expected the leave-edge and the enter-edge selector", len(selCalls), funcKey(step)), Control: ctl})
		return true
	}
	// leave selector: the one whose result is an argument of the other
	leave, enter := selCalls[0], selCalls[1]
	usesOther := func(a, b *ssa.Call) bool {
		for _, x := range a.Call.Args {
			if x == ssa.Value(b) {
				return true
			}
		}
		return false
	}
	if usesOther(leave, enter) {
		leave, enter = enter, leave
	}
	// every `return false` is guarded by a nil test of one of the two selections; `return true` follows the exchange
	var bad []string
	nFalse := 0
	eachInstr(step, func(in ssa.Instruction) {
		ret, ok := in.(*ssa.Return)
		if !ok || len(ret.Results) != 1 {
			return
		}
		c, isC := ret.Results[0].(*ssa.Const)
		if !isC {
			bad = append(bad, "the step's result at "+m.Pos(ret.Pos())+" is not a constant")
			return
		}
		if isConstBool(c, false) {
			nFalse++
			okGuard := false
			for _, d := range controlDeps(ret.Block()) {
				bo, ok := d.If.Cond.(*ssa.BinOp)
				if !ok {
					continue
				}
				k, isK := bo.Y.(*ssa.Const)
				if !isK || k.Value != nil {
					continue
				}
				isNilBranch := (bo.Op == token.EQL && d.Branch == 0) || (bo.Op == token.NEQ && d.Branch == 1)
				if isNilBranch && (bo.X == ssa.Value(leave) || bo.X == ssa.Value(enter)) {
					okGuard = true
				}
			}
			if !okGuard {
				bad = append(bad, "the step reports \"stop\" at "+m.Pos(ret.Pos())+" although the leave-edge selector may have returned an edge")
			}
		}
	})
	if nFalse == 0 {
		bad = append(bad, "the step never reports \"stop\"")
	}
	if len(bad) == 0 {
		r.add(Obligation{Key: key + ":runs-while-leave-edge", Pos: pos, Desc: "the pivot loop stops (budget aside) only when the step finds no leave edge (or no enter edge)", Verdict: "holds", Control: ctl})
	} else {
		r.add(Obligation{Key: key + ":runs-while-leave-edge", Pos: pos, Desc: "the pivot loop may stop only when no leave edge exists", Verdict: "violation", Detail: strings.Join(uniq(bad), "; "), Control: ctl})
	}
	// the leave edge is selected from the whole edge list in every step
	okList := false
	for _, a := range leave.Call.Args {
		for _, o := range originsOf(a, 0) {
			if o.Kind == "fieldload" && o.Loc == igDG+".Edges" {
				okList = true
			}
		}
	}
	if okList {
		r.add(Obligation{Key: key + ":leave-edge-source", Pos: pos, Desc: "every step selects the leave edge from g.Edges with the same selector", Verdict: "holds", Control: ctl})
	} else {
		r.add(Obligation{Key: key + ":leave-edge-source", Pos: pos, Desc: "the leave edge must be re-selected from the whole edge list in every step", Verdict: "violation", Detail: "the selector is not applied to g.Edges", Control: ctl})
	}
	checkLeaveSelector(m, r, leave.Call.StaticCallee(), ctl)
	checkEnterSelector(m, r, enter.Call.StaticCallee(), ctl)
	return true
}

// opt1InLoopForm: a budget-counted loop whose body selects the leave edge itself:
// `for i := 0; i < max; i++ { e := leave(g.Edges); if e == nil { break }; f := enter(g.Edges, e); if f == nil { break }; exchange(e, f) }`.
// Besides the header's own test (the budget, CAP-1) the loop may be left only on the nil branch of a test of one of the two
// selections made in that iteration. Returns false when the loop is not of this form.
func opt1InLoopForm(m *Model, r *RuleResult, f *ssa.Function, l *loopInfo, key, pos string, ctl bool) bool {
	isEdgeSel := func(c *ssa.Function) bool {
		return c != nil && sliceParamOf(c) != nil && c.Signature.Results().Len() == 1 && namedKey(c.Signature.Results().At(0).Type()) == igEdge
	}
	var selCalls []*ssa.Call
	eachInstr(f, func(in ssa.Instruction) {
		if call, ok := in.(*ssa.Call); ok && l.Body[in.Block()] && isEdgeSel(call.Call.StaticCallee()) {
			selCalls = append(selCalls, call)
		}
	})
	if len(selCalls) != 2 {
		return false
	}
	leave, enter := selCalls[0], selCalls[1]
	for _, x := range leave.Call.Args {
		if x == ssa.Value(enter) {
			leave, enter = enter, leave
		}
	}
	uses := false
	for _, x := range enter.Call.Args {
		if x == ssa.Value(leave) {
			uses = true
		}
	}
	if !uses {
		return false
	}
	var bad []string
	nNilExit := 0
	for b := range l.Body {
		for i, s := range b.Succs {
			if l.Body[s] || b == l.Head {
				continue
			}
			iff, ok := b.Instrs[len(b.Instrs)-1].(*ssa.If)
			if !ok {
				bad = append(bad, "the loop is left unconditionally at "+m.Pos(b.Instrs[len(b.Instrs)-1].Pos()))
				continue
			}
			okExit := false
			if bo, ok := iff.Cond.(*ssa.BinOp); ok {
				if k, isK := bo.Y.(*ssa.Const); isK && k.Value == nil {
					isNilBranch := (bo.Op == token.EQL && i == 0) || (bo.Op == token.NEQ && i == 1)
					if isNilBranch && bo.X == ssa.Value(leave) {
						okExit = true
						nNilExit++
					}
					if isNilBranch && bo.X == ssa.Value(enter) {
						okExit = true
					}
				}
			}
			if !okExit {
				bad = append(bad, "the loop is left under "+iff.Cond.String()+" at "+m.Pos(iff.Cond.Pos())+" although the leave-edge selector may have returned an edge")
			}
		}
	}
	if nNilExit == 0 {
		bad = append(bad, "the loop never stops on a missing leave edge")
	}
	if len(bad) == 0 {
		r.add(Obligation{Key: key + ":runs-while-leave-edge", Pos: pos, Desc: "the pivot loop stops (budget aside) only when the selection made in that iteration finds no leave edge (or no enter edge)", Verdict: "holds", Control: ctl})
	} else {
		r.add(Obligation{Key: key + ":runs-while-leave-edge", Pos: pos, Desc: "the pivot loop may stop only when no leave edge exists", Verdict: "violation", Detail: strings.Join(uniq(bad), "; "), Control: ctl})
	}
	okList := false
	for _, a := range leave.Call.Args {
		for _, o := range originsOf(a, 0) {
			if o.Kind == "fieldload" && o.Loc == igDG+".Edges" {
				okList = true
			}
		}
	}
	if okList {
		r.add(Obligation{Key: key + ":leave-edge-source", Pos: pos, Desc: "every iteration selects the leave edge from g.Edges with the same selector", Verdict: "holds", Control: ctl})
	} else {
		r.add(Obligation{Key: key + ":leave-edge-source", Pos: pos, Desc: "the leave edge must be re-selected from the whole edge list in every iteration", Verdict: "violation", Detail: "the selector is not applied to g.Edges", Control: ctl})
	}
	checkLeaveSelector(m, r, leave.Call.StaticCallee(), ctl)
	checkEnterSelector(m, r, enter.Call.StaticCallee(), ctl)
	return true
}

// transitiveControlDepsWithin: control dependences of b that lie inside loop l, not followed through the loop head
func transitiveControlDepsWithin(b *ssa.BasicBlock, l *loopInfo) []ctrlDep {
	var out []ctrlDep
	for _, d := range iterationControlDeps(b, []*loopInfo{l}) {
		if l.Body[d.If.Block()] {
			out = append(out, d)
		}
	}
	return out
}
