package main

// Property -> rules mapping. Explanations say what the rules decide and what they do not.

func init() {
	registerProp(&Property{
		ID: "C15", Kind: "sufficient static argument",
		Rules: []string{"LANG-0", "GLOB-1", "RO-1", "DET-2"},
		Explanation: "A data race needs a location reachable by two goroutines with one writer. Locations a Layout call can reach are its own allocations, its arguments (independent by hypothesis, and only read: RO-1), package-level variables and library internals. " +
			"GLOB-1 enumerates every package-level variable of the module and every store, address-taking and mutation through a loaded reference: stores exist only in package monitor under the m != nil guard, so with no monitor supplied m stays nil by induction and no store executes; defaultOptions is only loaded. " +
			"LANG-0 excludes goroutines, unsafe and reflection inside the library; DET-2's allow-list of directly called library functions contains only goroutine-safe or per-call state (rand.New per call). 'Same result as alone' then follows from the C07 argument. " +
			"Not decided: nothing of the property is left to run time except the trusted base (go/types, go/ssa, the stdlib allow-list).",
		Assumptions: []string{"the Go memory model: no race without a shared written location", "stdlib functions on the DET-2 allow-list keep no cross-call mutable state", "callers pass independent sources (property hypothesis)"},
	})
	registerProp(&Property{
		ID: "C18", Kind: "sufficient static argument (passive monitor)",
		Rules: []string{"LANG-0", "MON-1", "ORD-1", "GLOB-1"},
		Explanation: "MON-1: the monitor globals are read only inside package monitor; the functions the pipeline calls there (Set, PrefixFor, Reset, Log) return nothing and modify only the monitor globals; under the m != nil guards only Monitor.Log and Phase()/String() of algorithm values run, and those modify nothing; the options.monitor field flows only into Set. Hence no value computed by the pipeline depends on the presence of a monitor. " +
			"ORD-1: Set is immediately followed by `defer Reset()` in Layout (so Reset runs on panic too), Set has no other call site, Reset clears all three globals under the m != nil guard only; GLOB-1 shows nothing else writes them. " +
			"Not decided: what a user-supplied monitor does with the pointers it is handed (Log(\"route-node\", n) passes live nodes) - the argument is for a monitor that only observes.",
		Assumptions: []string{"the supplied monitor does not mutate the values it receives", "no goroutines (LANG-0)"},
	})
	registerProp(&Property{
		ID: "C07", Kind: "sufficient static argument",
		Rules: []string{"LANG-0", "DET-1", "DET-2", "DET-3", "GLOB-1", "RO-1"},
		Explanation: "With LANG-0 (no goroutines, select, unsafe, reflect) run-to-run variation of a Go program can only come from map iteration order, pointer values observed other than by ==, and clock/random/environment calls. " +
			"DET-2 closes the last two: the direct library callees of reachable module code are on a reviewed allow-list, time.Now only seeds a per-call RNG whose every draw is guarded by the documented non-deterministic option, and pointer values cannot be ordered or hashed without unsafe. " +
			"DET-1 classifies every range over a map in reachable code as a set of commutative updates; DET-3 shows the component split keeps input order; GLOB-1 shows no state survives a call; RO-1 shows the caller's edge slice and size map are only read. " +
			"Not decided: floating-point results are assumed reproducible for identical operation sequences (true for Go on one platform); library internals are trusted by table.",
		Assumptions: []string{"stdlib functions on the allow-list are deterministic functions of their arguments", "float max/min reductions are order-insensitive (no NaN inputs)", "VTA call graph over-approximates dynamic calls (no reflect/unsafe: LANG-0)"},
	})
}
