package main

// Property -> rules mapping. Explanations say what the rules decide and what they do not.

func init() {
	registerProp(&Property{
		ID: "C01", Kind: "necessary structural clauses",
		Tech:  "effect summaries + CFG/SSA lints (iterator invalidation, shift bounds, normaliser order, recursion guards, iteration caps, inverse pairs)",
		Rules: []string{"LANG-0", "ITER-1", "SHIFT-1", "ORD-4", "REC-1", "PROG-1", "CAP-1", "EFF-2", "ORD-2", "POST-1", "ACYC-1", "SPLIT-1", "PROG-2", "NIL-1", "STALE-1"},
		Explanation: "Panic-freedom and termination of network simplex, weighted median, the compaction algorithms, the funnel and the spline fitter quantify over run-time values; no sound bound is in reach, so the check decides necessary clauses that are visible in the shape of the code: " +
			"ITER-1 no loop removes the element it is visiting from the adjacency/edge list it iterates (skipped edges left the graph cyclic -> 'still cyclic' panic); SHIFT-1 no unbounded shift (layer masks collapsed at 64 layers -> matrix index panic); " +
			"ORD-4 layers stay >= 0 after normalisation (negative layers index the layer slice); REC-1 every recursive traversal has a mark-and-test guard or a reviewed termination argument; PROG-1 the flag-guarded fix-point of the default positioner repeats only after strictly increasing a coordinate; PROG-2 the repeat-while-improved exchange pass of the ordering phase asks for another pass only after a strict decrease of the crossing count (an equally good swap kept to leave local minima alternates for ever); CAP-1 the two documented iteration caps exist and depend on their options; " +
			"EFF-2 + ORD-2 self-loops are out of all three lists while the pipeline runs and back afterwards, and every phase runs on a connected component in phase order; ACYC-1 the acyclicity test that lets phase 1 return early starts a search from every node (a missed cycle makes layering and positioning recurse for ever); POST-1 the layering phase builds the layer table on every path to a normal return (later phases index it unconditionally, also for one-node components); SPLIT-1 a component is cut from sets that hold the marks of one walk only (a component with another component's edges makes the phases index out of range). " +
			"NIL-1 a geometry function's nil result (no result) is tested before it is indexed - on the reference tree this reports a genuine, recorded defect: geom.Shortest indexes the diagonal list of crossedDiagonals unconditionally, and spline routing panics with index out of range [-1] whenever the dual graph of the corridor triangulation does not connect the start and end triangles (known_findings.txt). STALE-1 a map cell that is tested before it is set inside a loop is tested in the iteration that sets it (seeded change C01h hoisted Brandes-Koepf's not-aligned-yet test in front of the loop over the median neighbours: a node aligned with both medians breaks the block cycle and the compaction never returns to its root). Not decided: explicit panic sites guarded by run-time preconditions, index/nil safety in general, termination of feasibleTree, placeBlock, the funnel loops and the predecessor walk in geom.Shortest, memory budgets.",
		Assumptions: []string{"clauses are necessary, not sufficient, for the property", "REC-1's reviewed table (5 functions) is correct"},
	})
	registerProp(&Property{
		ID: "C02", Kind: "necessary structural clauses",
		Tech:  "dominance/ordering rules on Layout, effect-contract checks (Reverse involution, inverse pairs), field-ownership table, typed-AST output mapping",
		Rules: []string{"ORD-2", "ORD-3", "EFF-1", "EFF-2", "PAIR-2", "PAIR-3", "OWN-1", "SPLIT-1", "POP-1", "OPTS-1", "GLOB-1", "POST-1"},
		Explanation: "Decides the undo structure and the output mapping, not the multiset equality itself: ORD-2 restore and un-reverse happen after the pipeline and before collection; EFF-1 Reverse is an involution on direction/flag/adjacency; EFF-2 fragments and self-loops: every add has its remove; " +
			"PAIR-2 un-reverse exactly the flagged edges; PAIR-3 ID/direction/size copied from the right fields, helper nodes filtered unless requested, no other node or edge dropped; OWN-1 Edge.Points written only by routers (which never see self-loops), Node.W/H written only by the two option closures, IsVirtual/ID only at construction; " +
			"ORD-3 fixed size first, per-node override second and only for listed nodes; SPLIT-1 the component traversal records every node and edge it reaches; POP-1 every row of the source becomes an edge (no row is skipped or folded into another); OPTS-1 + GLOB-1 the sizes are the ones configured for this call: each size option stores its own argument into the record, and the record starts from defaults that no earlier call can have written (the default options hold no pointer into shared storage). POST-1 (merge clause): the routing phase merges the fragments of long edges back on every path, whatever router is selected. Not decided: that break/merge are exact inverses on every chain (the count of edges).",
		Assumptions: []string{"clauses are necessary, not sufficient"},
	})
	registerProp(&Property{
		ID: "C03", Kind: "necessary structural clauses (band clause sufficient with AFF-5)",
		Tech:  "symbolic affine execution of the Y assignment, sibling-agreement on positioners, ownership table, reversal-guard dominance, running-extremum lint",
		Rules: []string{"AFF-5", "EFF-3", "OWN-1", "PAIR-2", "EFF-1", "EFF-2", "ITER-1", "ORD-5", "ACYC-1", "AGG-1", "AFF-8", "ORD-4", "BAL-1", "DISP-1", "BAL-2", "DELTA-1"},
		Explanation: "AFF-5 (all nodes of a layer get one Y; the next band starts layer.H + LayerSpacing lower) and EFF-3 (every positioner makes layer.H the max node height) give the band clause for every input. OWN-1: Layer only changes in phase 2, so bands are the layering; PAIR-2 + EFF-1 + OWN-1: ArrowHeadStart == IsReversed, toggled only by Reverse; " +
			"EFF-2 + ITER-1 the un-reverse pass visits every edge of g.Edges and flips exactly the flagged ones (a pass that iterates a list Reverse removes from skips edges: flagged but still downward); ORD-5 acyclic inputs are never reversed; AGG-1/AFF-8 longest-path layers are computed from the final maximum; ORD-4 layers stay >= 0; BAL-1 the vertical balancer moves a node only inside the window [max over in-edges of From.Layer + Delta, min over out-edges of To.Layer - Delta], computed from the current layers inside the moving loop (so no edge becomes flat or upward). DISP-1's exclusivity clause and EFF-3's every-path clause: the band heights are recorded on every path of every positioner (seeded change C03g returned from a single-column fast path before the loop that records them). BAL-2 (contradiction rule on the horizontal balancer): where the balancer chooses between shifting the subtree at one end of a tree edge and the subtree at its other end, the two alternatives carry opposite signs (seeded changes C13d/C04d passed the same signed amount for both ends). DELTA-1: the layering solver offsets a neighbour's layer by the edge's Delta, never by a constant (the network-simplex positioner runs the same solver with Delta = half widths + spacing; seeded change C12g hard-wired 1 in the initial ranking). Not decided: feasibility (span >= 1) of network simplex through tree construction and pivots, and of the horizontal balancer used by the NetworkSimplex positioner.",
		Assumptions: []string{"floating-point sums are exact for the band clause up to rounding"},
	})
	registerProp(&Property{
		ID: "C04", Kind: "necessary structural clauses (VAlign/PackRight sufficient)",
		Tech:  "symbolic affine execution (recurrences of VAlign/PackRight, separation dominance of the NS positioner, Y assignment, component shift), ownership table",
		Rules: []string{"AFF-4", "AFF-7", "FLOW-1", "AFF-5", "EFF-3", "OWN-1", "ORD-4", "PROG-1", "WIDTH-1", "OPTS-1", "BAL-2", "DELTA-1"},
		Explanation: "AFF-4: VAlign and PackRight place neighbours exactly W + NodeSpacing apart, so no overlap and >= spacing for all widths >= 0; AFF-7: the NetworkSimplex positioner's separation constraint dominates W_left + spacing; FLOW-1 (with AFF-6): the next component starts at the rightmost edge + spacing; " +
			"AFF-5/EFF-3: vertical disjointness of bands; OWN-1: X/Y only from phase 4; ORD-4: X = auxiliary layer >= 0; PROG-1: SinkColoring's overlap removal repeats only under a strict overlap test, moves the node to at least the compared bound, and compares with exactly the position it enforces (left neighbour + block width + spacing), so the fix-point implies the separation; WIDTH-1: a block's width is the maximum of its members' widths, so every node fits the slot reserved for its block. BAL-2 (contradiction rule on the horizontal balancer): where the balancer chooses between shifting the subtree at one end of a tree edge and the subtree at its other end, the two alternatives carry opposite signs (seeded changes C13d/C04d passed the same signed amount for both ends). DELTA-1: the layering solver offsets a neighbour's layer by the edge's Delta, never by a constant (the network-simplex positioner runs the same solver with Delta = half widths + spacing; seeded change C12g hard-wired 1 in the initial ranking). Not decided: that SinkColoring's placeBlock fix-point is reached (an upper bound on the coordinates), finiteness, the integer rounding of the auxiliary graph, that the last node of a layer is the rightmost.",
		Assumptions: []string{"sizes and spacings are finite and non-negative (property hypothesis)"},
	})
	registerProp(&Property{
		ID: "C05", Kind: "necessary structural clauses",
		Tech:  "symbolic affine execution of the route anchors, SSA value-identity of the arrowhead flag, typed-AST output mapping, forward slice of the component shift",
		Rules: []string{"AFF-1", "AFF-9", "PAIR-2", "PAIR-3", "PAIR-4", "FLOW-1", "DISP-1", "OPTS-1", "ORD-6", "DIV-1"},
		Explanation: "AFF-1: the first point of every non-flat route is (n.X + W/2, n.Y + H) of ns[0] and the last is (n.X + W/2, n.Y) of ns[len-1] for Straight, Polyline, Ortho and the 2-point spline; PAIR-2: flag = reversed, so after UnreverseEdges the flagged end is ToID; PAIR-3 output mapping; PAIR-4 route ends are real nodes; " +
			"FLOW-1/AFF-6: points are shifted in x exactly like their nodes (the shift lands in the point stored in the output, not in a copy); AFF-9 end-control clause: every spline piece, MakeSpline's included, starts and ends at exactly the points it was given. That the algorithm the caller selected is the one that runs: OPTS-1 (no other option stores an algorithm on the side) and ORD-6 (after the option loop nothing overwrites the options record - seeded change C14f let Layout replace the selected cycle breaker when another option was present). DIV-1 (a clause of 'all route points are finite'): in the geometry and routing packages every division by a value computed from coordinates is guarded by a branch that inspects the divisor, one reviewed exception aside (seeded change C05h dropped the zero-length guard of the normalisation; the spline router passes zero end tangents on purpose). Not decided: that ns[0] is the upper node on every input (depends on layering), fitted splines, finiteness.",
		Assumptions: []string{"layering is feasible (C03, undecided part)"},
	})
	registerProp(&Property{
		ID: "C06", Core: []string{"AFF-2", "AFF-3"}, Kind: "necessary structural clauses",
		Tech:  "symbolic affine execution of the routers (point-sequence shapes, orthogonality as shared coordinate expressions), SSA value-identity for spline joining",
		Rules: []string{"AFF-2", "AFF-3", "AFF-9", "OWN-1", "PAIR-3", "FLOW-1", "DISP-1", "OPTS-1", "ORD-6", "ITER-1"},
		Explanation: "PAIR-3 + FLOW-1: the caller receives the router's point list itself - a plain copy (slices.Clone or a package helper that receives e.Points) whose only change is the component shift added to x; nothing is filtered, compacted or re-ordered on the way out (spline routes rely on repeated points at the joints). AFF-2: Straight yields exactly 2 points; Polyline yields [start, one point per inner route node at (n.X + W/2, n.Y + layerH/2), end]; Splines append 4-point pieces; AFF-3: within one orthogonal elbow consecutive points share an identical x or y expression and consecutive elbows share x; " +
			"AFF-9: spline pieces join (shared split point and tangent, p0/p3 from the path ends, pieces emitted reversed while iterating backward); OWN-1: helper nodes keep zero size, so the bend x is the helper node's x in the output, and nothing but a router writes Points; DISP-1: the router that runs is the selected one for every graph with more than one node. That the algorithm the caller selected is the one that runs: OPTS-1 (no other option stores an algorithm on the side) and ORD-6 (after the option loop nothing overwrites the options record - seeded change C14f let Layout replace the selected cycle breaker when another option was present). ITER-1 (work-list clause): the loop that breaks long edges re-reads the edge list, so every remainder is split again and a long edge gets one helper node - hence one bend - per band it crosses (seeded change C06g iterated a snapshot). Not decided: 'never upward' and 'no bend inside a node rectangle' (need C03/C04 numerically).",
		Assumptions: []string{"flat (same-layer) edges are outside the decided shapes"},
	})
	registerProp(&Property{
		ID: "C07", Kind: "sufficient static argument",
		Tech:  "typed-AST classifier of map ranges + call-graph inventory of nondeterminism sources + shared-state inventory",
		Rules: []string{"LANG-0", "DET-1", "DET-2", "DET-3", "GLOB-1", "RO-1", "OPTS-1"},
		Explanation: "With LANG-0 (no goroutines, select, unsafe, reflect) run-to-run variation of a Go program can only come from map iteration order, pointer values observed other than by ==, and clock/random/environment calls. " +
			"DET-2 closes the last two: the direct library callees of reachable module code are on a reviewed allow-list, time.Now only seeds a per-call RNG whose every draw is guarded by the documented non-deterministic option, and pointer values cannot be ordered or hashed without unsafe. " +
			"DET-1 classifies every range over a map in reachable code as a set of commutative updates; DET-3 shows the component split keeps input order; GLOB-1 shows no state survives a call in a package-level variable and OPTS-1 that none survives in a variable or map captured by an option closure; RO-1 shows the caller's edge slice and size map are only read. " +
			"Not decided: floating-point results are assumed reproducible for identical operation sequences (true for Go on one platform); library internals are trusted by table.",
		Assumptions: []string{"stdlib functions on the allow-list are deterministic functions of their arguments", "float max/min reductions are order-insensitive (no NaN inputs)", "VTA call graph over-approximates dynamic calls (no reflect/unsafe: LANG-0)"},
	})
	registerProp(&Property{
		ID: "C08", Kind: "sufficient static argument (parametricity)",
		Tech:  "inter-procedural, field-based taint analysis over SSA (node identifiers as sources, everything but copying as sink)",
		Rules: []string{"LANG-0", "ID-1", "ORD-3", "DET-2"},
		Explanation: "If, after Populate's de-duplication map (which only tests equality of input strings and is never ranged), an ID value is only copied - into another ID field, into a log string, or used to index the caller's own size map - then no control decision, key or order depends on it, and the layout is equivariant under every injective renaming, helper-looking names included. " +
			"ID-1 taints every load of an ID field and every string read from the edge slice, propagates through phi, concatenation, boxing, calls/returns, closures, cells and fields, and reports any use other than the enumerated copies. ORD-3 closes the one gap of that argument: the look-up in the caller's size map is keyed by Node.ID, which later also holds names minted by the library (\"V1\", \"NE0\"); the size functions must therefore run in Layout before the component split and the pipeline, while every node still carries a caller-given name. DET-2 closes the reflective channel: fmt formats a Layer or Node through its String method, which prints IDs, without any load of an ID field appearing at the call site; the inventory allows fmt only inside String/SVG methods, so a fingerprint such as fmt.Sprint(layers) used as a map key in the ordering loop is reported. Not decided: nothing beyond the trusted base.",
		Assumptions: []string{"helper IDs built by the pipeline (\"V<n>\", \"NE<i>\") are themselves only copied (checked: they are stored into Node.ID and flow like any other ID)"},
	})
	registerProp(&Property{
		ID: "C09", Kind: "necessary clauses (independence sufficient given the C07 argument)",
		Tech:  "map-range classifier, order-preserving-split recogniser, shared-state inventory, forward slice and recurrence of the component shift",
		Rules: []string{"LANG-0", "DET-1", "DET-3", "GLOB-1", "FLOW-1", "ORD-2", "SPLIT-1"},
		Explanation: "Independence follows from: the pipeline is a deterministic function of (g, params) (C07 rules), nothing survives from one component to the next (GLOB-1; params by value; algorithm values are stateless), the component handed to the pipeline has the same node/edge/adjacency order as it has as the sole input (DET-3) and lacks none of its edges (SPLIT-1: self-loops, chords and parallel copies are recorded like any other edge), " +
			"and the only cross-component quantity, shift, reaches nothing but output x (FLOW-1) by the recurrence shift' = shift + rightmost + NodeSpacing (AFF-6, part of FLOW-1). ORD-2: every component goes through the same pre-processing, pipeline and post-processing. " +
			"Not decided: the numeric disjointness needs 'last node of a layer is rightmost' and X >= 0 from each positioner (decided only for VAlign/PackRight by AFF-4).",
		Assumptions: []string{"positioners place the last node of a layer rightmost and at x >= 0 (decided only for VAlign/PackRight)"},
	})
	registerProp(&Property{
		ID: "C10", Kind: "necessary structural clauses",
		Tech:  "SSA dominance lint on cut values, normaliser-order rule, loop-cap recogniser, balancing-window recogniser, ownership table",
		Rules: []string{"RECOMP-1", "OPT-1", "TIGHT-1", "ORD-4", "CAP-1", "BAL-1", "OWN-1", "DISP-1", "OPTS-1", "ORD-6", "BAL-2", "DELTA-1"},
		Explanation: "RECOMP-1: cut values are a function of the current tree only (no read of a stale value); TIGHT-1: an edge enters the spanning tree only under slack == 0 or after the layers were shifted by its slack (the basis stays feasible); OPT-1: the pivot loop can stop (budget aside) only when a complete scan of the edge list finds no tree edge with negative cut value - the optimality criterion - and the enter edge is a strict minimum-slack candidate of a complete scan; ORD-4: the top band is 0 after balancing; CAP-1: the pivot loop honours the documented budget; OWN-1: Layer is not touched after phase 2; " +
			"BAL-1: balancing moves only nodes whose move leaves total length unchanged (in-degree = out-degree) and only inside their feasible window. That the algorithm the caller selected is the one that runs: OPTS-1 (no other option stores an algorithm on the side) and ORD-6 (after the option loop nothing overwrites the options record - seeded change C14f let Layout replace the selected cycle breaker when another option was present). BAL-2 (contradiction rule on the horizontal balancer): where the balancer chooses between shifting the subtree at one end of a tree edge and the subtree at its other end, the two alternatives carry opposite signs (seeded changes C13d/C04d passed the same signed amount for both ends). DELTA-1: the layering solver offsets a neighbour's layer by the edge's Delta, never by a constant (the network-simplex positioner runs the same solver with Delta = half widths + spacing; seeded change C12g hard-wired 1 in the initial ranking). Not decided: optimality and feasibility of the pivot sequence; contiguity of bands.",
		Assumptions: []string{"clauses are necessary, not sufficient"},
	})
	registerProp(&Property{
		ID: "C11", Kind: "sufficient modulo termination of the traversal",
		Tech:  "symbolic recurrence extraction (height = max(1, child + Delta), Layer = final max - height) + running-extremum lint + recursion table",
		Rules: []string{"AFF-8", "AGG-1", "REC-1", "DISP-1", "OPTS-1", "ORD-6"},
		Explanation: "AFF-8: the height accumulator starts at the constant 1 and is updated as max(acc, child + Edge.Delta) over out-edges, and Node.Layer is stored as L - height with L the final value of the max-reduction over all heights (read after the traversal loop); AGG-1: no value derived from the still-growing maximum is stored during the traversal. " +
			"AFF-8 also decides that a traversal is started from every node of the graph (a full, never-left-early loop over the node list or a same-length copy) and that only self-loops are left out of the maximum. Together these are the specification of longest-path layering; what remains is termination of the memoised traversal (REC-1 table entry: acyclicity after phase 1); nothing in the layerer's caller modifies Node.Layer after it has returned. DISP-1 and OPTS-1: the layerer that runs is the selected one (dispatch depends on the algorithm constant only; no other option stores a layering algorithm on the side). ORD-6: after the option loop nothing overwrites the selected layering algorithm. Not decided: that the drawn bands are these layers (C03's band clause) and the orientation it layers (C14's rules).",
		Assumptions: []string{"the graph is acyclic after phase 1"},
	})
	registerProp(&Property{
		ID: "C12", Kind: "necessary structural clauses",
		Tech:  "ownership table, phi-pairing analysis of best-so-far, shift-bound lint, affine recurrences of the simple positioners",
		Rules: []string{"OWN-1", "BEST-1", "SHIFT-1", "AFF-4", "FLOW-1", "DELTA-1"},
		Explanation: "Decides the 'carried unchanged' half: OWN-1 order state (LayerPos, order of Layer.Nodes) changes only in phase 3; BEST-1 the logged number belongs to the restored order; SHIFT-1 the layer filter is exact beyond 64 layers; AFF-4 for VAlign/PackRight x strictly follows order; FLOW-1 recurrence: the next component starts right of every node of the previous ones, helper nodes included, so components cannot cross each other. " +
			"DELTA-1: the layering solver offsets a neighbour's layer by the edge's Delta, never by a constant (the network-simplex positioner runs the same solver with Delta = half widths + spacing; seeded change C12g hard-wired 1 in the initial ranking). Not decided: exactness of the accumulator tree and radix sort; order preservation by SinkColoring/NetworkSimplex compaction.",
		Assumptions: []string{"clauses are necessary, not sufficient"},
	})
	registerProp(&Property{
		ID: "C13", Kind: "necessary structural clauses (thin by design)",
		Tech:  "phi-pairing analysis of the two seeded runs + ownership table",
		Rules: []string{"BEST-1", "OWN-1", "ITER-1", "BAL-2"},
		Explanation: "BEST-1 (the better of the two seeded runs wins, each run keeps the best order it ever saw - necessary, because for an out-tree only the top-seeded run starts at zero crossings), OWN-1 for order state, and ITER-1's work-list clause: the loop that splits long edges visits the remainders it appends, so after it every edge joins adjacent layers (crossing counting and the sweeps only see such edges; an unsplit remainder is drawn straight through the sub-trees it skips). " +
			"BAL-2 (contradiction rule on the horizontal balancer): where the balancer chooses between shifting the subtree at one end of a tree edge and the subtree at its other end, the two alternatives carry opposite signs (seeded changes C13d/C04d passed the same signed amount for both ends). Not decided: planarity of the depth-first seed order and single-layer spans of tree edges - graph-theoretic, not visible in code shape.",
		Assumptions: []string{"thin: decides a necessary clause only"},
	})
	registerProp(&Property{
		ID: "C14", Kind: "necessary structural clauses",
		Tech:  "CFG pairing of the DFS stack set, effect-summary iterator lint, inter-procedural dominance of the acyclicity test, Reverse contract",
		Rules: []string{"PAIR-1", "ITER-1", "ORD-5", "EFF-1", "DISP-1", "OPTS-1", "ORD-6"},
		Explanation: "PAIR-1: only edges into the current DFS stack are collected (the stack set is marked before recursing and cleared before every return), and exactly the collected list is reversed; ITER-1: no breaker reverses an edge of the list it is iterating; " +
			"DISP-1: when the depth-first breaker is selected it is the depth-first breaker that runs (no size- or shape-gated fallback to another algorithm); ORD-5: no reversal before the graph is known to be cyclic, except under an antiparallel witness; EFF-1: Reverse's contract. That the algorithm the caller selected is the one that runs: OPTS-1 (no other option stores an algorithm on the side) and ORD-6 (after the option loop nothing overwrites the options record - seeded change C14f let Layout replace the selected cycle breaker when another option was present). Not decided: minimality in the presence of the two-node pre-pass on multigraphs.",
		Assumptions: []string{"clauses are necessary, not sufficient"},
	})
	registerProp(&Property{
		ID: "C15", Kind: "sufficient static argument",
		Tech:  "shared-state inventory over SSA (every package-level variable, store, address-taking and mutation through a loaded reference) + language-feature inventory",
		Rules: []string{"LANG-0", "GLOB-1", "RO-1", "DET-2", "OPTS-1"},
		Explanation: "A data race needs a location reachable by two goroutines with one writer. Locations a Layout call can reach are its own allocations, its arguments (independent by hypothesis, and only read: RO-1), package-level variables and library internals. " +
			"GLOB-1 enumerates every package-level variable of the module and every store, address-taking and mutation through a loaded reference: stores exist only in package monitor under the m != nil guard, so with no monitor supplied m stays nil by induction and no store executes; defaultOptions is only loaded. " +
			"LANG-0 excludes goroutines, unsafe and reflection inside the library; DET-2's allow-list of directly called library functions contains only goroutine-safe or per-call state (rand.New per call). Option values are the one kind of argument concurrent calls legitimately share: OPTS-1 shows their closures write nothing they capture. 'Same result as alone' then follows from the C07 argument. " +
			"Not decided: nothing of the property is left to run time except the trusted base (go/types, go/ssa, the stdlib allow-list).",
		Assumptions: []string{"the Go memory model: no race without a shared written location", "stdlib functions on the DET-2 allow-list keep no cross-call mutable state", "callers pass independent sources (property hypothesis)"},
	})
	registerProp(&Property{
		ID: "C16", Core: []string{"AFF-4"}, Kind: "sufficient modulo rounding",
		Tech:  "symbolic affine execution: difference equations and reductions of the two positioners",
		Rules: []string{"AFF-4", "OWN-1", "OPTS-1", "DISP-1", "ORD-6"},
		Explanation: "OPTS-1: the spacing and size options reach the parameter record unchanged and unconditionally (NodeSpacing = 0 included). AFF-4, in the affine domain: VAlign - the forward loop over layer.Nodes stores X := c and updates c' - c = n.W + s; c0 = (M - E)/2 where E is the layer's own accumulated extent (sum of n.W plus s under the 'not last' test) and M is a max-reduction of E over all layers, so the extent is sum W + (k-1)s, every layer's midpoint is M/2 and the widest layer starts at 0. " +
			"PackRight - reverse iteration, c' - c = -(n.W + s), X := c', c0 = 0, so every layer's right end is -s; then X -= L with L the min-reduction of the final c, so the leftmost X is 0. OWN-1 guarantees nothing else writes X. ORD-6: the record holding the spacing is read only after all options were applied; DISP-1: the positioner that runs is the selected one. Not decided: floating-point rounding, which the identities ignore.",
		Assumptions: []string{"rounding of float sums is ignored"},
	})
	registerProp(&Property{
		ID: "C17", Core: []string{"DIM-1"}, Kind: "sufficient static argument",
		Tech:  "dimension (unit) inference by unification over the typed AST + read-confinement of lengths",
		Rules: []string{"LANG-0", "DIM-1", "OWN-2", "ORD-6", "OPTS-1"},
		Explanation: "IEEE +, -, *, /, min, max, abs, neg and comparisons commute exactly with multiplication by 2^k (no over/underflow). If every float in the in-scope code has a consistent degree (DIM-1), outputs have degree 1, every comparison is between equal degrees (or with 0/Inf), no length is converted to an integer or fed to a non-homogeneous function, " +
			"and phases 1-3 never read a length (OWN-2), then by induction every degree-1 value scales by the factor and every discrete decision is unchanged. Scope: functions reachable from Layout after cutting the NetworkSimplex positioner and spline routing (excluded by the property) and flatNonConsecutive (absolute offsets; runs only for same-layer edges, which a feasible layering never produces). ORD-6 and OPTS-1: the scaled sizes and spacings actually reach the pipeline (no length is taken from the defaults before the options are applied, no option replaces a value by a constant).",
		Assumptions: []string{"no overflow/underflow for the scale factors in range", "same-layer edges do not occur (feasible layering)"},
	})
	registerProp(&Property{
		ID: "C18", Kind: "sufficient static argument (passive monitor)",
		Tech:  "effect summaries + visibility + SSA ordering of Set / defer Reset",
		Rules: []string{"LANG-0", "MON-1", "ORD-1", "GLOB-1"},
		Explanation: "MON-1: the monitor globals are read only inside package monitor; the functions the pipeline calls there (Set, PrefixFor, Reset, Log) return nothing and modify only the monitor globals; under the m != nil guards only Monitor.Log and Phase()/String() of algorithm values run, and those modify nothing; the options.monitor field flows only into Set. Hence no value computed by the pipeline depends on the presence of a monitor. " +
			"ORD-1: Set is immediately followed by `defer Reset()` in Layout (so Reset runs on panic too), Set has no other call site, Reset clears all three globals under the m != nil guard only; GLOB-1 shows nothing else writes them. " +
			"Not decided: what a user-supplied monitor does with the pointers it is handed (Log(\"route-node\", n) passes live nodes) - the argument is for a monitor that only observes.",
		Assumptions: []string{"the supplied monitor does not mutate the values it receives", "no goroutines (LANG-0)"},
	})
	registerProp(&Property{
		ID: "C20", Core: []string{"AFF-9"}, Kind: "necessary structural clauses (joining, provenance of pieces)",
		Tech:  "SSA value-identity on the recursive spline fitter and the emitting loop",
		Rules: []string{"AFF-9", "CONT-1", "ROOT-1"},
		Explanation: "CONT-1 (provenance, a necessary clause of containment): the fitting attempt reports success only for the polygon it has just tested against the barriers (or the straight segment of a two-point path), and the recursive fitter returns only such polygons or concatenations of its own results. The joining clause: the two recursive FitSpline calls take path[:k+1] and path[k:] (shared split point) and pass the same tangent value as last/first tangent; a fitted piece's p0/p3 are path[0]/path[len-1]; execSplines emits each piece reversed while iterating the pieces backward. " +
			"ROOT-1 (one clause of the root finder the containment test rests on): the cubic solver shifts the roots of the depressed cubic back on every path that returns them. " +
			"Not decided: termination of the fitter, that the containment test itself is exact (barrier orientation, epsilons), and the rest of the root finder (its case analysis and formulas).",
		Assumptions: []string{"thin: decides the joining clause and the provenance of pieces only"},
	})
	registerProp(&Property{
		ID: "C19", Core: []string{"FUN-1"}, Kind: "necessary structural clauses (vertex provenance, orientation of the result, symmetry of the funnel, span tests, stable queue positions)",
		Tech:  "typed-AST provenance scan of the triangulation, SSA first/last-element resolution on the router's returns, mirror-image comparison of the funnel's sibling cases",
		Rules: []string{"TRI-1", "PATH-1", "FUN-1", "AXIS-1", "DEQ-1"},
		Explanation: "Five clauses of the corridor router that are visible in the shape of the code. TRI-1: the special-cased triangulation computes no coordinate - every triangle vertex is a copy of rectangle coordinates (X from an X, Y from a Y), floats are only copied, selected and compared - so the funnel can bend only at corridor vertices, which is where a Euclidean shortest path bends. " +
			"PATH-1: on every return the polyline lists the end point first and the start point last (the one-triangle shortcut by position, the accumulated path by its first append and the closing guard). " +
			"FUN-1 (sibling cross-check): the left-chain and right-chain cases of the funnel, and the two wedge tests they call, are mirror images (front <-> back, < <-> > on queue indices, clockwise <-> counter-clockwise), and each case touches only its own end of the queue. " +
			"FUN-1 also requires the funnel to be opened by an orientation test whose two branches exchange the end points of the first diagonal. AXIS-1: the point-on-side test of the triangle location treats X and Y alike (a span test on one axis has its counterpart on the other). DEQ-1: the double-ended queue never moves its items (storage assigned at construction only, positions step by one), because the funnel keeps a raw queue position as its apex. " +
			"Not decided: that the triangulation covers the corridor for every offset pattern (merge/split vertices on either chain), that the dual graph is connected and the diagonal list complete, the bounds of the queue, the treatment of collinear points when both cases make the same choice, optimality and containment themselves - these are facts about run-time values.",
		Assumptions: []string{"thin: decides vertex provenance, result orientation and chain symmetry only; optimality and containment of the path are not decided"},
	})
}
