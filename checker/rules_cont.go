package main

// CONT-1: every cubic piece handed out by the spline fitter passed the containment test (necessary clause of C20).

import (
	"fmt"
	"go/token"
	"go/types"
	"strings"

	"golang.org/x/tools/go/ssa"
)

func init() {
	register(&Rule{
		ID: "CONT-1",
		Doc: "provenance of fitted pieces: (1) the fitting attempt - the geom function returning (control polygon, bool) that calls the containment test - reports success only for the very control polygon it has just tested against the barriers " +
			"(the success return is control-dependent on containment(V, barriers) being true for the returned V), or for the degenerate straight segment of a two-point path; " +
			"(2) the recursive fitter returns only lists made of a successful attempt's polygon (guarded by the attempt's ok) or concatenations of its own recursive results - a polygon built any other way never met the corridor",
		Floor: 4,
		Ctl:   []string{"internal__geom__cont1.go.txt"},
		Run:   runCont1,
	})
}

func runCont1(m *Model, r *RuleResult) {
	isNamed := func(t types.Type, name string) bool { return namedKey(t) == "internal/geom."+name }
	// containment test: (ctrlp, []Segment) bool
	var contains []*ssa.Function
	for _, f := range m.Src {
		if shortPkg(pkgPathOf(f)) != "internal/geom" || f.Parent() != nil {
			continue
		}
		sg := f.Signature
		if sg.Params().Len() == 2 && sg.Results().Len() == 1 && isNamed(sg.Params().At(0).Type(), "ctrlp") {
			if b, ok := sg.Results().At(0).Type().Underlying().(*types.Basic); ok && b.Kind() == types.Bool {
				if sl, ok := sg.Params().At(1).Type().Underlying().(*types.Slice); ok && isNamed(sl.Elem(), "Segment") {
					contains = append(contains, f)
				}
			}
		}
	}
	isContain := func(f *ssa.Function) bool {
		for _, c := range contains {
			if c == f {
				return true
			}
		}
		return false
	}
	if len(contains) == 0 {
		r.undecided("containment-test", "-", "a geom function (control polygon, barriers) -> bool", "not found")
		return
	}
	// fitting attempts: (ctrlp, bool)-returning functions that call a containment test
	var attempts []*ssa.Function
	for _, f := range m.Src {
		if shortPkg(pkgPathOf(f)) != "internal/geom" || f.Parent() != nil || f.Signature.Results().Len() != 2 {
			continue
		}
		if !isNamed(f.Signature.Results().At(0).Type(), "ctrlp") {
			continue
		}
		if len(staticCalls(f, isContain)) > 0 {
			attempts = append(attempts, f)
		}
	}
	isAttempt := func(f *ssa.Function) bool {
		for _, c := range attempts {
			if c == f {
				return true
			}
		}
		return false
	}
	for _, t := range attempts {
		ctl := m.FuncIsPosctl(t)
		loops := naturalLoops(t)
		var bad []string
		nSucc := 0
		eachInstr(t, func(in ssa.Instruction) {
			ret, ok := in.(*ssa.Return)
			if !ok || len(ret.Results) != 2 {
				return
			}
			if c, isC := ret.Results[1].(*ssa.Const); isC {
				if isConstBool(c, false) {
					return
				}
			} else {
				bad = append(bad, "success flag at "+m.Pos(ret.Pos())+" is not a constant")
				return
			}
			nSucc++
			v := ret.Results[0]
			tested, degenerate := false, false
			// (the direct dependences too: in a `for { ... }` loop the head block itself ends with the containment test)
			for _, d := range append(iterationControlDeps(ret.Block(), loops), controlDeps(ret.Block())...) {
				if call, ok := d.If.Cond.(*ssa.Call); ok && d.Branch == 0 {
					if c := call.Call.StaticCallee(); c != nil && isContain(c) && len(call.Call.Args) > 0 && call.Call.Args[0] == v {
						tested = true
					}
				}
				if bo, ok := d.If.Cond.(*ssa.BinOp); ok && bo.Op == token.EQL && d.Branch == 0 {
					if k, isC := constInt(bo.Y); isC && k == 2 && isLenOfPointParam(bo.X, t, 0) {
						degenerate = true
					}
				}
			}
			if !tested && !degenerate {
				bad = append(bad, "success is reported at "+m.Pos(ret.Pos())+" for a control polygon that was not the argument of a passed containment test")
			}
		})
		key := "attempt-success-implies-contained:" + funcKey(t)
		if len(bad) == 0 && nSucc > 0 {
			r.add(Obligation{Key: key, Pos: m.Pos(t.Pos()), Desc: fmt.Sprintf("all %d success returns hand out the polygon that has just passed the containment test (or the straight segment of a two-point path)", nSucc), Verdict: "holds", Control: ctl})
		} else {
			if nSucc == 0 {
				bad = append(bad, "no success return found")
			}
			r.add(Obligation{Key: key, Pos: m.Pos(t.Pos()), Desc: "a fitting attempt may report success only for a polygon that passed the containment test", Verdict: "violation",
				Detail: strings.Join(bad, "; ") + ": a curve that leaves the corridor would be accepted", Control: ctl})
		}
	}
	// recursive fitters: functions returning []ctrlp that call themselves
	nFit := 0
	for _, f := range m.Src {
		if shortPkg(pkgPathOf(f)) != "internal/geom" || f.Parent() != nil || f.Signature.Results().Len() != 1 {
			continue
		}
		sl, ok := f.Signature.Results().At(0).Type().Underlying().(*types.Slice)
		if !ok || !isNamed(sl.Elem(), "ctrlp") {
			continue
		}
		if len(staticCalls(f, func(c *ssa.Function) bool { return c == f })) == 0 {
			continue
		}
		nFit++
		ctl := m.FuncIsPosctl(f)
		var bad []string
		var okList func(v ssa.Value, ret *ssa.Return, depth int) bool
		okList = func(v ssa.Value, ret *ssa.Return, depth int) bool {
			if depth > 6 {
				return false
			}
			switch x := v.(type) {
			case *ssa.Phi:
				for _, e := range x.Edges {
					if !okList(e, ret, depth+1) {
						return false
					}
				}
				return true
			case *ssa.Call:
				if b, ok := x.Call.Value.(*ssa.Builtin); ok && b.Name() == "append" {
					for _, a := range x.Call.Args {
						if !okList(a, ret, depth+1) {
							return false
						}
					}
					return true
				}
				return x.Call.StaticCallee() == f
			case *ssa.Const:
				return x.Value == nil // nil list
			case *ssa.Slice:
				al, ok := x.X.(*ssa.Alloc)
				if !ok || al.Referrers() == nil {
					return false
				}
				n := 0
				for _, ref := range *al.Referrers() {
					ia, ok := ref.(*ssa.IndexAddr)
					if !ok {
						continue
					}
					for _, r2 := range *ia.Referrers() {
						st, ok := r2.(*ssa.Store)
						if !ok || st.Addr != ssa.Value(ia) {
							continue
						}
						n++
						sv := st.Val
						// a local variable holding the polygon: the whole-value store that reaches this load
						if ld, ok := sv.(*ssa.UnOp); ok && ld.Op == token.MUL {
							if cell, ok := ld.X.(*ssa.Alloc); ok {
								if rs := reachingWholeStore(cell, ld); rs != nil {
									sv = rs.Val
								}
							}
						}
						ex, ok := sv.(*ssa.Extract)
						if !ok || ex.Index != 0 {
							return false
						}
						call, ok := ex.Tuple.(*ssa.Call)
						if !ok || call.Call.StaticCallee() == nil || !isAttempt(call.Call.StaticCallee()) {
							return false
						}
						guarded := false
						for _, d := range transitiveControlDeps(ret.Block()) {
							if e2, ok := d.If.Cond.(*ssa.Extract); ok && e2.Tuple == ex.Tuple && e2.Index == 1 && d.Branch == 0 {
								guarded = true
							}
						}
						if !guarded {
							return false
						}
					}
				}
				return n > 0
			}
			return false
		}
		eachInstr(f, func(in ssa.Instruction) {
			ret, ok := in.(*ssa.Return)
			if !ok || len(ret.Results) != 1 {
				return
			}
			if !okList(ret.Results[0], ret, 0) {
				bad = append(bad, "the list returned at "+m.Pos(ret.Pos())+" contains a control polygon that is neither a successful attempt's result nor a recursive result")
			}
		})
		key := "fitter-returns-tested-pieces:" + funcKey(f)
		if len(bad) == 0 {
			r.add(Obligation{Key: key, Pos: m.Pos(f.Pos()), Desc: "every returned list is a successful attempt's polygon (under its ok) or a concatenation of recursive results", Verdict: "holds", Control: ctl})
		} else {
			r.add(Obligation{Key: key, Pos: m.Pos(f.Pos()), Desc: "the fitter may only return polygons that passed the containment test", Verdict: "violation",
				Detail: strings.Join(bad, "; ") + ": such a piece never met the corridor's barriers", Control: ctl})
		}
	}
	if nFit == 0 {
		r.undecided("fitter", "-", "a recursive geom function returning the list of control polygons", "not found")
	}
	// the barriers form a closed ring: the function that turns a polygon's vertex list into segments emits the closing
	// segment (last vertex -> first vertex), or pairs vertex i with vertex (i+1) mod n
	nRing := 0
	for _, f := range m.Src {
		if shortPkg(pkgPathOf(f)) != "internal/geom" || f.Parent() != nil || f.Signature.Results().Len() != 1 || len(f.Params) != 1 {
			continue
		}
		sl, ok := f.Signature.Results().At(0).Type().Underlying().(*types.Slice)
		if !ok || !isNamed(sl.Elem(), "Segment") || !isNamed(f.Params[0].Type(), "Polygon") {
			continue
		}
		nRing++
		ctl := m.FuncIsPosctl(f)
		// index expressions of the two ends of every constructed segment
		isLenMinus1 := func(v ssa.Value) bool {
			bo, ok := v.(*ssa.BinOp)
			if !ok || bo.Op != token.SUB {
				return false
			}
			k, isK := constInt(bo.Y)
			call, isCall := bo.X.(*ssa.Call)
			if !isK || k != 1 || !isCall {
				return false
			}
			b, isB := call.Call.Value.(*ssa.Builtin)
			return isB && b.Name() == "len"
		}
		isMod := func(v ssa.Value) bool {
			bo, ok := v.(*ssa.BinOp)
			return ok && bo.Op == token.REM
		}
		idxOf := func(v ssa.Value) ssa.Value {
			u, ok := v.(*ssa.UnOp)
			if !ok || u.Op != token.MUL {
				return nil
			}
			ia, ok := u.X.(*ssa.IndexAddr)
			if !ok {
				return nil
			}
			return ia.Index
		}
		closed := false
		ends := map[ssa.Value][2]ssa.Value{}
		eachInstr(f, func(in ssa.Instruction) {
			st, ok := in.(*ssa.Store)
			if !ok {
				return
			}
			fa, ok := st.Addr.(*ssa.FieldAddr)
			if !ok {
				return
			}
			base, steps := fieldChain(fa)
			loc := locOfSteps(steps)
			if !strings.HasPrefix(loc, "internal/geom.Segment.") {
				return
			}
			e := ends[base]
			if fa.Field == 0 {
				e[0] = idxOf(st.Val)
			} else {
				e[1] = idxOf(st.Val)
			}
			ends[base] = e
		})
		for _, e := range ends {
			if e[0] == nil || e[1] == nil {
				continue
			}
			k0, c0 := constInt(e[0])
			k1, c1 := constInt(e[1])
			if (isLenMinus1(e[0]) && c1 && k1 == 0) || (isLenMinus1(e[1]) && c0 && k0 == 0) || isMod(e[0]) || isMod(e[1]) {
				closed = true
			}
		}
		key := "barriers-closed-ring:" + funcKey(f)
		if closed {
			r.add(Obligation{Key: key, Pos: m.Pos(f.Pos()), Desc: "the polygon's sides include the closing segment from the last vertex back to the first", Verdict: "holds", Control: ctl})
		} else {
			r.add(Obligation{Key: key, Pos: m.Pos(f.Pos()), Desc: "the sides of the corridor polygon must form a closed ring", Verdict: "violation",
				Detail: "no segment joins the last vertex to the first (and no (i+1) mod n pairing): one wall of the corridor is missing, so the containment test accepts curves that leave through it", Control: ctl})
		}
	}
	if nRing == 0 {
		r.undecided("barriers-closed-ring", "-", "the geom function that turns a Polygon into []Segment", "not found")
	}
	// the path is the routed path (added after seeded change C20h): the two-point shortcut accepts the straight segment between two
	// CONSECUTIVE points of the corridor's shortest path without a containment test, because that segment lies inside the corridor.
	// That only holds while the fitter works on the path it was given: every path handed to an attempt or to a recursive call is the
	// fitter's own path parameter or a slice expression of it - never a filtered or rebuilt list
	for _, f := range m.Src {
		if shortPkg(pkgPathOf(f)) != "internal/geom" || f.Parent() != nil || len(f.Blocks) == 0 {
			continue
		}
		isRec := len(staticCalls(f, func(c *ssa.Function) bool { return c == f })) > 0
		callsAttempt := len(staticCalls(f, func(c *ssa.Function) bool { return isAttempt(c) })) > 0
		if !isRec || !callsAttempt {
			continue
		}
		var pathParam *ssa.Parameter
		for _, p := range f.Params {
			if sl, ok := p.Type().Underlying().(*types.Slice); ok && isNamed(sl.Elem(), "P") {
				pathParam = p
				break
			}
		}
		if pathParam == nil {
			continue
		}
		var fromParam func(v ssa.Value, depth int) bool
		fromParam = func(v ssa.Value, depth int) bool {
			if depth > 6 {
				return false
			}
			switch x := v.(type) {
			case *ssa.Parameter:
				return x == pathParam
			case *ssa.Slice:
				return fromParam(x.X, depth+1)
			case *ssa.Phi:
				for _, e := range x.Edges {
					if !fromParam(e, depth+1) {
						return false
					}
				}
				return len(x.Edges) > 0
			}
			return false
		}
		var bad []string
		nsites := 0
		eachInstr(f, func(in ssa.Instruction) {
			ci, ok := in.(ssa.CallInstruction)
			if !ok {
				return
			}
			c := ci.Common().StaticCallee()
			if c == nil || !(c == f || isAttempt(c)) {
				return
			}
			for i, p := range c.Params {
				if sl, ok := p.Type().Underlying().(*types.Slice); ok && isNamed(sl.Elem(), "P") && i < len(ci.Common().Args) {
					nsites++
					if !fromParam(ci.Common().Args[i], 0) {
						bad = append(bad, fmt.Sprintf("the path handed to %s at %s is %s", c.Name(), m.Pos(in.Pos()), ci.Common().Args[i].String()))
					}
				}
			}
		})
		key := "path-unchanged:" + funcKey(f)
		ctl := m.FuncIsPosctl(f)
		if len(bad) == 0 {
			r.add(Obligation{Key: key, Pos: m.Pos(f.Pos()), Desc: fmt.Sprintf("%d path argument(s) of attempts and recursive calls are the fitter's own path or slices of it", nsites), Verdict: "holds", Control: ctl})
		} else {
			r.add(Obligation{Key: key, Pos: m.Pos(f.Pos()), Desc: "the fitter works on the routed path itself", Verdict: "violation",
				Detail: strings.Join(uniq(bad), "; ") + ", not the fitter's path parameter or a slice of it: two points of a rebuilt path need not be consecutive points of the corridor's shortest path, and the two-point shortcut accepts the straight segment between them without a containment test", Control: ctl})
		}
	}
	r.add(Obligation{Key: "containment-test", Pos: m.Pos(contains[0].Pos()), Desc: fmt.Sprintf("containment test resolved by signature: %s; %d fitting attempt(s), %d recursive fitter(s)", funcKey(contains[0]), len(attempts), nFit), Verdict: "holds"})
}

// isLenOfPointParam: v is len(param i of f), possibly through a phi-free local copy.
func isLenOfPointParam(v ssa.Value, f *ssa.Function, depth int) bool {
	call, ok := v.(*ssa.Call)
	if !ok {
		return false
	}
	b, ok := call.Call.Value.(*ssa.Builtin)
	if !ok || b.Name() != "len" {
		return false
	}
	for _, p := range f.Params {
		if call.Call.Args[0] == ssa.Value(p) {
			if _, isSl := p.Type().Underlying().(*types.Slice); isSl {
				return true
			}
		}
	}
	return false
}

// reachingWholeStore: the store of a whole value into the local cell that dominates the load and is dominated by every
// other store to the cell that dominates the load (the latest one on every path); nil when stores on other paths could
// reach the load.
func reachingWholeStore(cell *ssa.Alloc, ld ssa.Instruction) *ssa.Store {
	var doms []*ssa.Store
	for _, ref := range *cell.Referrers() {
		st, ok := ref.(*ssa.Store)
		if !ok || st.Addr != ssa.Value(cell) {
			continue
		}
		if instrDominates(st, ld) {
			doms = append(doms, st)
			continue
		}
		// a store that does not dominate the load but can reach it makes the value ambiguous
		if st.Block() == ld.Block() {
			continue // later in the same block (it would dominate otherwise)
		}
		if blocksReachableFrom(st.Block())[ld.Block()] {
			return nil
		}
	}
	var best *ssa.Store
	for _, s := range doms {
		if best == nil || instrDominates(best, s) {
			best = s
		}
	}
	return best
}
