package main

import (
	"go/ast"
	"go/token"
	"go/types"
	"strconv"
	"strings"
)

// LANG-0: language-feature inventory, precondition of every other rule.
func init() {
	register(&Rule{
		ID:    "LANG-0",
		Doc:   "module non-test code contains no unsafe/reflect/cgo imports, no //go:linkname, no go statement, select or recover; channel operations occur only in package internal/monitor (one obligation per source file)",
		Floor: 70,
		Ctl:   []string{"internal__phase1__lang0.go.txt"},
		Run:   runLang0,
	})
}

func runLang0(m *Model, r *RuleResult) {
	for _, p := range m.Pkgs {
		sp := shortPkg(p.PkgPath)
		for _, f := range p.Syntax {
			file := m.File(f.Pos())
			ctl := m.IsPosctl(f.Pos())
			bad := 0
			report := func(n ast.Node, what string) {
				bad++
				fn := "file"
				if fd := m.EnclosingFuncDecl(p, n.Pos()); fd != nil {
					fn = astFuncKey(p, fd)
				}
				r.add(Obligation{Key: fn + ":" + what, Pos: m.Pos(n.Pos()), Desc: "forbidden language feature: " + what,
					Verdict: "violation", Detail: "every rule of this checker assumes sequential, reflection-free code; " + what + " invalidates the call graph or the sequential reasoning", Control: ctl})
			}
			for _, imp := range f.Imports {
				path, _ := strconv.Unquote(imp.Path.Value)
				switch path {
				case "unsafe", "reflect", "C", "plugin":
					report(imp, "import "+path)
				}
			}
			for _, cg := range f.Comments {
				for _, c := range cg.List {
					if strings.HasPrefix(c.Text, "//go:linkname") {
						report(c, "go:linkname")
					}
				}
			}
			chanOK := sp == "internal/monitor"
			ast.Inspect(f, func(n ast.Node) bool {
				switch x := n.(type) {
				case *ast.GoStmt:
					report(x, "go statement")
				case *ast.SelectStmt:
					report(x, "select")
				case *ast.CallExpr:
					if id, ok := x.Fun.(*ast.Ident); ok {
						if b, ok := p.TypesInfo.Uses[id].(*types.Builtin); ok {
							switch b.Name() {
							case "recover":
								report(x, "recover")
							case "close":
								if !chanOK {
									report(x, "channel close")
								}
							case "make":
								if _, ok := p.TypesInfo.TypeOf(x).Underlying().(*types.Chan); ok && !chanOK {
									report(x, "make(chan)")
								}
							}
						}
					}
				case *ast.SendStmt:
					if !chanOK {
						report(x, "channel send")
					}
				case *ast.UnaryExpr:
					if x.Op == token.ARROW && !chanOK {
						report(x, "channel receive")
					}
				case *ast.RangeStmt:
					if t := p.TypesInfo.TypeOf(x.X); t != nil {
						if _, ok := t.Underlying().(*types.Chan); ok && !chanOK {
							report(x, "range over channel")
						}
					}
				}
				return true
			})
			if bad == 0 {
				r.add(Obligation{Key: "file:" + file, Pos: file, Desc: "no forbidden language feature", Verdict: "holds", Control: ctl})
			}
			r.stat("files", 1)
		}
	}
}
