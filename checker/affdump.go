package main

import (
	"fmt"
	"sort"
	"strings"
)

func affDump(m *Model, shortpkg, recv, name string) {
	res := affRun(m, shortpkg, recv, name)
	if res == nil {
		fmt.Println("not found:", shortpkg, recv, name)
		return
	}
	fmt.Printf("===== %s.%s paths=%d loops=%d undec=%v\n", shortpkg, name, len(res.paths), len(res.loops), res.undec)
	dumpState := func(ind string, o *affState) {
		fmt.Printf("%scond=%v stopped=%q\n", ind, o.cond, o.stopped)
		if o.hasRet {
			fmt.Printf("%s  ret %s\n", ind, avalString(o.ret))
		}
		for _, e := range o.stores {
			fmt.Printf("%s  store %s := %s\n", ind, e.target, avalString(e.val))
		}
		var ks []string
		for k := range o.emits {
			ks = append(ks, k)
		}
		sort.Strings(ks)
		for _, k := range ks {
			var it []string
			for _, i := range o.emits[k] {
				if i.star != nil {
					it = append(it, fmt.Sprintf("STAR(L%d)", i.star.id))
				} else {
					it = append(it, avalString(i.val))
				}
			}
			fmt.Printf("%s  emit %s <- %s\n", ind, k, strings.Join(it, " , "))
		}
	}
	for i, o := range res.paths {
		fmt.Printf(" path %d ", i)
		dumpState("", o)
	}
	for _, l := range res.loops {
		par := -1
		if l.parent != nil {
			par = l.parent.id
		}
		fmt.Printf(" LOOP L%d (parent L%d) %s over %q backward=%v val=%s key=%s init=%q cond=%q post=%q @%s\n", l.id, par, l.kind, l.over, l.backward, l.valVar, l.keyVar, l.forInit, l.forCond, l.forPost, m.Pos(l.pos))
		var ns []string
		for n := range l.carried {
			ns = append(ns, n)
		}
		sort.Strings(ns)
		for _, n := range ns {
			c := l.carried[n]
			var ps []string
			for _, p := range c.posts {
				ps = append(ps, avalString(p))
			}
			fmt.Printf("   carried %s: init=%s posts=%v\n", n, avalString(c.init), ps)
		}
		for i, p := range l.paths {
			fmt.Printf("   body path %d ", i)
			dumpState("   ", p)
		}
	}
}
