package main

// PROG-1: progress of flag-guarded fix-point recursions (SinkColoring's placeBlock).

import (
	"fmt"
	"go/constant"
	"go/token"
	"go/types"
	"strings"

	"golang.org/x/tools/go/ssa"
)

func init() {
	register(&Rule{
		ID: "PROG-1",
		Doc: "fix-point recursions make progress: in a recursive function whose recursive call is guarded by a boolean flag, every place that sets the flag also updates a cell M[k] of the iterated map, under a STRICT guard old M[k] < E (or E > old M[k]), with a new value that is structurally E plus terms that are sizes or spacings (non-negative by the property's hypothesis) - " +
			"so every repetition strictly increases a coordinate; a non-strict guard lets the recursion repeat without changing anything (stack overflow). " +
			"Separation clause: the compared bound E is structurally the stored value itself (left neighbour + its block width + spacing), so that the fix-point - no guard fires - implies that neighbours are at least width + spacing apart",
		Floor: 2,
		Ctl:   []string{"internal__phase4__prog1.go.txt"},
		Run:   runProg1,
	})
}

func sameSSAExpr(a, b ssa.Value, depth int) bool {
	if a == b {
		return true
	}
	if depth > 8 {
		return false
	}
	switch x := a.(type) {
	case *ssa.BinOp:
		y, ok := b.(*ssa.BinOp)
		return ok && x.Op == y.Op && sameSSAExpr(x.X, y.X, depth+1) && sameSSAExpr(x.Y, y.Y, depth+1)
	case *ssa.Lookup:
		y, ok := b.(*ssa.Lookup)
		return ok && !x.CommaOk && !y.CommaOk && sameSSAExpr(x.X, y.X, depth+1) && sameSSAExpr(x.Index, y.Index, depth+1)
	case *ssa.UnOp:
		y, ok := b.(*ssa.UnOp)
		return ok && x.Op == y.Op && sameSSAExpr(x.X, y.X, depth+1)
	case *ssa.IndexAddr:
		y, ok := b.(*ssa.IndexAddr)
		return ok && sameSSAExpr(x.X, y.X, depth+1) && sameSSAExpr(x.Index, y.Index, depth+1)
	case *ssa.FieldAddr:
		y, ok := b.(*ssa.FieldAddr)
		return ok && x.Field == y.Field && sameSSAExpr(x.X, y.X, depth+1)
	case *ssa.Const:
		y, ok := b.(*ssa.Const)
		return ok && x.Value != nil && y.Value != nil && x.Value.ExactString() == y.Value.ExactString()
	case *ssa.Call:
		// pure builtins of the same arguments
		y, ok := b.(*ssa.Call)
		if !ok || len(x.Call.Args) != len(y.Call.Args) {
			return false
		}
		bx, ok1 := x.Call.Value.(*ssa.Builtin)
		by, ok2 := y.Call.Value.(*ssa.Builtin)
		if !ok1 || !ok2 || bx.Name() != by.Name() {
			return false
		}
		switch bx.Name() {
		case "len", "cap", "min", "max":
			for i := range x.Call.Args {
				if !sameSSAExpr(x.Call.Args[i], y.Call.Args[i], depth+1) {
					return false
				}
			}
			return true
		}
	}
	return false
}

// recursionInvariant: the value is computed from constants and from parameters that every recursive call passes on unchanged: it
// has the same value in every repetition, so a return under it skips the fix-point as a whole and cannot cut it short
func recursionInvariant(v ssa.Value, f *ssa.Function, recs []ssa.CallInstruction, depth int) bool {
	if depth > 6 {
		return false
	}
	switch x := v.(type) {
	case *ssa.Const:
		return true
	case *ssa.Parameter:
		i := paramIndex(f, x)
		if i < 0 {
			return false
		}
		for _, rc := range recs {
			args := rc.Common().Args
			if i >= len(args) || args[i] != ssa.Value(x) {
				return false
			}
		}
		return true
	case *ssa.BinOp:
		return recursionInvariant(x.X, f, recs, depth+1) && recursionInvariant(x.Y, f, recs, depth+1)
	case *ssa.UnOp:
		if x.Op == token.NOT || x.Op == token.SUB {
			return recursionInvariant(x.X, f, recs, depth+1)
		}
	case *ssa.Convert:
		return recursionInvariant(x.X, f, recs, depth+1)
	}
	return false
}

// definedOutside: the value is computed from constants and values defined outside the given loop body
func definedOutside(v ssa.Value, body map[*ssa.BasicBlock]bool, depth int) bool {
	if depth > 6 {
		return false
	}
	switch x := v.(type) {
	case *ssa.Const, *ssa.Parameter, *ssa.FreeVar:
		return true
	case *ssa.BinOp:
		if !body[x.Block()] {
			return true
		}
		return definedOutside(x.X, body, depth+1) && definedOutside(x.Y, body, depth+1)
	case *ssa.UnOp:
		if !body[x.Block()] {
			return true
		}
		if x.Op == token.NOT || x.Op == token.SUB {
			return definedOutside(x.X, body, depth+1)
		}
		return false
	}
	if in, ok := v.(ssa.Instruction); ok && !body[in.Block()] {
		return true
	}
	return false
}

// progCell: a coordinate cell of the fix-point, `m[k]` of a map or `s[i]` of a slice
type progCell struct{ X, Index ssa.Value }

func progCellRead(v ssa.Value) *progCell {
	switch x := v.(type) {
	case *ssa.Lookup:
		if !x.CommaOk {
			return &progCell{x.X, x.Index}
		}
	case *ssa.UnOp:
		if x.Op == token.MUL {
			if ia, ok := x.X.(*ssa.IndexAddr); ok {
				return &progCell{ia.X, ia.Index}
			}
		}
	}
	return nil
}

func progCellWrite(in ssa.Instruction) (*progCell, ssa.Value) {
	switch x := in.(type) {
	case *ssa.MapUpdate:
		return &progCell{x.Map, x.Key}, x.Value
	case *ssa.Store:
		if ia, ok := x.Addr.(*ssa.IndexAddr); ok {
			return &progCell{ia.X, ia.Index}, x.Val
		}
	}
	return nil, nil
}

func flattenSum(v ssa.Value, out *[]ssa.Value, depth int) {
	if bo, ok := v.(*ssa.BinOp); ok && bo.Op == token.ADD && depth < 6 {
		flattenSum(bo.X, out, depth+1)
		flattenSum(bo.Y, out, depth+1)
		return
	}
	*out = append(*out, v)
}

func runProg1(m *Model, r *RuleResult) {
	isBoolPhi := func(v ssa.Value) *ssa.Phi {
		if u, ok := v.(*ssa.UnOp); ok && u.Op == token.NOT {
			v = u.X
		}
		p, ok := v.(*ssa.Phi)
		if !ok {
			return nil
		}
		if b, ok := p.Type().Underlying().(*types.Basic); !ok || b.Kind() != types.Bool {
			return nil
		}
		return p
	}
	for _, f := range m.Src {
		// repetition guarded by a boolean flag (a phi over boolean constants): a recursive call taken when the flag is set,
		// or - the iterative spelling of the same fix-point - a loop that is left when the flag is clear
		type rep struct {
			flag *ssa.Phi
			body map[*ssa.BasicBlock]bool // nil: the whole function (recursion)
		}
		var reps []rep
		for _, s := range staticCalls(f, func(c *ssa.Function) bool { return c == f }) {
			for _, d := range controlDeps(s.Block()) {
				if p, ok := d.If.Cond.(*ssa.Phi); ok && d.Branch == 0 {
					if b, ok := p.Type().Underlying().(*types.Basic); ok && b.Kind() == types.Bool {
						reps = append(reps, rep{p, nil})
					}
				}
			}
		}
		if shortPkg(pkgPathOf(f)) == "internal/phase4" {
			for _, l := range naturalLoops(f) {
				for b := range l.Body {
					iff, ok := b.Instrs[len(b.Instrs)-1].(*ssa.If)
					if !ok || (l.Body[b.Succs[0]] && l.Body[b.Succs[1]]) {
						continue
					}
					if p := isBoolPhi(iff.Cond); p != nil && l.Body[p.Block()] {
						reps = append(reps, rep{p, l.Body})
					}
				}
			}
		}
		for _, rp := range reps {
			flag := rp.flag
			ctl := m.FuncIsPosctl(f)
			// blocks that set the flag to true
			var setters []*ssa.BasicBlock
			seen := map[*ssa.Phi]bool{}
			var walk func(p *ssa.Phi)
			walk = func(p *ssa.Phi) {
				if seen[p] {
					return
				}
				seen[p] = true
				for i, e := range p.Edges {
					switch x := e.(type) {
					case *ssa.Const:
						// (for the loop spelling: an initial `true` that enters the loop from outside is not a setter)
						if isConstBool(x, true) && (rp.body == nil || rp.body[p.Block().Preds[i]]) {
							setters = append(setters, p.Block().Preds[i])
						}
					case *ssa.Phi:
						walk(x)
					}
				}
			}
			walk(flag)
			if len(setters) == 0 {
				continue
			}
			n := 0
			done := map[*ssa.BasicBlock]bool{}
			for _, b := range setters {
				// the setter block may be an empty forwarding block: go back to the block holding the update
				for len(b.Instrs) == 1 && len(b.Preds) == 1 {
					b = b.Preds[0]
				}
				if done[b] {
					continue
				}
				done[b] = true
				n++
				key := fmt.Sprintf("fixpoint:%s:setter#%d", funcKey(f), n)
				pos := m.Pos(b.Instrs[0].Pos())
				ok, why := false, "the flag is set without an update of the iterated map under a strict comparison"
				sepOK, sepWhy := false, ""
				for _, d := range controlDeps(b) {
					bo, isBin := d.If.Cond.(*ssa.BinOp)
					if !isBin || d.Branch != 0 {
						continue
					}
					var old *progCell
					var e0 ssa.Value
					switch bo.Op {
					case token.LSS:
						old = progCellRead(bo.X)
						e0 = bo.Y
					case token.GTR:
						old = progCellRead(bo.Y)
						e0 = bo.X
					case token.LEQ, token.GEQ:
						why = "the guard `" + bo.String() + "` is not strict: when both sides are equal the cell is rewritten with the same value and the recursion repeats for ever"
						continue
					default:
						continue
					}
					if old == nil {
						continue
					}
					for _, in := range b.Instrs {
						wc, wval := progCellWrite(in)
						if wc == nil || !sameSSAExpr(wc.X, old.X, 0) || !sameSSAExpr(wc.Index, old.Index, 0) {
							continue
						}
						mu := struct{ Value ssa.Value }{wval}
						var addends []ssa.Value
						flattenSum(mu.Value, &addends, 0)
						if sameSSAExpr(mu.Value, e0, 0) {
							ok = true
							sepOK = true
							continue
						}
						sepWhy = "the guard compares the old coordinate with " + e0.String() + " but the update stores " + mu.Value.String()
						hasE0 := false
						rest := true
						for _, a := range addends {
							if !hasE0 && sameSSAExpr(a, e0, 0) {
								hasE0 = true
								continue
							}
							switch x := a.(type) {
							case *ssa.Parameter:
							case *ssa.Lookup:
								if sameSSAExpr(x.X, old.X, 0) {
									rest = false
								}
							case *ssa.UnOp:
								if x.Op != token.MUL {
									rest = false
								}
								if c := progCellRead(x); c != nil && sameSSAExpr(c.X, old.X, 0) {
									rest = false
								}
							default:
								rest = false
							}
						}
						if hasE0 && rest {
							ok = true
						} else {
							why = "the new value " + mu.Value.String() + " is not the compared bound plus non-negative size/spacing terms"
						}
					}
				}
				if ok {
					r.add(Obligation{Key: key, Pos: pos, Desc: "the repetition flag is set only together with a strict increase of a coordinate", Verdict: "holds", Control: ctl})
					// separation clause: at the fix-point no guard fires, so the guards must be as strong as the separation the updates
					// establish: the compared bound has to be the very value that is stored (left node + its width + spacing)
					if sepOK {
						r.add(Obligation{Key: key + ":separation", Pos: pos, Desc: "the overlap test compares with exactly the position it then enforces, so the fix-point implies the separation", Verdict: "holds", Control: ctl})
					} else {
						r.add(Obligation{Key: key + ":separation", Pos: pos, Desc: "the overlap test must be as strong as the separation it enforces", Verdict: "violation",
							Detail: sepWhy + ": the recursion stops as soon as the nodes are merely in order, so neighbours can remain closer than width + spacing (overlapping nodes)", Control: ctl})
					}
				} else {
					r.add(Obligation{Key: key, Pos: pos, Desc: "every repetition of the fix-point must strictly increase a coordinate", Verdict: "violation",
						Detail: why + " (" + strings.TrimSpace(funcKey(f)) + ")", Control: ctl})
				}
			}
			// the fix-point ends only when the flag is clear: the separation follows from "no guard fired in the last sweep", so the
			// repetition may not be cut short by anything else (a pass counter, a depth limit); trivial-input exits (nil, element
			// counts) and panics aside
			if n > 0 {
				var early []string
				if rp.body == nil {
					recs := staticCalls(f, func(c *ssa.Function) bool { return c == f })
					eachInstr(f, func(in ssa.Instruction) {
						ret, isRet := in.(*ssa.Return)
						if !isRet {
							return
						}
						for _, rc := range recs {
							if instrDominates(rc, ret) {
								return
							}
						}
						okRet := false
						var conds []string
						for _, d := range transitiveControlDeps(ret.Block()) {
							if p := isBoolPhi(d.If.Cond); p != nil && p == flag {
								okRet = true // the branch not taken by the recursive call
							}
							if !isCountOrNilTest(d.If.Cond, 0) && isBoolPhi(d.If.Cond) == nil && !recursionInvariant(d.If.Cond, f, recs, 0) {
								conds = append(conds, d.If.Cond.String()+" at "+m.Pos(d.If.Cond.Pos()))
							}
						}
						if !okRet && len(conds) > 0 {
							early = append(early, "the function returns under "+strings.Join(uniq(conds), ", ")+" without having swept until nothing moved")
						}
					})
				} else {
					for b := range rp.body {
						for _, sc := range b.Succs {
							if rp.body[sc] {
								continue
							}
							iff, isIf := b.Instrs[len(b.Instrs)-1].(*ssa.If)
							if isIf && isBoolPhi(iff.Cond) == flag {
								continue
							}
							if isIf && isCountOrNilTest(iff.Cond, 0) {
								continue
							}
							if isIf && definedOutside(iff.Cond, rp.body, 0) {
								continue // the same answer in every repetition: it skips the fix-point as a whole, it does not cut it short
							}
							if _, isPanic := sc.Instrs[len(sc.Instrs)-1].(*ssa.Panic); isPanic {
								continue
							}
							early = append(early, "the loop is left at "+m.Pos(b.Instrs[len(b.Instrs)-1].Pos())+" although the flag may be set")
						}
					}
				}
				ekey := "fixpoint:" + funcKey(f) + ":ends-when-clear"
				dup := false
				for _, o := range r.Obligations {
					if o.Key == ekey {
						dup = true
					}
				}
				if !dup {
					if len(early) == 0 {
						r.add(Obligation{Key: ekey, Pos: m.Pos(f.Pos()), Desc: "the repetition ends only when a whole sweep moved nothing (the flag is clear)", Verdict: "holds", Control: ctl})
					} else {
						r.add(Obligation{Key: ekey, Pos: m.Pos(f.Pos()), Desc: "the fix-point may end only when the flag is clear", Verdict: "violation",
							Detail: strings.Join(uniq(early), "; ") + ": the coordinates of the last, unchecked pass are final, so neighbours can still overlap", Control: ctl})
					}
				}
			}
		}
	}
}

// ---------- WIDTH-1 ----------

func init() {
	register(&Rule{
		ID: "WIDTH-1",
		Doc: "block widths dominate member widths (hypothesis of PROG-1's separation clause): the recursive colouring function of the SinkColoring positioner - the recursive function of phase 4 returning (*Node, float64) - returns on every path a width that is the visited node's own W or a max(...) that includes it; " +
			"in its caller that width flows only into a max-reduction stored in a map cell (the block's width so far). A node wider than its block's recorded width sticks out of the slot that placeBlock reserves for it and overlaps its neighbour",
		Floor: 2,
		Ctl:   []string{"internal__phase4__width1.go.txt"},
		Run:   runWidth1,
	})
}

func runWidth1(m *Model, r *RuleResult) {
	isOwnWidth := func(v ssa.Value, n ssa.Value) bool {
		u, ok := v.(*ssa.UnOp)
		if !ok || u.Op != token.MUL {
			return false
		}
		fa, ok := u.X.(*ssa.FieldAddr)
		if !ok {
			return false
		}
		base, steps := fieldChain(fa)
		return base == n && locOfSteps(steps) == igNode+".W"
	}
	var dominates func(v ssa.Value, n ssa.Value, depth int) bool
	dominates = func(v ssa.Value, n ssa.Value, depth int) bool {
		if depth > 4 {
			return false
		}
		if isOwnWidth(v, n) {
			return true
		}
		switch x := v.(type) {
		case *ssa.Call:
			if minMaxKind(&x.Call) == "max" {
				for _, a := range x.Call.Args {
					if dominates(a, n, depth+1) {
						return true
					}
				}
			}
			if c := x.Call.StaticCallee(); c != nil && c.Pkg != nil && c.Pkg.Pkg.Path() == "math" && c.Name() == "Max" {
				for _, a := range x.Call.Args {
					if dominates(a, n, depth+1) {
						return true
					}
				}
			}
		case *ssa.Phi:
			for _, e := range x.Edges {
				if !dominates(e, n, depth+1) {
					return false
				}
			}
			return len(x.Edges) > 0
		}
		return false
	}
	found := 0
	for _, f := range m.Src {
		if shortPkg(pkgPathOf(f)) != "internal/phase4" || f.Parent() != nil {
			continue
		}
		res := f.Signature.Results()
		if res.Len() != 2 {
			continue
		}
		// (root, width): the root as a node, or as its index in a dense numbering of the nodes
		if rb, isBasic := res.At(0).Type().Underlying().(*types.Basic); namedKey(res.At(0).Type()) != igNode && !(isBasic && rb.Info()&types.IsInteger != 0) {
			continue
		}
		if b, ok := res.At(1).Type().Underlying().(*types.Basic); !ok || b.Kind() != types.Float64 {
			continue
		}
		if len(staticCalls(f, func(c *ssa.Function) bool { return c == f })) == 0 {
			continue
		}
		// the visited node: the first *Node parameter
		var n ssa.Value
		for _, p := range f.Params {
			if namedKey(p.Type()) == igNode {
				n = p
				break
			}
		}
		if n == nil {
			continue
		}
		found++
		ctl := m.FuncIsPosctl(f)
		var bad []string
		nret := 0
		eachInstr(f, func(in ssa.Instruction) {
			ret, ok := in.(*ssa.Return)
			if !ok || len(ret.Results) != 2 {
				return
			}
			nret++
			if !dominates(ret.Results[1], n, 0) {
				bad = append(bad, "the width returned at "+m.Pos(ret.Pos())+" ("+ret.Results[1].String()+") does not include the node's own width")
			}
		})
		key := "block-width-includes-own:" + funcKey(f)
		if len(bad) == 0 && nret > 0 {
			r.add(Obligation{Key: key, Pos: m.Pos(f.Pos()), Desc: fmt.Sprintf("all %d returns hand back the node's own width or a max that includes it", nret), Verdict: "holds", Control: ctl})
		} else {
			r.add(Obligation{Key: key, Pos: m.Pos(f.Pos()), Desc: "the width reported for a node's block must be at least the node's own width", Verdict: "violation",
				Detail: strings.Join(bad, "; ") + ": the node sticks out of the slot reserved for its block", Control: ctl})
		}
		// callers: the width flows only into max(M[k], w) stored to M[k]
		for _, g := range m.Src {
			if g == f || m.FuncIsPosctl(g) != ctl {
				continue
			}
			for _, site := range staticCalls(g, func(c *ssa.Function) bool { return c == f }) {
				v := site.Value()
				if v == nil || v.Referrers() == nil {
					continue
				}
				for _, ref := range *v.Referrers() {
					ex, ok := ref.(*ssa.Extract)
					if !ok || ex.Index != 1 || ex.Referrers() == nil {
						continue
					}
					ckey := "block-width-max-reduced:" + funcKey(g)
					okUse := len(*ex.Referrers()) > 0
					why := ""
					for _, r2 := range *ex.Referrers() {
						if _, isDbg := r2.(*ssa.DebugRef); isDbg {
							continue
						}
						call, isCall := r2.(*ssa.Call)
						isMax := false
						if isCall {
							if minMaxKind(&call.Call) == "max" {
								isMax = true
							}
							// a helper of the package that max-reduces its value parameter into the cell m[k] of its map parameter
							if c := call.Call.StaticCallee(); c != nil && pkgPathOf(c) == pkgPathOf(g) && maxReducesParamIntoCell(c, call, ex) {
								continue
							}
						}
						if !isMax {
							okUse, why = false, fmt.Sprintf("the width is used by %s at %s", r2.String(), m.Pos(r2.Pos()))
							continue
						}
						// max(M[k], w) stored into M[k]
						stored := false
						if call.Referrers() != nil {
							for _, r3 := range *call.Referrers() {
								if wc, wv := progCellWrite(r3); wc != nil && wv == ssa.Value(call) {
									for _, a := range call.Call.Args {
										if rc := progCellRead(a); rc != nil && (sameMapValue(rc.X, wc.X) || sameSSAExpr(rc.X, wc.X, 0)) && sameSSAExpr(rc.Index, wc.Index, 0) {
											stored = true
										}
									}
								}
							}
						}
						if !stored {
							okUse, why = false, "max(..., width) at "+m.Pos(call.Pos())+" is not stored back into the cell it reads"
						}
					}
					if g != f {
						if okUse {
							r.add(Obligation{Key: ckey, Pos: m.Pos(site.Pos()), Desc: "the block width is the maximum of the widths reported for its members", Verdict: "holds", Control: ctl})
						} else {
							r.add(Obligation{Key: ckey, Pos: m.Pos(site.Pos()), Desc: "the block width must be the maximum of the widths reported for its members", Verdict: "violation", Detail: why, Control: ctl})
						}
					}
				}
			}
		}
	}
	if found == 0 {
		r.undecided("colouring-function", "-", "the recursive (*Node, float64) function of the SinkColoring positioner", "not found")
	}
}

// maxReducesParamIntoCell: callee c, called with value v as one argument, does nothing but m[k] = max(m[k], that parameter).
func maxReducesParamIntoCell(c *ssa.Function, call *ssa.Call, v ssa.Value) bool {
	pi := -1
	for i, a := range call.Call.Args {
		if a == v && i < len(c.Params) {
			pi = i
		}
	}
	if pi < 0 || len(c.Blocks) != 1 {
		return false
	}
	found := false
	nUpd := 0
	for _, in := range c.Blocks[0].Instrs {
		mu, ok := in.(*ssa.MapUpdate)
		if !ok {
			continue
		}
		nUpd++
		mc, ok := mu.Value.(*ssa.Call)
		if !ok {
			return false
		}
		if minMaxKind(&mc.Call) != "max" {
			return false
		}
		hasOld, hasParam := false, false
		for _, a := range mc.Call.Args {
			if lk, ok := a.(*ssa.Lookup); ok && lk.X == mu.Map && lk.Index == mu.Key {
				hasOld = true
			}
			if a == ssa.Value(c.Params[pi]) {
				hasParam = true
			}
		}
		if hasOld && hasParam {
			found = true
		}
	}
	return found && nUpd == 1
}

// ---------- PROG-2 ----------

func init() {
	register(&Rule{
		ID: "PROG-2",
		Doc: "repeat-while-improved loops make strict progress: in a loop that repeats as long as a boolean flag was raised during the last pass (the flag is a loop-carried constant: cleared at the start of a pass, raised inside it), " +
			"every place that raises the flag is dominated by the true edge of a STRICT comparison (< or >) of numbers - the count after the change against the count before it - or by a bool-returning helper that reports true only in that way; the rule applies to loops in which raising the flag depends on an ordered comparison at all (improvement loops). " +
			"A flag that can also be raised on an equally good result lets two states alternate for ever (the adjacent-exchange pass of the ordering phase swaps the same pair back and forth); a strictly decreasing non-negative count cannot",
		Floor: 1,
		Ctl:   []string{"internal__phase3__prog2.go.txt"},
		Run:   runProg2,
	})
}

func runProg2(m *Model, r *RuleResult) {
	for _, f := range m.Src {
		if !inModule(f) || len(f.Blocks) == 0 {
			continue
		}
		if !m.Reach[f] && !m.FuncIsPosctl(f) {
			continue
		}
		if m.FuncIsPosctl(f) && !strings.Contains(f.Name(), "Prog2") {
			continue
		}
		loops := naturalLoops(f)
		nloop := 0
		judged := map[*ssa.Phi]bool{}
		for _, l := range loops {
			// a flag loop: some branch inside the loop decides between staying and leaving on a boolean that is a web of constants
			for b := range l.Body {
				iff, ok := b.Instrs[len(b.Instrs)-1].(*ssa.If)
				if !ok || len(b.Succs) != 2 {
					continue
				}
				leaves := func(s *ssa.BasicBlock) bool { return !l.Body[s] }
				if leaves(b.Succs[0]) == leaves(b.Succs[1]) {
					continue
				}
				cond := iff.Cond
				neg := false
				if u, ok := cond.(*ssa.UnOp); ok && u.Op == token.NOT {
					cond, neg = u.X, true
				}
				flag, ok := cond.(*ssa.Phi)
				if !ok || !l.Body[flag.Block()] || judged[flag] {
					continue
				}
				// the loop goes on while the flag is set
				stayOnTrue := !leaves(b.Succs[0])
				if neg {
					stayOnTrue = !stayOnTrue
				}
				if !stayOnTrue {
					continue
				}
				srcs, allConst := flagSources(flag, l)
				hasTrue, hasFalse := false, false
				for _, s := range srcs {
					if s.val {
						hasTrue = true
					} else {
						hasFalse = true
					}
				}
				if !allConst || !hasTrue || !hasFalse {
					continue
				}
				// an improvement loop: raising the flag depends on an ordered comparison of numbers somewhere
				improvement := false
				for _, s := range srcs {
					if s.val && dependsOnOrderedComparison(s.from, l, 0) {
						improvement = true
					}
				}
				if !improvement {
					continue
				}
				judged[flag] = true
				nloop++
				key := fmt.Sprintf("strict-progress:%s#loop%d", funcKey(f), nloop)
				ctl := m.FuncIsPosctl(f)
				var bad []string
				nraise := 0
				for _, s := range srcs {
					if !s.val {
						continue
					}
					nraise++
					if why := strictlyImprovedAt(s.from, l, 0); why != "" {
						bad = append(bad, "the flag raised on the way out of the block at "+m.Pos(lastPos(s.from))+" "+why)
					}
				}
				pos := m.Pos(lastPos(b))
				if len(bad) == 0 {
					r.add(Obligation{Key: key, Pos: pos, Desc: fmt.Sprintf("%d place(s) raise the repeat flag, each confined to the true edge of a strict comparison", nraise), Verdict: "holds", Control: ctl})
				} else {
					r.add(Obligation{Key: key, Pos: pos, Desc: "the repeat flag is raised only on a strict improvement", Verdict: "violation",
						Detail: strings.Join(uniq(bad), "; ") + ": a pass that does not improve the count asks for another pass, and the loop can alternate between equally good states for ever", Control: ctl})
				}
			}
		}
	}
}

type flagSrc struct {
	val  bool
	from *ssa.BasicBlock // predecessor block of the phi edge that carries the constant
}

// flagSources resolves a boolean phi inside loop l to the constants that can reach it from inside the loop.
func flagSources(flag *ssa.Phi, l *loopInfo) ([]flagSrc, bool) {
	var srcs []flagSrc
	allConst := true
	seen := map[*ssa.Phi]bool{}
	var walk func(p *ssa.Phi)
	walk = func(p *ssa.Phi) {
		if seen[p] {
			return
		}
		seen[p] = true
		for i, e := range p.Edges {
			pred := p.Block().Preds[i]
			if l != nil && !l.Body[pred] {
				continue // value on entry
			}
			switch x := e.(type) {
			case *ssa.Const:
				if x.Value == nil || x.Value.Kind() != constant.Bool {
					allConst = false
					continue
				}
				srcs = append(srcs, flagSrc{constant.BoolVal(x.Value), pred})
			case *ssa.Phi:
				walk(x)
			default:
				allConst = false
			}
		}
	}
	walk(flag)
	return srcs, allConst
}

func isLoopHead(b *ssa.BasicBlock) bool {
	for _, p := range b.Preds {
		if b.Dominates(p) {
			return true
		}
	}
	return false
}

func isOrderedNumericCmp(v ssa.Value) (*ssa.BinOp, bool) {
	cmp, ok := v.(*ssa.BinOp)
	if !ok {
		return nil, false
	}
	switch cmp.Op {
	case token.LSS, token.GTR, token.LEQ, token.GEQ:
	default:
		return nil, false
	}
	bx, ok := cmp.X.Type().Underlying().(*types.Basic)
	if !ok || bx.Info()&types.IsNumeric == 0 {
		return nil, false
	}
	return cmp, true
}

// boolResultFlag: v is the bool result of a static call of a module function; returns that function.
func boolResultFlag(v ssa.Value) *ssa.Function {
	c, ok := v.(*ssa.Call)
	if !ok {
		return nil
	}
	callee := c.Call.StaticCallee()
	if callee == nil || !inModule(callee) || len(callee.Blocks) == 0 || callee.Signature.Results().Len() != 1 {
		return nil
	}
	if b, ok := callee.Signature.Results().At(0).Type().Underlying().(*types.Basic); !ok || b.Kind() != types.Bool {
		return nil
	}
	return callee
}

// dependsOnOrderedComparison: block b (in loop l, or anywhere in its function when l is nil) is control-dependent on an ordered
// comparison of numbers, directly or through a bool-returning module function.
func dependsOnOrderedComparison(b *ssa.BasicBlock, l *loopInfo, depth int) bool {
	for _, d := range transitiveControlDeps(b) {
		if l != nil && !l.Body[d.If.Block()] {
			continue
		}
		if _, ok := isOrderedNumericCmp(d.If.Cond); ok && !isLoopHead(d.If.Block()) {
			return true
		}
		if callee := boolResultFlag(d.If.Cond); callee != nil && depth < 2 {
			found := false
			eachInstr(callee, func(in ssa.Instruction) {
				ret, ok := in.(*ssa.Return)
				if !ok {
					return
				}
				if _, ok := isOrderedNumericCmp(ret.Results[0]); ok {
					found = true
				}
				if phi, ok := ret.Results[0].(*ssa.Phi); ok {
					srcs, _ := flagSources(phi, nil)
					for _, s := range srcs {
						if s.val && dependsOnOrderedComparison(s.from, nil, depth+1) {
							found = true
						}
					}
				}
			})
			if found {
				return true
			}
		}
	}
	return false
}

func lastPos(b *ssa.BasicBlock) token.Pos {
	for i := len(b.Instrs) - 1; i >= 0; i-- {
		if p := b.Instrs[i].Pos(); p.IsValid() {
			return p
		}
	}
	return token.NoPos
}

// strictlyImprovedAt: block b (inside loop l; anywhere in its function when l is nil) is dominated by the true edge of a strict comparison
// of numbers (when both operands are call results: of the same callee), or by the true edge of a call of a bool-returning module function
// that reports true only in that way; returns "" if so, else a description of what is missing.
func strictlyImprovedAt(b *ssa.BasicBlock, l *loopInfo, depth int) string {
	sawCmp := false
	for d := b; d != nil; d = d.Idom() {
		id := d.Idom()
		if id == nil || (l != nil && !l.Body[id]) {
			break
		}
		iff, ok := id.Instrs[len(id.Instrs)-1].(*ssa.If)
		if !ok || len(id.Succs) != 2 {
			continue
		}
		// d must be reached only through one definite edge of the branch
		edge := -1
		if id.Succs[0] == d && len(d.Preds) == 1 {
			edge = 0
		} else if id.Succs[1] == d && len(d.Preds) == 1 {
			edge = 1
		}
		if edge < 0 {
			continue
		}
		if callee := boolResultFlag(iff.Cond); callee != nil && edge == 0 && depth < 2 {
			okAll, n := true, 0
			eachInstr(callee, func(in ssa.Instruction) {
				ret, ok := in.(*ssa.Return)
				if !ok {
					return
				}
				n++
				switch x := ret.Results[0].(type) {
				case *ssa.Const:
					if x.Value != nil && x.Value.Kind() == constant.Bool && constant.BoolVal(x.Value) {
						if strictlyImprovedAt(ret.Block(), nil, depth+1) != "" {
							okAll = false
						}
					}
				case *ssa.BinOp:
					if cmp, ok := isOrderedNumericCmp(x); !ok || (cmp.Op != token.LSS && cmp.Op != token.GTR) {
						okAll = false
					}
				case *ssa.Phi:
					srcs, all := flagSources(x, nil)
					if !all {
						okAll = false
					}
					for _, s := range srcs {
						if s.val && strictlyImprovedAt(s.from, nil, depth+1) != "" {
							okAll = false
						}
					}
				default:
					okAll = false
				}
			})
			if okAll && n > 0 {
				return ""
			}
			continue
		}
		cmp, ok := isOrderedNumericCmp(iff.Cond)
		if !ok || isLoopHead(id) {
			continue // a loop's own continuation test says nothing about improvement
		}
		op := cmp.Op
		if edge == 1 {
			switch op { // the false edge of >= is <, of <= is >
			case token.GEQ:
				op = token.LSS
			case token.LEQ:
				op = token.GTR
			default:
				continue
			}
		}
		if op != token.LSS && op != token.GTR {
			continue
		}
		sawCmp = true
		cx, ok1 := cmp.X.(*ssa.Call)
		cy, ok2 := cmp.Y.(*ssa.Call)
		if ok1 && ok2 && cx.Call.StaticCallee() != nil && cy.Call.StaticCallee() != nil && cx.Call.StaticCallee() != cy.Call.StaticCallee() {
			continue // two different measures
		}
		return ""
	}
	if sawCmp {
		return "depends on a strict comparison, but of the results of two different functions"
	}
	return "is not confined to the true edge of a strict comparison (<, >) of the new value with the old one"
}

// ---------- BAL-2 ----------

func init() {
	register(&Rule{
		ID: "BAL-2",
		Doc: "opposite ends, opposite shifts (contradiction rule): a subtree shifter is a recursive function of phase 2 that takes a node and an integer and adds the (negated) integer to Node.Layer of the node and recursively of its tree neighbours. " +
			"Where a caller chooses between shifting the subtree hanging on one end of an edge (e.From) and the one hanging on its other end (e.To) by the same amount v, the two alternatives must carry opposite signs: moving one side of a tree edge by v and moving the other side by -v are the same relative displacement, " +
			"moving either side by +v are opposite displacements - one of them stretches the edge it was meant to tighten, or pushes a node above its predecessor",
		Floor: 0, // contradiction rule: where the pattern does not occur there is nothing to be inconsistent; the positive control keeps it alive
		Ctl:   []string{"internal__phase2__bal2.go.txt"},
		Run:   runBal2,
	})
}

func runBal2(m *Model, r *RuleResult) {
	m.fxInit()
	// subtree shifters
	shifter := map[*ssa.Function]bool{}
	for _, f := range m.Src {
		if shortPkg(pkgPathOf(f)) != "internal/phase2" || f.Parent() != nil || len(f.Blocks) == 0 {
			continue
		}
		np, ip := -1, -1
		for i, p := range f.Params {
			if namedKey(derefType(p.Type())) == igNode {
				np = i
			} else if b, ok := p.Type().Underlying().(*types.Basic); ok && b.Info()&types.IsInteger != 0 {
				ip = i
			}
		}
		if np < 0 || ip < 0 || f.Signature.Results().Len() != 0 {
			continue
		}
		if len(staticCalls(f, func(c *ssa.Function) bool { return c == f })) == 0 {
			continue
		}
		// stores Node.Layer of its node parameter as old -/+ the integer parameter
		ok := false
		eachInstr(f, func(in ssa.Instruction) {
			st, isSt := in.(*ssa.Store)
			if !isSt {
				return
			}
			fa, isFA := st.Addr.(*ssa.FieldAddr)
			if !isFA {
				return
			}
			base, steps := fieldChain(fa)
			if locOfSteps(steps) != igNode+".Layer" || base != ssa.Value(f.Params[np]) {
				return
			}
			if bo, isBin := st.Val.(*ssa.BinOp); isBin && (bo.Op == token.SUB || bo.Op == token.ADD) && bo.Y == ssa.Value(f.Params[ip]) {
				ok = true
			}
		})
		if ok {
			shifter[f] = true
		}
	}
	type alt struct {
		end  string // From / To
		edge ssa.Value
		amt  ssa.Value
		neg  bool
		pos  token.Pos
	}
	endOf := func(v ssa.Value) (string, ssa.Value) {
		u, ok := v.(*ssa.UnOp)
		if !ok || u.Op != token.MUL {
			return "", nil
		}
		fa, ok := u.X.(*ssa.FieldAddr)
		if !ok {
			return "", nil
		}
		base, steps := fieldChain(fa)
		switch locOfSteps(steps) {
		case igEdge + ".From":
			return "From", base
		case igEdge + ".To":
			return "To", base
		}
		return "", nil
	}
	amount := func(v ssa.Value) (ssa.Value, bool) {
		if u, ok := v.(*ssa.UnOp); ok && u.Op == token.SUB {
			return u.X, true
		}
		if bo, ok := v.(*ssa.BinOp); ok && bo.Op == token.SUB {
			if c, ok := bo.X.(*ssa.Const); ok && c.Value != nil && c.Int64() == 0 {
				return bo.Y, true
			}
		}
		return v, false
	}
	for _, f := range m.Src {
		if shortPkg(pkgPathOf(f)) != "internal/phase2" || len(f.Blocks) == 0 || shifter[f] {
			continue
		}
		var alts []alt
		eachInstr(f, func(in ssa.Instruction) {
			ci, ok := in.(ssa.CallInstruction)
			if !ok {
				return
			}
			c := ci.Common().StaticCallee()
			if c == nil || !shifter[c] {
				return
			}
			var nodeArg, intArg ssa.Value
			args := ci.Common().Args
			for i, p := range c.Params {
				if i >= len(args) {
					break
				}
				if namedKey(derefType(p.Type())) == igNode {
					nodeArg = args[i]
				} else if b, ok := p.Type().Underlying().(*types.Basic); ok && b.Info()&types.IsInteger != 0 {
					intArg = args[i]
				}
			}
			if nodeArg == nil || intArg == nil {
				return
			}
			add := func(nv, iv ssa.Value) {
				end, edge := endOf(nv)
				if end == "" {
					return
				}
				a, neg := amount(iv)
				alts = append(alts, alt{end, edge, a, neg, in.Pos()})
			}
			// the choice made by a helper that returns (node, amount): one alternative per return of the helper
			if ne, ok := nodeArg.(*ssa.Extract); ok {
				if ie, ok := intArg.(*ssa.Extract); ok && ie.Tuple == ne.Tuple {
					if hc, ok := ne.Tuple.(*ssa.Call); ok {
						if h := hc.Call.StaticCallee(); h != nil && inModule(h) && len(h.Blocks) > 0 {
							eachInstr(h, func(in2 ssa.Instruction) {
								if ret, ok := in2.(*ssa.Return); ok && ne.Index < len(ret.Results) && ie.Index < len(ret.Results) {
									end, edge := endOf(ret.Results[ne.Index])
									if end == "" {
										return
									}
									a, neg := amount(ret.Results[ie.Index])
									alts = append(alts, alt{end, edge, a, neg, ret.Pos()})
								}
							})
							return
						}
					}
				}
			}
			if phi, ok := nodeArg.(*ssa.Phi); ok {
				iphi, _ := intArg.(*ssa.Phi)
				for i, e := range phi.Edges {
					iv := intArg
					if iphi != nil && iphi.Block() == phi.Block() {
						iv = iphi.Edges[i]
					}
					add(e, iv)
				}
				return
			}
			add(nodeArg, intArg)
		})
		if len(alts) < 2 {
			continue
		}
		ctl := m.FuncIsPosctl(f)
		key := "opposite-ends-opposite-shifts:" + funcKey(f)
		var bad []string
		pairs := 0
		for i := range alts {
			for j := i + 1; j < len(alts); j++ {
				a, b := alts[i], alts[j]
				if a.end == b.end || !(a.edge == b.edge || sameSSAExpr(a.edge, b.edge, 0)) || !(a.amt == b.amt || sameSSAExpr(a.amt, b.amt, 0)) {
					continue
				}
				pairs++
				if a.neg == b.neg {
					bad = append(bad, fmt.Sprintf("the subtree at the %s end (%s) and the subtree at the %s end (%s) of the same edge are shifted by the same signed amount", a.end, m.Pos(a.pos), b.end, m.Pos(b.pos)))
				}
			}
		}
		if pairs == 0 {
			continue
		}
		if len(bad) == 0 {
			r.add(Obligation{Key: key, Pos: m.Pos(f.Pos()), Desc: fmt.Sprintf("%d pair(s) of alternatives shift opposite ends of an edge by opposite amounts", pairs), Verdict: "holds", Control: ctl})
		} else {
			r.add(Obligation{Key: key, Pos: m.Pos(f.Pos()), Desc: "alternatives that shift opposite ends of an edge must use opposite signs", Verdict: "violation",
				Detail: strings.Join(uniq(bad), "; ") + ": the two alternatives are opposite relative displacements of the two halves of the tree, so one of them moves nodes the wrong way (edges stretched or pointing upward, negative layers)", Control: ctl})
		}
	}
}

// ---------- DELTA-1 ----------

func init() {
	register(&Rule{
		ID: "DELTA-1",
		Doc: "the layering solver honours every edge's minimum length: in package phase2 a layer stored into Node.Layer that is computed from another node's layer plus or minus an offset takes that offset from Edge.Delta (or from a computed slack), never from a non-zero constant. " +
			"The layerer itself only ever sees Delta = 1, but the network-simplex positioner runs the same solver on an auxiliary graph whose edges carry half widths + spacing as Delta; a hard-wired 1 starts it from an infeasible ranking it does not repair, and neighbours of a layer end up overlapping or out of order",
		Floor: 1,
		Ctl:   []string{"internal__phase2__delta1.go.txt"},
		Run:   runDelta1,
	})
}

func runDelta1(m *Model, r *RuleResult) {
	isLayerLoad := func(v ssa.Value) bool {
		u, ok := v.(*ssa.UnOp)
		if !ok || u.Op != token.MUL {
			return false
		}
		fa, ok := u.X.(*ssa.FieldAddr)
		if !ok {
			return false
		}
		_, steps := fieldChain(fa)
		return locOfSteps(steps) == igNode+".Layer"
	}
	isDeltaLoad := func(v ssa.Value) bool {
		u, ok := v.(*ssa.UnOp)
		if !ok || u.Op != token.MUL {
			return false
		}
		fa, ok := u.X.(*ssa.FieldAddr)
		if !ok {
			return false
		}
		_, steps := fieldChain(fa)
		return strings.HasSuffix(locOfSteps(steps), ".Delta")
	}
	// does v reach a store into Node.Layer through max/min, phis, conversions and further sums
	var reaches func(v ssa.Value, seen map[ssa.Value]bool) bool
	reaches = func(v ssa.Value, seen map[ssa.Value]bool) bool {
		if seen[v] || len(seen) > 64 {
			return false
		}
		seen[v] = true
		refs := v.Referrers()
		if refs == nil {
			return false
		}
		for _, ref := range *refs {
			switch x := ref.(type) {
			case *ssa.Store:
				if x.Val == v {
					if fa, ok := x.Addr.(*ssa.FieldAddr); ok {
						_, steps := fieldChain(fa)
						if locOfSteps(steps) == igNode+".Layer" {
							return true
						}
					}
				}
			case *ssa.Phi:
				if reaches(x, seen) {
					return true
				}
			case *ssa.Convert:
				if reaches(x, seen) {
					return true
				}
			case *ssa.BinOp:
				if (x.Op == token.ADD || x.Op == token.SUB) && reaches(x, seen) {
					return true
				}
			case *ssa.Call:
				if minMaxKind(&x.Call) != "" && reaches(x, seen) {
					return true
				}
			}
		}
		return false
	}
	for _, f := range m.Src {
		if shortPkg(pkgPathOf(f)) != "internal/phase2" || len(f.Blocks) == 0 {
			continue
		}
		var bad []string
		good := 0
		eachInstr(f, func(in ssa.Instruction) {
			bo, ok := in.(*ssa.BinOp)
			if !ok || (bo.Op != token.ADD && bo.Op != token.SUB) {
				return
			}
			var other ssa.Value
			switch {
			case isLayerLoad(bo.X):
				other = bo.Y
			case bo.Op == token.ADD && isLayerLoad(bo.Y):
				other = bo.X
			default:
				return
			}
			if !reaches(bo, map[ssa.Value]bool{}) {
				return
			}
			if c, ok := other.(*ssa.Const); ok && c.Value != nil {
				if c.Int64() != 0 {
					bad = append(bad, fmt.Sprintf("%s at %s", bo.String(), m.Pos(bo.Pos())))
				}
				return
			}
			if isDeltaLoad(other) {
				good++
			}
		})
		if len(bad) == 0 && good == 0 {
			continue
		}
		key := "layer-offset-from-delta:" + funcKey(f)
		ctl := m.FuncIsPosctl(f)
		if len(bad) == 0 {
			r.add(Obligation{Key: key, Pos: m.Pos(f.Pos()), Desc: fmt.Sprintf("%d layer(s) derived from a neighbour's layer, offset by the edge's Delta", good), Verdict: "holds", Control: ctl})
		} else {
			r.add(Obligation{Key: key, Pos: m.Pos(f.Pos()), Desc: "a layer derived from a neighbour's layer is offset by the edge's minimum length", Verdict: "violation",
				Detail: strings.Join(uniq(bad), "; ") + " offsets a neighbour's layer by a constant and stores the result as a layer: edges whose Delta is not that constant (the positioner's separation edges) start infeasible", Control: ctl})
		}
	}
}

// ---------- STALE-1 ----------

func init() {
	register(&Rule{
		ID: "STALE-1",
		Doc: "a test-and-set stays together (stale-guard rule): when a function tests a map cell M[k] and, under that test, stores a computed value into the same cell inside a loop in which k does not change, " +
			"the test is evaluated inside that loop - once per iteration - unless the loop cannot go round again after the store. A guard hoisted in front of the loop is true on entry and says nothing after the first store: " +
			"what was meant to happen at most once per key happens once per iteration (a node aligned with both of its median neighbours closes no block cycle, and the compaction that walks the cycle never comes back to its root)",
		Floor: 0, // contradiction rule: where the pattern does not occur there is nothing to be inconsistent; the positive control keeps it alive
		Ctl:   []string{"internal__phase4__stale1.go.txt"},
		Run:   runStale1,
	})
}

func runStale1(m *Model, r *RuleResult) {
	for _, f := range m.Src {
		if !inModule(f) || len(f.Blocks) == 0 || !(m.Reach[f] || m.FuncIsPosctl(f)) {
			continue
		}
		if m.FuncIsPosctl(f) && !strings.Contains(f.Name(), "Stale1") {
			continue
		}
		loops := naturalLoops(f)
		if len(loops) == 0 {
			continue
		}
		// guards: If blocks whose condition mentions a lookup M[k]
		type guard struct {
			blk *ssa.BasicBlock
			lk  *ssa.Lookup
		}
		var guards []guard
		for _, b := range f.Blocks {
			iff, ok := b.Instrs[len(b.Instrs)-1].(*ssa.If)
			if !ok {
				continue
			}
			ment := map[ssa.Value]bool{}
			mentioned(iff.Cond, 0, ment)
			for v := range ment {
				if lk, ok := v.(*ssa.Lookup); ok {
					if _, isMap := lk.X.Type().Underlying().(*types.Map); isMap {
						guards = append(guards, guard{b, lk})
					}
				}
			}
		}
		if len(guards) == 0 {
			continue
		}
		n := 0
		eachInstr(f, func(in ssa.Instruction) {
			mu, ok := in.(*ssa.MapUpdate)
			if !ok {
				return
			}
			if _, isConst := mu.Value.(*ssa.Const); isConst {
				return // marking with a constant is idempotent
			}
			ls := loopsContaining(loops, mu.Block())
			if len(ls) == 0 {
				return
			}
			// innermost loop in which the key is invariant
			var l *loopInfo
			for _, c := range ls {
				ki, isInstr := mu.Key.(ssa.Instruction)
				if isInstr && c.Body[ki.Block()] {
					continue
				}
				if l == nil || len(c.Body) < len(l.Body) {
					l = c
				}
			}
			if l == nil {
				return
			}
			var inside, outside []guard
			for _, g := range guards {
				if g.lk.Index != mu.Key || !sameMapValue(g.lk.X, mu.Map) {
					continue
				}
				if !(g.blk == mu.Block() || g.blk.Dominates(mu.Block())) {
					continue
				}
				if l.Body[g.blk] {
					inside = append(inside, g)
				} else {
					outside = append(outside, g)
				}
			}
			if len(inside) == 0 && len(outside) == 0 {
				return
			}
			n++
			key := fmt.Sprintf("test-and-set-together:%s#%d", funcKey(f), n)
			ctl := m.FuncIsPosctl(f)
			// can the loop go round again after the store?
			again := false
			seen := map[*ssa.BasicBlock]bool{}
			stack := []*ssa.BasicBlock{mu.Block()}
			for len(stack) > 0 && !again {
				b := stack[len(stack)-1]
				stack = stack[:len(stack)-1]
				for _, s := range b.Succs {
					if s == l.Head {
						again = true
					}
					if l.Body[s] && !seen[s] && s != l.Head {
						seen[s] = true
						stack = append(stack, s)
					}
				}
			}
			if len(inside) > 0 || !again {
				r.add(Obligation{Key: key, Pos: m.Pos(mu.Pos()), Desc: "the test of the cell and the store into it are in the same iteration", Verdict: "holds", Control: ctl})
			} else {
				r.add(Obligation{Key: key, Pos: m.Pos(mu.Pos()), Desc: "a cell that is tested before it is set is tested in the iteration that sets it", Verdict: "violation",
					Detail: fmt.Sprintf("the store at %s is guarded by the test of the same cell at %s, which lies in front of the loop: true on entry, it is not evaluated again after the first store, and the loop stores into the cell once per iteration", m.Pos(mu.Pos()), m.Pos(lastPos(outside[0].blk))), Control: ctl})
			}
		})
	}
}
