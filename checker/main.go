package main

import (
	"encoding/json"
	"flag"
	"fmt"
	"os"
	"path/filepath"
	"sort"
	"strconv"
	"strings"
)

func usage() {
	fmt.Fprintln(os.Stderr, `usage:
  autogverif check -p <Cxx> [-tier quick|thorough] [-repo /repo] [-verif /verif]
  autogverif rule  -r <RULE-ID> [-repo /repo] [-verif /verif] [-ctl]     (debug: run one rule, print every obligation)
  autogverif list
  autogverif explain -f <replay.json>`)
	os.Exit(2)
}

func main() {
	if len(os.Args) < 2 {
		usage()
	}
	cmd := os.Args[1]
	finalizeProps()
	fs := flag.NewFlagSet(cmd, flag.ExitOnError)
	prop := fs.String("p", "", "property id")
	tier := fs.String("tier", "", "quick|thorough")
	repo := fs.String("repo", "/repo", "repository working tree")
	verif := fs.String("verif", "/verif", "verification directory")
	rule := fs.String("r", "", "rule id")
	withCtl := fs.Bool("ctl", false, "load the rule's positive controls")
	norm := fs.Bool("norm", false, "analyse the normalised view (one-line pure accessors inlined)")
	dumpNorm := fs.String("dumpnorm", "", "write the normalised files below this directory")
	file := fs.String("f", "", "replay file")
	name := fs.String("name", "", "catalogue entry")
	outDir := fs.String("out", os.Getenv("VERIF_EVIDENCE_DIR"), "evidence output directory (default <verif>/evidence)")
	fs.Parse(os.Args[2:])
	if *tier == "" {
		*tier = os.Getenv("VERIF_TIER")
	}
	if *tier == "" {
		*tier = "quick"
	}
	seed := 0
	if s := os.Getenv("VERIF_SEED"); s != "" {
		if n, err := strconv.Atoi(s); err == nil {
			seed = n
		}
	}
	switch cmd {
	case "check":
		p := properties[*prop]
		if p == nil {
			fmt.Fprintf(os.Stderr, "unknown property %q\n", *prop)
			os.Exit(2)
		}
		os.Exit(runProperty(runConfig{verifDir: *verif, repoDir: *repo, tier: *tier, seed: seed, outDir: *outDir}, p))
	case "rule":
		r := rules[*rule]
		if r == nil {
			fmt.Fprintf(os.Stderr, "unknown rule %q\n", *rule)
			os.Exit(2)
		}
		overlay := map[string][]byte{}
		if *withCtl {
			for _, c := range r.Ctl {
				src, err := os.ReadFile(*verif + "/posctl/" + c)
				if err != nil {
					panic(err)
				}
				base := strings.TrimSuffix(c, ".go.txt")
				i := strings.LastIndex(base, "__")
				dir := strings.ReplaceAll(base[:i], "__", "/")
				if dir == "ROOT" {
					dir = ""
				}
				overlay[filepath.Join(*repo, dir, posctlPrefix+"_"+base[i+2:]+".go")] = src
			}
		}
		m, err := Load(LoadOpts{RepoDir: *repo, Overlay: overlay})
		if err != nil {
			fmt.Fprintln(os.Stderr, err)
			os.Exit(1)
		}
		if *norm {
			m2, n, err := LoadNormalised(m, LoadOpts{RepoDir: *repo, Overlay: overlay})
			if err != nil {
				fmt.Fprintln(os.Stderr, "normalised view:", err)
				os.Exit(1)
			}
			fmt.Printf("normalised view: %d accessor calls inlined\n", n)
			if *dumpNorm != "" {
				for name, b := range m2.OverlaySrc {
					out := filepath.Join(*dumpNorm, strings.TrimPrefix(name, *repo))
					os.MkdirAll(filepath.Dir(out), 0o755)
					os.WriteFile(out, b, 0o644)
				}
			}
			m = m2
		}
		res := &RuleResult{Rule: r.ID}
		r.Run(m, res)
		for _, o := range res.Obligations {
			c := ""
			if o.Control {
				c = " [control]"
			}
			fmt.Printf("%-9s %-10s %s  @%s%s\n     %s\n", o.Rule, o.Verdict, o.Key, o.Pos, c, o.Desc)
			if o.Detail != "" {
				fmt.Printf("     -> %s\n", o.Detail)
			}
		}
		fmt.Println("stats:", res.Stats)
		for _, n := range res.Notes {
			fmt.Println("note:", n)
		}
	case "aff":
		m, err := Load(LoadOpts{RepoDir: *repo})
		if err != nil {
			fmt.Fprintln(os.Stderr, err)
			os.Exit(1)
		}
		for _, a := range fs.Args() {
			parts := strings.Split(a, ":")
			recv := ""
			if len(parts) == 3 {
				recv = parts[1]
			}
			affDump(m, parts[0], recv, parts[len(parts)-1])
		}
	case "corpus-one":
		r := corpusOne(*verif, *repo, *file, *name, strings.Split(*rule, ","))
		b, _ := json.Marshal(r)
		fmt.Println(string(b))
	case "selftest-one":
		r := selftestOne(*verif, *repo, *name)
		b, _ := json.Marshal(r)
		fmt.Println(string(b))
	case "selftest":
		var only map[string]bool
		if *rule != "" {
			only = map[string]bool{}
			for _, x := range strings.Split(*rule, ",") {
				only[x] = true
			}
		}
		rs := selftestAll(*verif, *repo, only, 8)
		bad := 0
		for _, r := range rs {
			mark := "ok "
			if r.Status == "missed" || r.Status == "false-alarm" || r.Status == "does-not-compile" || strings.HasPrefix(r.Status, "subprocess") {
				mark = "BAD"
				bad++
			}
			fmt.Printf("%s %-7s %-34s %-18s expect=%v reported=%v %s\n", mark, r.Kind, r.Name, r.Status, r.Expect, r.Reported, func() string {
				if r.Status == "does-not-compile" {
					return r.Note
				}
				return ""
			}())
		}
		fmt.Printf("selftest: %d entries, %d problems\n", len(rs), bad)
	case "manifest":
		if err := writeManifest(*verif); err != nil {
			fmt.Fprintln(os.Stderr, err)
			os.Exit(1)
		}
	case "list":
		var ids []string
		for id := range properties {
			ids = append(ids, id)
		}
		sort.Strings(ids)
		for _, id := range ids {
			fmt.Println(id, properties[id].Rules)
		}
	case "explain":
		b, err := os.ReadFile(*file)
		if err != nil {
			fmt.Fprintln(os.Stderr, err)
			os.Exit(2)
		}
		var v map[string]any
		json.Unmarshal(b, &v)
		fmt.Printf("property %v, rule %v\nconstruct: %v\nat: %v\nverdict: %v\n%v\n%v\n", v["property"], v["rule"], v["key"], v["pos"], v["verdict"], v["desc"], v["detail"])
		if r := rules[fmt.Sprint(v["rule"])]; r != nil {
			fmt.Println("rule applied:", r.Doc)
		}
		fmt.Printf("re-derive: ./run.sh %v quick\n", v["property"])
	default:
		usage()
	}
}
