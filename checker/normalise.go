package main

// Normalised view of the repository: calls of one-line pure accessors (`func (n *Node) Right() float64 { return n.X + n.W }`,
// `func Last[T any](xs []T) T { return xs[len(xs)-1] }`) are replaced, in an in-memory overlay, by the expression they return.
// The replacement preserves behaviour (the accessor's body is a pure expression of its parameters and the arguments at the
// rewritten call sites are pure, duplicable expressions), so a rule may be decided on either view. The framework uses the
// normalised view only as a second chance for a rule that does not hold on the tree as written: extracting an accessor is the
// most common refactoring there is, and the shape rules should not depend on whether `n.X + n.W` is spelled inline.

import (
	"go/ast"
	"go/parser"
	"go/token"
	"go/types"
	"os"
	"sort"
	"strings"

	"golang.org/x/tools/go/packages"
)

type inlAccessor struct {
	fn          *types.Func
	fd          *ast.FuncDecl
	pkg         *packages.Package
	src         []byte
	expr        ast.Expr
	params      []types.Object // receiver first (if any)
	samePkgOnly bool
}

// forEachHelper: `func (g *DGraph) EachNode(fn func(*Node)) { for _, n := range g.Nodes { [if c { continue }]* fn(n) } }`
type forEachHelper struct {
	fn          *types.Func
	fd          *ast.FuncDecl
	pkg         *packages.Package
	src         []byte
	rng         *ast.RangeStmt
	filters     []ast.Expr
	call        *ast.CallExpr
	fnParam     types.Object
	params      []types.Object // receiver first (if any), the callback parameter included
	samePkgOnly bool
}

type normaliser struct {
	feh     map[*types.Func]*forEachHelper
	fehNo   map[*types.Func]bool
	labelNo int
	m     *Model
	acc   map[*types.Func]*inlAccessor
	state map[*types.Func]int // 1 = in progress, 2 = rejected
	srcs  map[string][]byte
	calls int
}

func (nz *normaliser) fileSrc(p *packages.Package, pos token.Pos) []byte {
	name := nz.m.Fset.Position(pos).Filename
	if b, ok := nz.srcs[name]; ok {
		return b
	}
	var b []byte
	if ov, ok := nz.m.OverlaySrc[name]; ok {
		b = ov
	} else {
		b, _ = os.ReadFile(name)
	}
	nz.srcs[name] = b
	return b
}

func (nz *normaliser) offset(pos token.Pos) int { return nz.m.Fset.Position(pos).Offset }

// accessor returns the inlinable accessor for fn, or nil.
func (nz *normaliser) accessor(fn *types.Func) *inlAccessor {
	if fn == nil {
		return nil
	}
	if o := fn.Origin(); o != nil {
		fn = o
	}
	if a, ok := nz.acc[fn]; ok {
		return a
	}
	if nz.state[fn] != 0 {
		return nil
	}
	nz.state[fn] = 1
	a := nz.tryAccessor(fn)
	if a == nil {
		nz.state[fn] = 2
		return nil
	}
	nz.acc[fn] = a
	return a
}

func (nz *normaliser) tryAccessor(fn *types.Func) *inlAccessor {
	fd := nz.m.Decl[fn]
	p := nz.m.DeclPkg[fn]
	if fd == nil || p == nil || fd.Body == nil || len(fd.Body.List) != 1 {
		return nil
	}
	if strings.HasSuffix(nz.m.Fset.Position(fd.Pos()).Filename, "_test.go") {
		return nil
	}
	ret, ok := fd.Body.List[0].(*ast.ReturnStmt)
	if !ok || len(ret.Results) != 1 {
		return nil
	}
	sig := fn.Type().(*types.Signature)
	if sig.Variadic() || sig.Results().Len() != 1 {
		return nil
	}
	a := &inlAccessor{fn: fn, fd: fd, pkg: p, expr: ret.Results[0]}
	a.src = nz.fileSrc(p, fd.Pos())
	if a.src == nil {
		return nil
	}
	isParam := map[types.Object]bool{}
	if fd.Recv != nil {
		if len(fd.Recv.List) != 1 || len(fd.Recv.List[0].Names) != 1 {
			return nil
		}
		o := p.TypesInfo.Defs[fd.Recv.List[0].Names[0]]
		if o == nil {
			return nil
		}
		a.params = append(a.params, o)
		isParam[o] = true
	}
	for _, fl := range fd.Type.Params.List {
		if len(fl.Names) == 0 {
			return nil
		}
		for _, nm := range fl.Names {
			o := p.TypesInfo.Defs[nm]
			if o == nil {
				return nil
			}
			a.params = append(a.params, o)
			isParam[o] = true
		}
	}
	if !nz.pureExpr(a.expr, p.TypesInfo, isParam, a, 0) {
		return nil
	}
	return a
}

// pureExpr: built from the parameters, field selections, indexing, arithmetic / comparison, literals, len / cap / min / max,
// conversions to basic types and calls of other inlinable accessors.
func (nz *normaliser) pureExpr(e ast.Expr, info *types.Info, isParam map[types.Object]bool, a *inlAccessor, depth int) bool {
	if depth > 12 {
		return false
	}
	switch x := e.(type) {
	case *ast.ParenExpr:
		return nz.pureExpr(x.X, info, isParam, a, depth+1)
	case *ast.BasicLit:
		return true
	case *ast.Ident:
		o := info.Uses[x]
		if o == nil {
			return false
		}
		if isParam != nil && isParam[o] {
			return true
		}
		if isParam == nil {
			// call-site argument: any variable, constant or nil / true / false
			switch o.(type) {
			case *types.Var, *types.Const, *types.Nil:
				return true
			}
			return false
		}
		if o.Pkg() == nil {
			switch o.(type) {
			case *types.Const, *types.Nil:
				return true
			}
		}
		return false
	case *ast.SelectorExpr:
		sel := info.Selections[x]
		if sel == nil {
			// qualified identifier pkg.Name: only as a call-site argument (constants, variables)
			if isParam == nil {
				if o := info.Uses[x.Sel]; o != nil {
					switch o.(type) {
					case *types.Var, *types.Const:
						return true
					}
				}
			}
			return false
		}
		if sel.Kind() != types.FieldVal {
			return false
		}
		if a != nil && !sel.Obj().Exported() {
			a.samePkgOnly = true
		}
		// promoted through an unexported embedded field is still spelled with the exported name only
		return nz.pureExpr(x.X, info, isParam, a, depth+1)
	case *ast.IndexExpr:
		if tv, ok := info.Types[x.X]; ok {
			if _, isMap := tv.Type.Underlying().(*types.Map); isMap && isParam != nil {
				// map reads are pure; fine
			}
		}
		return nz.pureExpr(x.X, info, isParam, a, depth+1) && nz.pureExpr(x.Index, info, isParam, a, depth+1)
	case *ast.StarExpr:
		return nz.pureExpr(x.X, info, isParam, a, depth+1)
	case *ast.UnaryExpr:
		switch x.Op {
		case token.SUB, token.ADD, token.NOT, token.XOR:
			return nz.pureExpr(x.X, info, isParam, a, depth+1)
		}
		return false
	case *ast.BinaryExpr:
		return nz.pureExpr(x.X, info, isParam, a, depth+1) && nz.pureExpr(x.Y, info, isParam, a, depth+1)
	case *ast.CallExpr:
		if x.Ellipsis.IsValid() {
			return false
		}
		// conversion to a basic type
		if tv, ok := info.Types[x.Fun]; ok && tv.IsType() {
			if _, isBasic := tv.Type.(*types.Basic); isBasic && len(x.Args) == 1 {
				return nz.pureExpr(x.Args[0], info, isParam, a, depth+1)
			}
			return false
		}
		switch o := calleeObj(info, x).(type) {
		case *types.Builtin:
			switch o.Name() {
			case "len", "cap", "min", "max":
				for _, arg := range x.Args {
					if !nz.pureExpr(arg, info, isParam, a, depth+1) {
						return false
					}
				}
				return true
			}
			return false
		case *types.Func:
			callee := nz.accessor(o)
			if callee == nil {
				return false
			}
			if a != nil && callee.samePkgOnly && callee.pkg != a.pkg {
				return false
			}
			if a != nil && callee.samePkgOnly {
				a.samePkgOnly = true
			}
			if se, ok := x.Fun.(*ast.SelectorExpr); ok && info.Selections[se] != nil {
				if !nz.pureExpr(se.X, info, isParam, a, depth+1) {
					return false
				}
			}
			for _, arg := range x.Args {
				if !nz.pureExpr(arg, info, isParam, a, depth+1) {
					return false
				}
			}
			return true
		}
		return false
	}
	return false
}

// eligibleCall: c calls an inlinable accessor with pure arguments from a package where the accessor's body compiles.
func (nz *normaliser) eligibleCall(c *ast.CallExpr, p *packages.Package) *inlAccessor {
	if c.Ellipsis.IsValid() {
		return nil
	}
	fn, ok := calleeObj(p.TypesInfo, c).(*types.Func)
	if !ok {
		return nil
	}
	a := nz.accessor(fn)
	if a == nil || (a.samePkgOnly && a.pkg != p) {
		return nil
	}
	n := len(c.Args)
	if a.fd.Recv != nil {
		se, ok := c.Fun.(*ast.SelectorExpr)
		if !ok || p.TypesInfo.Selections[se] == nil {
			return nil // method expression T.m(x, ...)
		}
		if !nz.pureExpr(se.X, p.TypesInfo, nil, nil, 0) {
			return nil
		}
		n++
	}
	if n != len(a.params) {
		return nil
	}
	for _, arg := range c.Args {
		if !nz.pureExpr(arg, p.TypesInfo, nil, nil, 0) {
			return nil
		}
	}
	return a
}

// render returns the source text of e with substituted identifiers and inlined accessor calls.
func (nz *normaliser) render(e ast.Node, p *packages.Package, src []byte, subst map[types.Object]string, depth int) string {
	type repl struct {
		from, to int
		text     string
	}
	var rs []repl
	ast.Inspect(e, func(n ast.Node) bool {
		switch x := n.(type) {
		case *ast.FuncLit:
			// do not substitute inside literals of a call-site expression; accessor bodies have none
			if subst != nil {
				return false
			}
		case *ast.Ident:
			if subst != nil {
				if t, ok := subst[p.TypesInfo.Uses[x]]; ok {
					rs = append(rs, repl{nz.offset(x.Pos()), nz.offset(x.End()), t})
				}
			}
		case *ast.ExprStmt:
			if depth > 6 {
				return true
			}
			if txt, ok := nz.renderForEach(x, p, src, subst, depth); ok {
				nz.calls++
				rs = append(rs, repl{nz.offset(x.Pos()), nz.offset(x.End()), txt})
				return false
			}
		case *ast.CallExpr:
			if depth > 6 {
				return true
			}
			a := nz.eligibleCall(x, p)
			if a == nil {
				return true
			}
			ns := map[types.Object]string{}
			i := 0
			if a.fd.Recv != nil {
				se := x.Fun.(*ast.SelectorExpr)
				ns[a.params[0]] = "(" + nz.render(se.X, p, src, subst, depth+1) + ")"
				i = 1
			}
			for k, arg := range x.Args {
				ns[a.params[i+k]] = "(" + nz.render(arg, p, src, subst, depth+1) + ")"
			}
			nz.calls++
			rs = append(rs, repl{nz.offset(x.Pos()), nz.offset(x.End()), "(" + nz.render(a.expr, a.pkg, a.src, ns, depth+1) + ")"})
			return false
		}
		return true
	})
	from, to := nz.offset(e.Pos()), nz.offset(e.End())
	sort.Slice(rs, func(i, j int) bool { return rs[i].from < rs[j].from })
	var sb strings.Builder
	cur := from
	for _, r := range rs {
		if r.from < cur {
			continue
		}
		sb.Write(src[cur:r.from])
		sb.WriteString(r.text)
		cur = r.to
	}
	sb.Write(src[cur:to])
	return sb.String()
}

// normaliseAccessors returns an overlay (file name -> contents) in which every eligible accessor call of the module's
// non-test files is inlined, and the number of rewritten call sites. Files without such calls are left out.
func normaliseAccessors(m *Model) (map[string][]byte, int) {
	nz := &normaliser{m: m, acc: map[*types.Func]*inlAccessor{}, state: map[*types.Func]int{}, srcs: map[string][]byte{}, feh: map[*types.Func]*forEachHelper{}, fehNo: map[*types.Func]bool{}}
	out := map[string][]byte{}
	for _, p := range m.Pkgs {
		for _, f := range p.Syntax {
			name := m.Fset.Position(f.Pos()).Filename
			if strings.HasSuffix(name, "_test.go") {
				continue
			}
			src := nz.fileSrc(p, f.Pos())
			if src == nil {
				continue
			}
			before := nz.calls
			// render declaration by declaration so that the accessor declarations themselves stay as they are
			var sb strings.Builder
			cur := 0
			for _, d := range f.Decls {
				fd, ok := d.(*ast.FuncDecl)
				if !ok || fd.Body == nil {
					continue
				}
				sb.Write(src[cur:nz.offset(fd.Body.Pos())])
				sb.WriteString(nz.render(fd.Body, p, src, nil, 0))
				cur = nz.offset(fd.Body.End())
			}
			sb.Write(src[cur:])
			if nz.calls > before {
				out[name] = blankUnusedImports(sb.String(), p)
			}
		}
	}
	return out, nz.calls
}

// blankUnusedImports: an import whose only uses were inlined away becomes `_ "path"` so that the file still compiles.
func blankUnusedImports(content string, p *packages.Package) []byte {
	fset := token.NewFileSet()
	f, err := parser.ParseFile(fset, "x.go", content, parser.SkipObjectResolution)
	if err != nil {
		return []byte(content)
	}
	used := map[string]bool{}
	ast.Inspect(f, func(n ast.Node) bool {
		if se, ok := n.(*ast.SelectorExpr); ok {
			if id, ok := se.X.(*ast.Ident); ok {
				used[id.Name] = true
			}
		}
		return true
	})
	type ins struct {
		from, to int
		text     string
	}
	var edits []ins
	for _, is := range f.Imports {
		path := strings.Trim(is.Path.Value, "\"`")
		local := ""
		if is.Name != nil {
			local = is.Name.Name
			if local == "_" || local == "." {
				continue
			}
		} else if ip := p.Imports[path]; ip != nil {
			local = ip.Name
		} else {
			local = path[strings.LastIndex(path, "/")+1:]
		}
		if used[local] {
			continue
		}
		if is.Name != nil {
			edits = append(edits, ins{fset.Position(is.Name.Pos()).Offset, fset.Position(is.Name.End()).Offset, "_"})
		} else {
			o := fset.Position(is.Path.Pos()).Offset
			edits = append(edits, ins{o, o, "_ "})
		}
	}
	sort.Slice(edits, func(i, j int) bool { return edits[i].from > edits[j].from })
	for _, e := range edits {
		content = content[:e.from] + e.text + content[e.to:]
	}
	return []byte(content)
}

// LoadNormalised loads the normalised view of an already loaded model (same options, overlay extended by the rewritten files).
// n is the number of inlined call sites; with n == 0 the model itself is returned.
func LoadNormalised(m *Model, o LoadOpts) (*Model, int, error) {
	ov, n := normaliseAccessors(m)
	if n == 0 {
		return m, 0, nil
	}
	merged := map[string][]byte{}
	for k, v := range o.Overlay {
		merged[k] = v
	}
	for k, v := range ov {
		merged[k] = v
	}
	o.Overlay = merged
	m2, err := Load(o)
	if err != nil {
		return nil, n, err
	}
	m2.Normalised = n
	return m2, n, nil
}

// forEach returns the for-each helper for fn, or nil.
func (nz *normaliser) forEach(fn *types.Func) *forEachHelper {
	if fn == nil {
		return nil
	}
	if o := fn.Origin(); o != nil {
		fn = o
	}
	if h, ok := nz.feh[fn]; ok {
		return h
	}
	if nz.fehNo[fn] {
		return nil
	}
	h := nz.tryForEach(fn)
	if h == nil {
		nz.fehNo[fn] = true
		return nil
	}
	nz.feh[fn] = h
	return h
}

func (nz *normaliser) tryForEach(fn *types.Func) *forEachHelper {
	fd := nz.m.Decl[fn]
	p := nz.m.DeclPkg[fn]
	if fd == nil || p == nil || fd.Body == nil || len(fd.Body.List) != 1 || fd.Type.TypeParams != nil {
		return nil
	}
	if strings.HasSuffix(nz.m.Fset.Position(fd.Pos()).Filename, "_test.go") {
		return nil
	}
	sig := fn.Type().(*types.Signature)
	if sig.Variadic() || sig.Results().Len() != 0 {
		return nil
	}
	rng, ok := fd.Body.List[0].(*ast.RangeStmt)
	if !ok || rng.Tok != token.DEFINE || len(rng.Body.List) == 0 {
		return nil
	}
	h := &forEachHelper{fn: fn, fd: fd, pkg: p, rng: rng}
	h.src = nz.fileSrc(p, fd.Pos())
	if h.src == nil {
		return nil
	}
	isParam := map[types.Object]bool{}
	if fd.Recv != nil {
		if len(fd.Recv.List) != 1 || len(fd.Recv.List[0].Names) != 1 {
			return nil
		}
		o := p.TypesInfo.Defs[fd.Recv.List[0].Names[0]]
		if o == nil {
			return nil
		}
		h.params = append(h.params, o)
		isParam[o] = true
	}
	for _, fl := range fd.Type.Params.List {
		if len(fl.Names) == 0 {
			return nil
		}
		for _, nm := range fl.Names {
			o := p.TypesInfo.Defs[nm]
			if o == nil {
				return nil
			}
			h.params = append(h.params, o)
			if _, isFn := o.Type().Underlying().(*types.Signature); isFn {
				if h.fnParam != nil {
					return nil
				}
				h.fnParam = o
				continue
			}
			isParam[o] = true
		}
	}
	if h.fnParam == nil {
		return nil
	}
	if cs, ok := h.fnParam.Type().Underlying().(*types.Signature); !ok || cs.Results().Len() != 0 || cs.Variadic() {
		return nil
	}
	// the ranged expression: pure in receiver / parameters
	tmp := &inlAccessor{pkg: p}
	if !nz.pureExpr(rng.X, p.TypesInfo, isParam, tmp, 0) {
		return nil
	}
	// loop variables
	loopVar := map[types.Object]bool{}
	for _, kv := range []ast.Expr{rng.Key, rng.Value} {
		if id, ok := kv.(*ast.Ident); ok && id.Name != "_" {
			if o := p.TypesInfo.Defs[id]; o != nil {
				loopVar[o] = true
			}
		} else if kv != nil {
			if _, isId := kv.(*ast.Ident); !isId {
				return nil
			}
		}
	}
	both := map[types.Object]bool{}
	for o := range isParam {
		both[o] = true
	}
	for o := range loopVar {
		both[o] = true
	}
	n := len(rng.Body.List)
	for _, st := range rng.Body.List[:n-1] {
		ifs, ok := st.(*ast.IfStmt)
		if !ok || ifs.Init != nil || ifs.Else != nil || len(ifs.Body.List) != 1 {
			return nil
		}
		br, ok := ifs.Body.List[0].(*ast.BranchStmt)
		if !ok || br.Tok != token.CONTINUE || br.Label != nil {
			return nil
		}
		if !nz.pureExpr(ifs.Cond, p.TypesInfo, both, tmp, 0) {
			return nil
		}
		h.filters = append(h.filters, ifs.Cond)
	}
	es, ok := rng.Body.List[n-1].(*ast.ExprStmt)
	if !ok {
		return nil
	}
	call, ok := es.X.(*ast.CallExpr)
	if !ok || call.Ellipsis.IsValid() {
		return nil
	}
	if id, ok := call.Fun.(*ast.Ident); !ok || p.TypesInfo.Uses[id] != h.fnParam {
		return nil
	}
	for _, a := range call.Args {
		id, ok := a.(*ast.Ident)
		if !ok || !loopVar[p.TypesInfo.Uses[id]] {
			return nil
		}
	}
	h.call = call
	h.samePkgOnly = tmp.samePkgOnly
	return h
}

// renderForEach rewrites the statement `E.Each(..., func(x T) { BODY })` into the helper's loop with BODY in place of the call.
func (nz *normaliser) renderForEach(st *ast.ExprStmt, p *packages.Package, src []byte, subst map[types.Object]string, depth int) (string, bool) {
	c, ok := st.X.(*ast.CallExpr)
	if !ok || c.Ellipsis.IsValid() {
		return "", false
	}
	fn, ok := calleeObj(p.TypesInfo, c).(*types.Func)
	if !ok {
		return "", false
	}
	h := nz.forEach(fn)
	if h == nil || (h.samePkgOnly && h.pkg != p) {
		return "", false
	}
	// bind receiver and arguments
	var actuals []ast.Expr
	if h.fd.Recv != nil {
		se, ok := c.Fun.(*ast.SelectorExpr)
		if !ok || p.TypesInfo.Selections[se] == nil {
			return "", false
		}
		actuals = append(actuals, se.X)
	}
	actuals = append(actuals, c.Args...)
	if len(actuals) != len(h.params) {
		return "", false
	}
	var lit *ast.FuncLit
	fnValue := ""
	ns := map[types.Object]string{}
	for i, o := range h.params {
		if o == h.fnParam {
			l, ok := actuals[i].(*ast.FuncLit)
			if !ok {
				// a function value (`G.EachNode(params.NodeSizeFunc)`): call it in the loop
				if !nz.pureExpr(actuals[i], p.TypesInfo, nil, nil, 0) {
					return "", false
				}
				fnValue = "(" + nz.render(actuals[i], p, src, subst, depth+1) + ")"
				continue
			}
			lit = l
			continue
		}
		if !nz.pureExpr(actuals[i], p.TypesInfo, nil, nil, 0) {
			return "", false
		}
		ns[o] = "(" + nz.render(actuals[i], p, src, subst, depth+1) + ")"
	}
	if lit == nil && fnValue == "" {
		return "", false
	}
	if lit != nil && lit.Type.Results != nil {
		return "", false
	}
	// the literal's parameter names become the loop variables
	var litNames []string
	if lit != nil {
		for _, fl := range lit.Type.Params.List {
			if len(fl.Names) == 0 {
				return "", false
			}
			for _, nm := range fl.Names {
				litNames = append(litNames, nm.Name)
			}
		}
	} else {
		for range h.call.Args {
			litNames = append(litNames, "_")
		}
	}
	if len(litNames) != len(h.call.Args) {
		return "", false
	}
	nz.labelNo++
	fresh := func(k int) string { return "zzNormV" + strings.Repeat("x", k) + string(rune('a'+nz.labelNo%26)) + strings.Repeat("q", nz.labelNo/26) }
	loopName := map[types.Object]string{}
	for i, a := range h.call.Args {
		o := h.pkg.TypesInfo.Uses[a.(*ast.Ident)]
		name := litNames[i]
		if name == "_" {
			name = fresh(i + 1)
		}
		if prev, dup := loopName[o]; dup && prev != name {
			return "", false
		}
		loopName[o] = name
	}
	kv := [2]string{"_", "_"}
	used := false
	for i, e := range []ast.Expr{h.rng.Key, h.rng.Value} {
		id, ok := e.(*ast.Ident)
		if !ok || id.Name == "_" {
			continue
		}
		o := h.pkg.TypesInfo.Defs[id]
		name, passed := loopName[o]
		if !passed {
			// used by a filter only?
			name = fresh(i + 5)
			loopName[o] = name
		}
		kv[i] = name
		used = true
	}
	if !used {
		return "", false
	}
	for o, nme := range loopName {
		ns[o] = nme
	}
	// returns in the literal's body (not in nested literals) mean "next element"
	label := "zzNormL" + string(rune('a'+nz.labelNo%26)) + strings.Repeat("q", nz.labelNo/26)
	type repl struct {
		from, to int
	}
	var rets []repl
	okBody := true
	if lit == nil {
		// for k, v := range X { [filters] F(k, v) }
		var as []string
		for _, a := range h.call.Args {
			as = append(as, loopName[h.pkg.TypesInfo.Uses[a.(*ast.Ident)]])
		}
		var sb strings.Builder
		if h.rng.Value == nil {
			sb.WriteString("for " + kv[0] + " := range " + nz.render(h.rng.X, h.pkg, h.src, ns, depth+1) + " {")
		} else {
			sb.WriteString("for " + kv[0] + ", " + kv[1] + " := range " + nz.render(h.rng.X, h.pkg, h.src, ns, depth+1) + " {")
		}
		for _, f := range h.filters {
			sb.WriteString(" if " + nz.render(f, h.pkg, h.src, ns, depth+1) + " { continue };")
		}
		sb.WriteString(" " + fnValue + "(" + strings.Join(as, ", ") + ") }")
		return sb.String(), true
	}
	ast.Inspect(lit.Body, func(n ast.Node) bool {
		switch x := n.(type) {
		case *ast.FuncLit:
			return false
		case *ast.ReturnStmt:
			if len(x.Results) != 0 {
				okBody = false
			}
			rets = append(rets, repl{nz.offset(x.Pos()), nz.offset(x.End())})
		case *ast.DeferStmt:
			okBody = false
		}
		return true
	})
	if !okBody {
		return "", false
	}
	body := nz.render(lit.Body, p, src, subst, depth+1) // includes the braces
	if len(rets) > 0 {
		// re-render with the returns replaced: splice on the original text is not possible after nested rewriting, so only
		// handle bodies whose rendering left the text unchanged
		orig := string(src[nz.offset(lit.Body.Pos()):nz.offset(lit.Body.End())])
		if body != orig {
			return "", false
		}
		base := nz.offset(lit.Body.Pos())
		var sb strings.Builder
		cur := 0
		for _, r := range rets {
			sb.WriteString(orig[cur : r.from-base])
			sb.WriteString("continue " + label)
			cur = r.to - base
		}
		sb.WriteString(orig[cur:])
		body = sb.String()
	}
	var sb strings.Builder
	if len(rets) > 0 {
		sb.WriteString(label + ":\n")
	}
	keyTxt, valTxt := kv[0], kv[1]
	if h.rng.Value == nil {
		sb.WriteString("for " + keyTxt + " := range " + nz.render(h.rng.X, h.pkg, h.src, ns, depth+1) + " {")
	} else {
		sb.WriteString("for " + keyTxt + ", " + valTxt + " := range " + nz.render(h.rng.X, h.pkg, h.src, ns, depth+1) + " {")
	}
	for _, f := range h.filters {
		sb.WriteString(" if " + nz.render(f, h.pkg, h.src, ns, depth+1) + " { continue };")
	}
	// keep the loop variables "used" even when the body ignores them
	for _, nme := range []string{keyTxt, valTxt} {
		if strings.HasPrefix(nme, "zzNormV") {
			sb.WriteString(" _ = " + nme + ";")
		}
	}
	sb.WriteString(" " + body + " }")
	return sb.String(), true
}
