package main

// Field index and effect summaries (engine E0/E1).

import (
	"go/token"
	"go/types"
	"sort"
	"strings"

	"golang.org/x/tools/go/ssa"
)

// Write is one (direct or call-site-attributed) mutation of an abstract location.
type Write struct {
	Loc   string // abstract location ("internal/graph.Node.Layer", "...Layer.Nodes[]" element/order, "...{}" map cell)
	Fn    *ssa.Function
	Instr ssa.Instruction
	Fresh bool      // the object written is allocated in Fn (construction, not mutation)
	Val   ssa.Value // stored value (plain stores only)
	Base  ssa.Value // object whose field is written
	Via   string    // "" direct store, else callee name for writes attributed to a call site
}

type ListEffect struct {
	Op        string // remove | add
	ListLoc   string // abstract location of the list, or ""
	ListParam int    // list is reached through parameter i of the function (pointer to slice), or -1
	ListOf    int    // ListLoc is a field of the object in parameter i (or of an object reached from it), -1 unknown
	ElemParam int    // element is parameter j, or -1
}

type Effects struct {
	Writes        []Write                 // direct + call-site-attributed writes in this function
	ParamWrites   map[int]map[string]bool // param index -> kinds {"deref","elem","map"} written through it (transitive)
	Mod           map[string]bool         // transitive closure: every non-fresh location written by the function or its callees
	GlobalsMod    map[*ssa.Global]bool
	List          []ListEffect // transitive, parameter-relative
	FreeVarWrites map[int]bool
}

type fxState struct {
	listPrim map[*ssa.Function]string // primitive list functions recognised by shape: "remove" | "add"
}

type origin struct {
	Kind  string // fieldaddr | fieldload | param | freevar | local | global | fresh | unknown
	Loc   string
	Param int
	Base  ssa.Value
	Glob  *ssa.Global
}

// originsOf classifies where a pointer/slice/map value comes from (through slicing, conversion, phi).
func originsOf(v ssa.Value, depth int) []origin {
	if depth > 6 {
		return []origin{{Kind: "unknown", Param: -1}}
	}
	switch x := v.(type) {
	case *ssa.Slice:
		return originsOf(x.X, depth+1)
	case *ssa.ChangeType:
		return originsOf(x.X, depth+1)
	case *ssa.Convert:
		return originsOf(x.X, depth+1)
	case *ssa.MakeInterface:
		return originsOf(x.X, depth+1)
	case *ssa.Phi:
		var out []origin
		for _, e := range x.Edges {
			out = append(out, originsOf(e, depth+1)...)
		}
		return out
	case *ssa.Parameter:
		for i, p := range x.Parent().Params {
			if p == x {
				return []origin{{Kind: "param", Param: i}}
			}
		}
	case *ssa.FreeVar:
		for i, p := range x.Parent().FreeVars {
			if p == x {
				return []origin{{Kind: "freevar", Param: i}}
			}
		}
	case *ssa.FieldAddr:
		base, steps := fieldChain(x)
		o := origin{Kind: "fieldaddr", Loc: locOfSteps(steps), Base: base, Param: -1}
		if g, ok := base.(*ssa.Global); ok {
			o.Glob = g
		}
		return []origin{o}
	case *ssa.Global:
		return []origin{{Kind: "global", Glob: x, Param: -1}}
	case *ssa.Alloc:
		return []origin{{Kind: "local", Param: -1, Base: x}}
	case *ssa.MakeSlice, *ssa.MakeMap:
		return []origin{{Kind: "fresh", Param: -1}}
	case *ssa.UnOp:
		if x.Op == token.MUL {
			switch a := x.X.(type) {
			case *ssa.FieldAddr:
				base, steps := fieldChain(a)
				o := origin{Kind: "fieldload", Loc: locOfSteps(steps), Base: base, Param: -1}
				if g, ok := base.(*ssa.Global); ok {
					o.Glob = g
				}
				return []origin{o}
			case *ssa.Global:
				return []origin{{Kind: "global", Glob: a, Param: -1}}
			case *ssa.Alloc:
				// value of a local variable: follow the stores into the cell
				var out []origin
				if a.Referrers() != nil {
					for _, r := range *a.Referrers() {
						if st, ok := r.(*ssa.Store); ok && st.Addr == a {
							out = append(out, originsOf(st.Val, depth+1)...)
						}
					}
				}
				if len(out) == 0 {
					out = []origin{{Kind: "local", Param: -1, Base: a}}
				}
				return out
			case *ssa.FreeVar:
				for i, p := range a.Parent().FreeVars {
					if p == a {
						return []origin{{Kind: "freevar", Param: i}}
					}
				}
			case *ssa.Parameter:
				// *p where p is a pointer parameter: the pointee value (e.g. *list)
				for i, p := range a.Parent().Params {
					if p == a {
						return []origin{{Kind: "paramderef", Param: i}}
					}
				}
			case *ssa.IndexAddr:
				return []origin{{Kind: "unknown", Param: -1}}
			}
		}
	case *ssa.Call:
		// append(x, ...) keeps x's backing array (possibly)
		if b, ok := x.Call.Value.(*ssa.Builtin); ok && b.Name() == "append" && len(x.Call.Args) > 0 {
			return originsOf(x.Call.Args[0], depth+1)
		}
		if isFreshObject(x, 0) {
			return []origin{{Kind: "fresh", Param: -1}}
		}
	}
	return []origin{{Kind: "unknown", Param: -1}}
}

// external functions that mutate the elements/cells of an argument: name -> argument index
var extMutators = map[string]int{
	"sort.Slice": 0, "sort.SliceStable": 0, "sort.Ints": 0, "sort.Float64s": 0, "sort.Strings": 0, "sort.Sort": 0, "sort.Stable": 0,
	"slices.Sort": 0, "slices.SortFunc": 0, "slices.SortStableFunc": 0, "slices.Reverse": 0,
	"maps.Copy": 0, "maps.DeleteFunc": 0,
	"slices.Delete": 0, "slices.DeleteFunc": 0, "slices.Insert": 0, "slices.Compact": 0, "slices.CompactFunc": 0, "slices.Replace": 0,
	"math/rand.Shuffle": -1, "(*math/rand.Rand).Shuffle": -1,
}

func (m *Model) fxInit() {
	if m.effects != nil {
		return
	}
	m.effects = map[*ssa.Function]*Effects{}
	m.fx = &fxState{listPrim: map[*ssa.Function]string{}}
	for _, f := range m.Funcs {
		m.effects[f] = &Effects{ParamWrites: map[int]map[string]bool{}, Mod: map[string]bool{}, GlobalsMod: map[*ssa.Global]bool{}, FreeVarWrites: map[int]bool{}}
	}
	// list primitives by shape
	for _, f := range m.Funcs {
		if k := listPrimitiveKind(f); k != "" {
			m.fx.listPrim[f] = k
			m.effects[f].List = []ListEffect{{Op: k, ListParam: 0, ListOf: -1, ElemParam: 1}}
		}
	}
	// direct writes
	for _, f := range m.Funcs {
		m.directWrites(f)
	}
	// fixpoint: propagate param-relative writes and list effects through call sites
	for iter := 0; iter < 20; iter++ {
		changed := false
		for _, f := range m.Funcs {
			if m.propagateCalls(f) {
				changed = true
			}
		}
		if !changed {
			break
		}
	}
	// Mod closure over the call graph
	for _, f := range m.Funcs {
		e := m.effects[f]
		for _, w := range e.Writes {
			if !w.Fresh {
				e.Mod[w.Loc] = true
			}
		}
	}
	for iter := 0; iter < 50; iter++ {
		changed := false
		for _, f := range m.Funcs {
			e := m.effects[f]
			eachInstr(f, func(in ssa.Instruction) {
				var callees []*ssa.Function
				switch x := in.(type) {
				case ssa.CallInstruction:
					callees = m.Callees(x)
				case *ssa.MakeClosure:
					// creating a closure is not calling it; the call graph has the invoke edge where it runs
				}
				for _, c := range callees {
					ce := m.effects[c]
					if ce == nil {
						continue
					}
					for l := range ce.Mod {
						if !e.Mod[l] {
							e.Mod[l] = true
							changed = true
						}
					}
					for g := range ce.GlobalsMod {
						if !e.GlobalsMod[g] {
							e.GlobalsMod[g] = true
							changed = true
						}
					}
				}
			})
		}
		if !changed {
			break
		}
	}
}

func (m *Model) Effects(f *ssa.Function) *Effects {
	m.fxInit()
	return m.effects[f]
}

// listPrimitiveKind recognises (*EdgeList).Remove / Add by shape: a function with a pointer-to-slice first
// parameter and an element second parameter that stores append((*p)[:i], (*p)[i+1:]...) / append(*p, e) through p.
func listPrimitiveKind(f *ssa.Function) string {
	if len(f.Params) != 2 {
		return ""
	}
	pt, ok := f.Params[0].Type().Underlying().(*types.Pointer)
	if !ok {
		return ""
	}
	sl, ok := pt.Elem().Underlying().(*types.Slice)
	if !ok {
		return ""
	}
	// the second parameter is the element itself (removal / insertion by identity, not by position)
	if !types.Identical(sl.Elem(), f.Params[1].Type()) {
		return ""
	}
	kind := ""
	eachInstr(f, func(in ssa.Instruction) {
		st, ok := in.(*ssa.Store)
		if !ok || st.Addr != f.Params[0] {
			return
		}
		call, ok := st.Val.(*ssa.Call)
		if !ok {
			return
		}
		b, ok := call.Call.Value.(*ssa.Builtin)
		if !ok || b.Name() != "append" {
			return
		}
		a0 := call.Call.Args[0]
		if sl, ok := a0.(*ssa.Slice); ok && sl.High != nil && sl.Low == nil {
			a1 := call.Call.Args[1]
			if ct, ok := a1.(*ssa.ChangeType); ok {
				a1 = ct.X
			}
			if sl2, ok := a1.(*ssa.Slice); ok && sl2.Low != nil {
				kind = "remove"
				return
			}
		}
		if u, ok := a0.(*ssa.UnOp); ok && u.Op == token.MUL && u.X == f.Params[0] {
			kind = "add"
		}
	})
	return kind
}

func (m *Model) addWrite(f *ssa.Function, w Write) {
	e := m.effects[f]
	for _, x := range e.Writes {
		if x.Loc == w.Loc && x.Instr == w.Instr {
			return
		}
	}
	w.Fn = f
	e.Writes = append(e.Writes, w)
}

func (m *Model) noteParamWrite(f *ssa.Function, i int, kind string) bool {
	e := m.effects[f]
	if e.ParamWrites[i] == nil {
		e.ParamWrites[i] = map[string]bool{}
	}
	if e.ParamWrites[i][kind] {
		return false
	}
	e.ParamWrites[i][kind] = true
	return true
}

// attribute a mutation of kind (deref|elem|map) of value v, happening at instruction in (in function f).
func (m *Model) attribute(f *ssa.Function, in ssa.Instruction, v ssa.Value, kind, via string, val ssa.Value) bool {
	changed := false
	for _, o := range originsOf(v, 0) {
		suffix := ""
		switch kind {
		case "elem":
			suffix = "[]"
		case "map":
			suffix = "{}"
		}
		switch o.Kind {
		case "fieldaddr":
			if kind == "deref" {
				if o.Glob != nil {
					m.effects[f].GlobalsMod[o.Glob] = true
				}
				_, steps := fieldChain(v)
				locs := []string{o.Loc}
				if len(steps) > 0 {
					locs = leafLocs(steps)
				}
				for _, l := range locs {
					m.addWrite(f, Write{Loc: l, Instr: in, Fresh: isFreshObject(o.Base, 0), Base: o.Base, Via: via, Val: val})
				}
			} else {
				// element/cell of a slice/map held by value inside a struct whose address we have: treat like a load
				m.addWrite(f, Write{Loc: o.Loc + suffix, Instr: in, Fresh: isFreshObject(o.Base, 0), Base: o.Base, Via: via, Val: val})
			}
		case "fieldload":
			if kind == "elem" || kind == "map" {
				if o.Glob != nil {
					m.effects[f].GlobalsMod[o.Glob] = true
				}
				m.addWrite(f, Write{Loc: o.Loc + suffix, Instr: in, Fresh: false, Base: o.Base, Via: via, Val: val})
			} else {
				// store through a pointer that was loaded from a field
				m.addWrite(f, Write{Loc: "*(" + o.Loc + ")", Instr: in, Base: o.Base, Via: via, Val: val})
			}
		case "param":
			if m.noteParamWrite(f, o.Param, kind) {
				changed = true
			}
		case "paramderef":
			// (*p)[i] = x : element write through pointer-to-slice param
			if m.noteParamWrite(f, o.Param, "deref") {
				changed = true
			}
		case "freevar":
			m.effects[f].FreeVarWrites[o.Param] = true
		case "global":
			m.effects[f].GlobalsMod[o.Glob] = true
			m.addWrite(f, Write{Loc: "global:" + o.Glob.Pkg.Pkg.Path() + "." + o.Glob.Name() + suffix, Instr: in, Via: via, Val: val})
		}
	}
	return changed
}

func (m *Model) directWrites(f *ssa.Function) {
	eachInstr(f, func(in ssa.Instruction) {
		switch x := in.(type) {
		case *ssa.Store:
			ai := classifyAddr(x.Addr)
			switch {
			case ai.Global != nil:
				m.effects[f].GlobalsMod[ai.Global] = true
				loc := "global:" + ai.Global.Pkg.Pkg.Path() + "." + ai.Global.Name()
				m.addWrite(f, Write{Loc: loc, Instr: in, Val: x.Val})
			case ai.Elem:
				if ia, ok := x.Addr.(*ssa.IndexAddr); ok {
					m.attribute(f, in, ia.X, "elem", "", x.Val)
				}
			case len(ai.Locs) > 0:
				fresh := isFreshObject(ai.Base, 0)
				for _, l := range ai.Locs {
					m.addWrite(f, Write{Loc: l, Instr: in, Fresh: fresh, Val: x.Val, Base: ai.Base})
				}
			case ai.Deref:
				m.attribute(f, in, x.Addr, "deref", "", x.Val)
			}
		case *ssa.MapUpdate:
			m.attribute(f, in, x.Map, "map", "", x.Value)
		case ssa.CallInstruction:
			c := x.Common()
			if b, ok := c.Value.(*ssa.Builtin); ok {
				switch b.Name() {
				case "copy":
					m.attribute(f, in, c.Args[0], "elem", "builtin.copy", nil)
				case "clear", "delete":
					k := "map"
					if _, ok := c.Args[0].Type().Underlying().(*types.Slice); ok {
						k = "elem"
					}
					m.attribute(f, in, c.Args[0], k, "builtin."+b.Name(), nil)
				}
				return
			}
			name := calleeFullName(c)
			if idx, ok := extMutators[name]; ok && idx >= 0 && idx < len(c.Args) {
				k := "elem"
				if _, ok := c.Args[idx].Type().Underlying().(*types.Map); ok {
					k = "map"
				}
				m.attribute(f, in, c.Args[idx], k, name, nil)
			}
		}
	})
}

// propagateCalls maps callee parameter-relative writes and list effects to the caller at every call site.
func (m *Model) propagateCalls(f *ssa.Function) bool {
	changed := false
	e := m.effects[f]
	eachInstr(f, func(in ssa.Instruction) {
		site, ok := in.(ssa.CallInstruction)
		if !ok {
			return
		}
		c := site.Common()
		if _, ok := c.Value.(*ssa.Builtin); ok {
			return
		}
		args := c.Args
		for _, callee := range m.Callees(site) {
			ce := m.effects[callee]
			if ce == nil {
				continue
			}
			// invoke-mode calls: receiver is c.Value, params[0] is the receiver in the callee
			a := args
			if c.IsInvoke() {
				a = append([]ssa.Value{c.Value}, args...)
			}
			// closures: free variables are bound at MakeClosure; skip
			for i, kinds := range ce.ParamWrites {
				if i >= len(a) {
					continue
				}
				for k := range kinds {
					if m.attribute(f, in, a[i], k, funcKey(callee), nil) {
						changed = true
					}
				}
			}
			for _, le := range ce.List {
				ne := ListEffect{Op: le.Op, ListLoc: le.ListLoc, ListParam: -1, ListOf: -1, ElemParam: -1}
				if le.ListParam >= 0 && le.ListParam < len(a) {
					for _, o := range originsOf(a[le.ListParam], 0) {
						switch o.Kind {
						case "fieldaddr":
							ne.ListLoc = o.Loc
							for _, bo := range originsOf(o.Base, 0) {
								if bo.Kind == "param" {
									ne.ListOf = bo.Param
								}
							}
						case "param":
							ne.ListParam = o.Param
						}
					}
				} else if le.ListOf >= 0 && le.ListOf < len(a) {
					for _, bo := range originsOf(a[le.ListOf], 0) {
						if bo.Kind == "param" {
							ne.ListOf = bo.Param
						}
					}
				}
				if le.ElemParam >= 0 && le.ElemParam < len(a) {
					for _, o := range originsOf(a[le.ElemParam], 0) {
						if o.Kind == "param" {
							ne.ElemParam = o.Param
						}
					}
				}
				if ne.ListLoc == "" && ne.ListParam < 0 {
					continue
				}
				dup := false
				for _, x := range e.List {
					if x == ne {
						dup = true
					}
				}
				if !dup {
					e.List = append(e.List, ne)
					changed = true
				}
			}
		}
	})
	return changed
}

// WritesTo returns every (non-control unless asked) write to a location across the module, sorted.
func (m *Model) WritesTo(loc string) []Write {
	m.fxInit()
	var out []Write
	for _, f := range m.Funcs {
		for _, w := range m.effects[f].Writes {
			if w.Loc == loc {
				out = append(out, w)
			}
		}
	}
	sort.Slice(out, func(i, j int) bool { return out[i].Instr.Pos() < out[j].Instr.Pos() })
	return out
}

// AllWrites returns every write whose location has the given prefix.
func (m *Model) AllWrites(prefix string) []Write {
	m.fxInit()
	var out []Write
	for _, f := range m.Funcs {
		for _, w := range m.effects[f].Writes {
			if strings.HasPrefix(w.Loc, prefix) {
				out = append(out, w)
			}
		}
	}
	return out
}

func modList(e *Effects) []string {
	var s []string
	for l := range e.Mod {
		s = append(s, l)
	}
	sort.Strings(s)
	return s
}
