package main

import (
	"go/token"
	"go/types"
	"sort"
	"strings"

	"golang.org/x/tools/go/ssa"
)

// ---------- abstract field locations ----------
//
// One abstract location per (outermost named struct type, field path). Embedded fields are
// transparent: n.W (Node -> Size -> W) is "internal/graph.Node.W"; e.Delta (Edge -> edge -> Delta) is
// "internal/graph.Edge.Delta". A whole-struct store n.Size = v is a store to every leaf below it.

const (
	igNode  = "internal/graph.Node"
	igEdge  = "internal/graph.Edge"
	igLayer = "internal/graph.Layer"
	igDG    = "internal/graph.DGraph"
	igPar   = "internal/graph.Params"
	pubNode = "graph.Node"
	pubEdge = "graph.Edge"
	pubLay  = "graph.Layout"
)

func namedKey(t types.Type) string {
	t = types.Unalias(t)
	if p, ok := t.(*types.Pointer); ok {
		t = types.Unalias(p.Elem())
	}
	if n, ok := t.(*types.Named); ok {
		o := n.Obj()
		if o.Pkg() != nil {
			return shortPkg(o.Pkg().Path()) + "." + o.Name()
		}
		return o.Name()
	}
	return t.String()
}

func structOf(t types.Type) *types.Struct {
	t = types.Unalias(t)
	if p, ok := t.Underlying().(*types.Pointer); ok {
		t = p.Elem()
	}
	s, _ := t.Underlying().(*types.Struct)
	return s
}

type fieldStep struct {
	owner types.Type // struct (or pointer to struct) type the field is selected from
	idx   int
}

func (s fieldStep) field() *types.Var { return structOf(s.owner).Field(s.idx) }

// fieldChain walks FieldAddr/Field chains upward. It returns the base value the chain starts from and
// the steps from the outermost struct to the selected field.
func fieldChain(v ssa.Value) (base ssa.Value, steps []fieldStep) {
	for {
		switch x := v.(type) {
		case *ssa.FieldAddr:
			steps = append([]fieldStep{{x.X.Type(), x.Field}}, steps...)
			v = x.X
			// address arithmetic continues only inside the same object
			if _, ok := v.(*ssa.FieldAddr); ok {
				continue
			}
			return v, steps
		case *ssa.Field:
			steps = append([]fieldStep{{x.X.Type(), x.Field}}, steps...)
			v = x.X
			if _, ok := v.(*ssa.Field); ok {
				continue
			}
			// a struct value loaded from a field address continues the chain
			if u, ok := v.(*ssa.UnOp); ok && u.Op == token.MUL {
				if _, ok := u.X.(*ssa.FieldAddr); ok {
					v = u.X
					continue
				}
			}
			return v, steps
		}
		return v, steps
	}
}

// locOfSteps renders the location; embedded fields are dropped unless they are the last step.
func locOfSteps(steps []fieldStep) string {
	if len(steps) == 0 {
		return ""
	}
	owner := namedKey(steps[0].owner)
	var parts []string
	for i, s := range steps {
		f := s.field()
		if f.Embedded() && i != len(steps)-1 {
			continue
		}
		parts = append(parts, f.Name())
	}
	return owner + "." + strings.Join(parts, ".")
}

// leafLocs expands a location whose type is a struct into its leaves (plus itself).
func leafLocs(steps []fieldStep) []string {
	if len(steps) == 0 {
		return nil
	}
	last := steps[len(steps)-1].field()
	out := []string{locOfSteps(steps)}
	if st, ok := types.Unalias(last.Type()).Underlying().(*types.Struct); ok {
		owner := namedKey(steps[0].owner)
		var prefix []string
		for _, s := range steps {
			f := s.field()
			if f.Embedded() {
				continue
			}
			prefix = append(prefix, f.Name())
		}
		var rec func(st *types.Struct, pre []string, depth int)
		rec = func(st *types.Struct, pre []string, depth int) {
			if depth > 4 {
				return
			}
			for i := 0; i < st.NumFields(); i++ {
				f := st.Field(i)
				p := pre
				if !f.Embedded() {
					p = append(append([]string{}, pre...), f.Name())
				}
				if sub, ok := types.Unalias(f.Type()).Underlying().(*types.Struct); ok {
					rec(sub, p, depth+1)
				} else if f.Name() != "_" {
					out = append(out, owner+"."+strings.Join(p, "."))
				}
			}
		}
		rec(st, prefix, 0)
	}
	return out
}

// addrInfo classifies the address operand of a store / the pointer a value was loaded from.
type addrInfo struct {
	Locs   []string  // abstract field locations (leaf-expanded); with "[]" suffix for element stores
	Base   ssa.Value // value the field chain starts from (object pointer), or the Alloc/Global/Param
	Global *ssa.Global
	Local  *ssa.Alloc // non-escaping or escaping local cell addressed directly
	Elem   bool       // store into an element of a slice/array
	Deref  bool       // store through a plain pointer value (param, free var, loaded pointer)
}

func classifyAddr(addr ssa.Value) addrInfo {
	var ai addrInfo
	v := addr
	// element of slice/array?
	if ia, ok := v.(*ssa.IndexAddr); ok {
		ai.Elem = true
		x := ia.X
		// slice loaded from a field
		if u, ok := x.(*ssa.UnOp); ok && u.Op == token.MUL {
			x = u.X
		}
		if sl, ok := x.(*ssa.Slice); ok {
			x = sl.X
			if u, ok := x.(*ssa.UnOp); ok && u.Op == token.MUL {
				x = u.X
			}
		}
		sub := classifyAddr(x)
		for _, l := range sub.Locs {
			ai.Locs = append(ai.Locs, l+"[]")
		}
		ai.Base, ai.Global, ai.Local = sub.Base, sub.Global, sub.Local
		if len(sub.Locs) == 0 && sub.Global == nil && sub.Local == nil {
			ai.Base = ia.X
			ai.Deref = true
		}
		return ai
	}
	base, steps := fieldChain(v)
	if len(steps) > 0 {
		ai.Locs = leafLocs(steps)
		ai.Base = base
		if g, ok := base.(*ssa.Global); ok {
			ai.Global = g
		}
		if a, ok := base.(*ssa.Alloc); ok {
			ai.Local = a
		}
		return ai
	}
	switch x := v.(type) {
	case *ssa.Global:
		ai.Global = x
		ai.Base = x
	case *ssa.Alloc:
		ai.Local = x
		ai.Base = x
	default:
		ai.Deref = true
		ai.Base = v
	}
	return ai
}

// isFreshObject reports whether v is an object allocated in the current function (a composite literal /
// new) or returned by a same-module constructor whose every return value is such an allocation.
func isFreshObject(v ssa.Value, depth int) bool {
	if depth > 3 {
		return false
	}
	switch x := v.(type) {
	case *ssa.Alloc:
		return true
	case *ssa.Call:
		if c := x.Call.StaticCallee(); c != nil && c.Blocks != nil && inModule(c) {
			n := 0
			for _, b := range c.Blocks {
				for _, in := range b.Instrs {
					if r, ok := in.(*ssa.Return); ok {
						if len(r.Results) != 1 || !isFreshObject(r.Results[0], depth+1) {
							return false
						}
						n++
					}
				}
			}
			return n > 0
		}
	case *ssa.Phi:
		for _, e := range x.Edges {
			if !isFreshObject(e, depth+1) {
				return false
			}
		}
		return len(x.Edges) > 0
	case *ssa.UnOp:
		// load of a local cell that only ever holds fresh objects (e.g. spilled variable)
		if x.Op == token.MUL {
			if a, ok := x.X.(*ssa.Alloc); ok && a.Referrers() != nil {
				n := 0
				for _, r := range *a.Referrers() {
					if st, ok := r.(*ssa.Store); ok && st.Addr == a {
						if !isFreshObject(st.Val, depth+1) {
							return false
						}
						n++
					}
				}
				return n > 0
			}
		}
	}
	return false
}

// ---------- post-dominators and control dependence ----------

type cfgInfo struct {
	fn    *ssa.Function
	n     int
	pdom  [][]bool // pdom[b][a] : a post-dominates b (a is on every path from b to exit)
	exits []int
}

var cfgCache = map[*ssa.Function]*cfgInfo{}

func getCFG(fn *ssa.Function) *cfgInfo {
	if c, ok := cfgCache[fn]; ok {
		return c
	}
	n := len(fn.Blocks)
	c := &cfgInfo{fn: fn, n: n}
	// virtual exit = index n
	full := func() []bool {
		s := make([]bool, n+1)
		for i := range s {
			s[i] = true
		}
		return s
	}
	pd := make([][]bool, n+1)
	for i := 0; i <= n; i++ {
		pd[i] = full()
	}
	pd[n] = make([]bool, n+1)
	pd[n][n] = true
	succs := make([][]int, n)
	for i, b := range fn.Blocks {
		for _, s := range b.Succs {
			succs[i] = append(succs[i], s.Index)
		}
		if len(b.Succs) == 0 {
			succs[i] = append(succs[i], n)
			c.exits = append(c.exits, i)
		}
	}
	changed := true
	for changed {
		changed = false
		for i := n - 1; i >= 0; i-- {
			nw := full()
			for _, s := range succs[i] {
				for k := 0; k <= n; k++ {
					nw[k] = nw[k] && pd[s][k]
				}
			}
			nw[i] = true
			for k := 0; k <= n; k++ {
				if nw[k] != pd[i][k] {
					changed = true
				}
			}
			pd[i] = nw
		}
	}
	c.pdom = pd
	cfgCache[fn] = c
	return c
}

// postDominates: a post-dominates b.
func (c *cfgInfo) postDominates(a, b *ssa.BasicBlock) bool { return c.pdom[b.Index][a.Index] }

// ctrlDep is one control dependence: block depends on the branch `If` taking successor index Branch (0 = true).
type ctrlDep struct {
	If     *ssa.If
	Branch int
}

// controlDeps returns the direct control dependences of block b (including loop headers).
func controlDeps(b *ssa.BasicBlock) []ctrlDep {
	c := getCFG(b.Parent())
	var out []ctrlDep
	for _, a := range b.Parent().Blocks {
		if len(a.Succs) != 2 {
			continue
		}
		iff, ok := a.Instrs[len(a.Instrs)-1].(*ssa.If)
		if !ok {
			continue
		}
		for i, s := range a.Succs {
			// b control-dependent on edge a->s: b post-dominates s (or is s) and b does not strictly post-dominate a
			if (s == b || c.postDominates(b, s)) && !(a != b && c.postDominates(b, a)) {
				out = append(out, ctrlDep{iff, i})
			}
		}
	}
	return out
}

// transitiveControlDeps closes controlDeps over the blocks of the conditions.
func transitiveControlDeps(b *ssa.BasicBlock) []ctrlDep {
	seen := map[ctrlDep]bool{}
	var out []ctrlDep
	var visit func(b *ssa.BasicBlock)
	visitedBlocks := map[*ssa.BasicBlock]bool{}
	visit = func(b *ssa.BasicBlock) {
		if visitedBlocks[b] {
			return
		}
		visitedBlocks[b] = true
		for _, d := range controlDeps(b) {
			if !seen[d] {
				seen[d] = true
				out = append(out, d)
				visit(d.If.Block())
			}
		}
	}
	visit(b)
	return out
}

// iterationControlDeps: the transitive control dependences of b that do not pass through a loop header, i.e. the tests
// made in the current iteration (a block inside a loop also depends, through the header, on the branches that let earlier
// iterations continue).
func iterationControlDeps(b *ssa.BasicBlock, loops []*loopInfo) []ctrlDep {
	isHead := map[*ssa.BasicBlock]bool{}
	for _, l := range loops {
		isHead[l.Head] = true
	}
	seen := map[ctrlDep]bool{}
	var out []ctrlDep
	visited := map[*ssa.BasicBlock]bool{}
	var visit func(b *ssa.BasicBlock)
	visit = func(b *ssa.BasicBlock) {
		if visited[b] {
			return
		}
		visited[b] = true
		for _, d := range controlDeps(b) {
			if isHead[d.If.Block()] {
				continue
			}
			if !seen[d] {
				seen[d] = true
				out = append(out, d)
				visit(d.If.Block())
			}
		}
	}
	visit(b)
	return out
}

// reachableFrom returns the set of blocks reachable from block b (excluding b itself unless on a cycle),
// optionally starting after instruction index i in b (the rest of b is always "reachable").
func blocksReachableFrom(b *ssa.BasicBlock) map[*ssa.BasicBlock]bool {
	seen := map[*ssa.BasicBlock]bool{}
	var stack []*ssa.BasicBlock
	stack = append(stack, b.Succs...)
	for len(stack) > 0 {
		x := stack[len(stack)-1]
		stack = stack[:len(stack)-1]
		if seen[x] {
			continue
		}
		seen[x] = true
		stack = append(stack, x.Succs...)
	}
	return seen
}

// instrIndex returns the index of instruction in within its block.
func instrIndex(in ssa.Instruction) int {
	for i, x := range in.Block().Instrs {
		if x == in {
			return i
		}
	}
	return -1
}

// instrDominates: a executes before b on every path to b.
func instrDominates(a, b ssa.Instruction) bool {
	if a.Block() == b.Block() {
		return instrIndex(a) < instrIndex(b)
	}
	return a.Block().Dominates(b.Block())
}

// natural loops: for each back edge t->h (h dominates t) the loop body.
type loopInfo struct {
	Head *ssa.BasicBlock
	Body map[*ssa.BasicBlock]bool
}

func naturalLoops(fn *ssa.Function) []*loopInfo {
	byHead := map[*ssa.BasicBlock]*loopInfo{}
	for _, t := range fn.Blocks {
		for _, h := range t.Succs {
			if h.Dominates(t) {
				l := byHead[h]
				if l == nil {
					l = &loopInfo{Head: h, Body: map[*ssa.BasicBlock]bool{h: true}}
					byHead[h] = l
				}
				stack := []*ssa.BasicBlock{t}
				for len(stack) > 0 {
					x := stack[len(stack)-1]
					stack = stack[:len(stack)-1]
					if l.Body[x] {
						continue
					}
					l.Body[x] = true
					stack = append(stack, x.Preds...)
				}
			}
		}
	}
	var out []*loopInfo
	for _, l := range byHead {
		out = append(out, l)
	}
	sort.Slice(out, func(i, j int) bool { return out[i].Head.Index < out[j].Head.Index })
	return out
}

// loopsContaining returns the loops whose body contains b, innermost (smallest) first.
func loopsContaining(loops []*loopInfo, b *ssa.BasicBlock) []*loopInfo {
	var out []*loopInfo
	for _, l := range loops {
		if l.Body[b] {
			out = append(out, l)
		}
	}
	sort.Slice(out, func(i, j int) bool { return len(out[i].Body) < len(out[j].Body) })
	return out
}

// ---------- misc ----------

func derefType(t types.Type) types.Type {
	if p, ok := types.Unalias(t).Underlying().(*types.Pointer); ok {
		return p.Elem()
	}
	return t
}

func isRefType(t types.Type) bool {
	switch types.Unalias(t).Underlying().(type) {
	case *types.Pointer, *types.Map, *types.Slice, *types.Chan, *types.Signature, *types.Interface:
		return true
	}
	return false
}

// eachInstr visits all instructions of f.
func eachInstr(f *ssa.Function, fn func(in ssa.Instruction)) {
	for _, b := range f.Blocks {
		for _, in := range b.Instrs {
			fn(in)
		}
	}
}

// calleeName: "pkgpath.Name" or "(recv).Name" for static callees and builtins.
func calleeFullName(c *ssa.CallCommon) string {
	if b, ok := c.Value.(*ssa.Builtin); ok {
		return "builtin." + b.Name()
	}
	if f := c.StaticCallee(); f != nil {
		if o := f.Origin(); o != nil {
			f = o
		}
		if f.Object() != nil {
			return f.Object().(*types.Func).FullName()
		}
		return f.String()
	}
	if c.IsInvoke() {
		return "invoke " + c.Method.FullName()
	}
	return "dynamic"
}

func stripLoad(v ssa.Value) ssa.Value {
	if u, ok := v.(*ssa.UnOp); ok && u.Op == token.MUL {
		return u.X
	}
	return v
}
