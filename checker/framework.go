package main

import (
	"bufio"
	"crypto/sha1"
	"encoding/json"
	"fmt"
	"os"
	"path/filepath"
	"sort"
	"strings"
	"time"
)

// An Obligation is one rule instance that was decided on this run.
// Key identifies rule+construct (package, function, field, callee) and never contains a line number.
type Obligation struct {
	Rule    string `json:"rule"`
	Key     string `json:"key"`
	Pos     string `json:"pos,omitempty"`
	Desc    string `json:"desc,omitempty"`
	Verdict string `json:"verdict"` // holds | violation | undecided
	Detail  string `json:"detail,omitempty"`
	Control bool   `json:"control,omitempty"` // lies in a positive-control overlay
}

type RuleResult struct {
	Rule        string
	Obligations []Obligation
	Stats       map[string]int
	Notes       []string
}

func (r *RuleResult) add(o Obligation) { o.Rule = r.Rule; r.Obligations = append(r.Obligations, o) }
func (r *RuleResult) holds(key, pos, desc string) {
	r.add(Obligation{Key: key, Pos: pos, Desc: desc, Verdict: "holds"})
}
func (r *RuleResult) violation(key, pos, desc, detail string) {
	r.add(Obligation{Key: key, Pos: pos, Desc: desc, Verdict: "violation", Detail: detail})
}
func (r *RuleResult) undecided(key, pos, desc, detail string) {
	r.add(Obligation{Key: key, Pos: pos, Desc: desc, Verdict: "undecided", Detail: detail})
}
func (r *RuleResult) stat(k string, n int) {
	if r.Stats == nil {
		r.Stats = map[string]int{}
	}
	r.Stats[k] += n
}

type Rule struct {
	ID    string
	Doc   string // the rule applied, in one or two sentences
	Run   func(m *Model, r *RuleResult)
	Floor int      // minimum number of non-control obligations confirmed by hand on the reference tree
	Ctl   []string // positive-control overlay files (under /verif/posctl) the rule must flag
	// MinCtl is the number of control findings that must fire (default: 1 per overlay file)
	MinCtl int
}

var rules = map[string]*Rule{}

func register(r *Rule) { rules[r.ID] = r }

type Property struct {
	ID          string
	Rules       []string
	Kind        string // "sufficient" / "necessary clauses"
	Explanation string // what the rules decide and what they do not
	Assumptions []string
	Tech        string   // a few words naming the deciding method
	Core        []string // rules without which the property is not claimed
}

// finalizeProps drops rules that are not built (never left as a promise) and un-claims properties whose core rule is missing.
func finalizeProps() {
	for id, p := range properties {
		var keep []string
		missingCore := ""
		for _, rid := range p.Rules {
			if rules[rid] != nil {
				keep = append(keep, rid)
				continue
			}
			for _, c := range p.Core {
				if c == rid {
					missingCore = rid
				}
			}
		}
		p.Rules = keep
		if missingCore != "" || len(keep) == 0 {
			delete(properties, id)
			naReasons[id] = "the deciding rule " + missingCore + " is not built; the remaining rules do not decide a clause of this property on their own"
		}
	}
}

var properties = map[string]*Property{}

func registerProp(p *Property) { properties[p.ID] = p }

// ---- known findings ----

type knownEntry struct {
	Kind  string // known | fixed
	Props map[string]bool
	Rule  string
	Key   string
	Text  string
}

func readKnown(path string) ([]knownEntry, error) {
	f, err := os.Open(path)
	if err != nil {
		if os.IsNotExist(err) {
			return nil, nil
		}
		return nil, err
	}
	defer f.Close()
	var out []knownEntry
	sc := bufio.NewScanner(f)
	sc.Buffer(make([]byte, 1<<20), 1<<20)
	for sc.Scan() {
		line := strings.TrimSpace(sc.Text())
		if line == "" || strings.HasPrefix(line, "#") {
			continue
		}
		var e knownEntry
		switch {
		case strings.HasPrefix(line, "known:"):
			e.Kind = "known"
			line = strings.TrimSpace(strings.TrimPrefix(line, "known:"))
		case strings.HasPrefix(line, "fixed:"):
			e.Kind = "fixed"
			out = append(out, e) // fixed entries suppress nothing
			continue
		default:
			return nil, fmt.Errorf("known_findings: unparsable line %q", line)
		}
		head, text, _ := strings.Cut(line, " :: ")
		e.Text = text
		e.Props = map[string]bool{}
		for _, f := range strings.Fields(head) {
			k, v, _ := strings.Cut(f, "=")
			switch k {
			case "property":
				for _, p := range strings.Split(v, ",") {
					e.Props[p] = true
				}
			case "rule":
				e.Rule = v
			case "key":
				e.Key = v
			}
		}
		if e.Rule == "" || e.Key == "" || len(e.Props) == 0 {
			return nil, fmt.Errorf("known_findings: incomplete entry %q", line)
		}
		out = append(out, e)
	}
	return out, sc.Err()
}

// ---- evidence ----

type Evidence struct {
	PropertyID  string         `json:"property_id"`
	Tier        string         `json:"tier"`
	Seed        int            `json:"seed"`
	Level       string         `json:"level"`
	Coverage    map[string]any `json:"coverage"`
	Assumptions []string       `json:"assumptions"`
	WallS       float64        `json:"wall_s"`
	Violations  int            `json:"violations"`
}

type runConfig struct {
	verifDir string
	repoDir  string
	tier     string
	seed     int
	outDir   string
}

type configRun struct {
	Name            string
	Tags            string
	UseCHA          bool
	Packages        int
	Functions       int
	Reachable       int
	CGNodes         int
	Results         []*RuleResult
	CtlFired        map[string]int
	LoadErr         string
	CtlUnavailable  string
	NormalisedRules []string // rules decided on the normalised view
}

func hashKey(s string) string {
	h := sha1.Sum([]byte(s))
	return fmt.Sprintf("%x", h[:5])
}

func sanitize(s string) string {
	var b strings.Builder
	for _, r := range s {
		if (r >= 'a' && r <= 'z') || (r >= 'A' && r <= 'Z') || (r >= '0' && r <= '9') || r == '-' || r == '_' {
			b.WriteRune(r)
		} else {
			b.WriteByte('_')
		}
	}
	return b.String()
}

// runProperty evaluates all rules of a property, writes evidence, prints VIOLATION/KNOWN-FINDING lines.
func runProperty(rc runConfig, prop *Property) int {
	start := time.Now()
	known, kerr := readKnown(filepath.Join(rc.verifDir, "known_findings.txt"))
	exit := 0
	if rc.outDir == "" {
		rc.outDir = filepath.Join(rc.verifDir, "evidence")
	}
	violDir := filepath.Join(rc.outDir, "violations")
	os.MkdirAll(violDir, 0o755)
	// remove stale replay files of this property
	if old, _ := filepath.Glob(filepath.Join(violDir, prop.ID+"-*.json")); old != nil {
		for _, f := range old {
			os.Remove(f)
		}
	}
	nviol := 0
	emit := func(rule, key string, payload map[string]any) {
		nviol++
		exit = 1
		name := fmt.Sprintf("%s-%s-%s.json", prop.ID, sanitize(rule), hashKey(rule+"|"+key))
		path := filepath.Join(violDir, name)
		payload["property"] = prop.ID
		payload["rule"] = rule
		payload["key"] = key
		b, _ := json.MarshalIndent(payload, "", "  ")
		os.WriteFile(path, b, 0o644)
		fmt.Printf("VIOLATION property=%s replay=%s\n", prop.ID, path)
		fmt.Printf("  rule=%s key=%s verdict=%v pos=%v\n  %v\n", rule, key, payload["verdict"], payload["pos"], payload["detail"])
	}
	if kerr != nil {
		emit("FRAMEWORK", "known_findings", map[string]any{"verdict": "undecided", "detail": kerr.Error()})
	}

	// overlays: positive controls of this property's rules
	overlay := map[string][]byte{}
	ctlFiles := map[string][]string{} // rule -> overlay base names
	for _, rid := range prop.Rules {
		r := rules[rid]
		if r == nil {
			emit("FRAMEWORK", "rule:"+rid, map[string]any{"verdict": "undecided", "detail": "rule not registered"})
			continue
		}
		for _, c := range r.Ctl {
			src, err := os.ReadFile(filepath.Join(rc.verifDir, "posctl", c))
			if err != nil {
				emit("FRAMEWORK", "posctl:"+c, map[string]any{"verdict": "undecided", "detail": err.Error()})
				continue
			}
			// file name: <pkgdir with __ for />__<name>.go.txt  ->  /repo/<pkgdir>/zz_verif_posctl_<name>.go
			base := strings.TrimSuffix(c, ".go.txt")
			i := strings.LastIndex(base, "__")
			dir := strings.ReplaceAll(base[:i], "__", "/")
			if dir == "ROOT" {
				dir = ""
			}
			fn := posctlPrefix + "_" + base[i+2:] + ".go"
			overlay[filepath.Join(rc.repoDir, dir, fn)] = src
			ctlFiles[rid] = append(ctlFiles[rid], fn)
		}
	}

	type cfgSpec struct {
		name, tags string
		cha        bool
	}
	cfgs := []cfgSpec{{"default", "", false}}
	if rc.tier == "thorough" {
		cfgs = append(cfgs, cfgSpec{"tags=unit", "unit", false}, cfgSpec{"cha-reachability", "", true})
	}
	var runs []*configRun
	allObl := []Obligation{}
	seenObl := map[string]bool{}
	for _, cs := range cfgs {
		cr := &configRun{Name: cs.name, Tags: cs.tags, UseCHA: cs.cha, CtlFired: map[string]int{}}
		runs = append(runs, cr)
		m, err := Load(LoadOpts{RepoDir: rc.repoDir, Tags: cs.tags, Overlay: overlay, UseCHA: cs.cha})
		ctlAvailable := true
		if err != nil && len(overlay) > 0 {
			// does the repository load on its own? then a positive control no longer compiles against it (a renamed
			// helper, say): run the rules without controls - anchor floors still guard against vacuous passes - and say so.
			if m2, err2 := Load(LoadOpts{RepoDir: rc.repoDir, Tags: cs.tags, UseCHA: cs.cha}); err2 == nil {
				fmt.Printf("NOTE: positive controls unavailable in configuration %s (they no longer compile against the tree: %v); rules run without them\n", cs.name, err)
				cr.CtlUnavailable = err.Error()
				m, err, ctlAvailable = m2, nil, false
			}
		}
		if err != nil {
			cr.LoadErr = err.Error()
			emit("FRAMEWORK", "load:"+cs.name, map[string]any{"verdict": "undecided", "detail": "cannot load/type-check the repository (or a positive control no longer compiles against it): " + err.Error()})
			continue
		}
		cr.Packages = len(m.Pkgs)
		cr.Functions = len(m.Funcs)
		cr.CGNodes = len(m.CG.Nodes)
		for f := range m.Reach {
			if inModule(f) {
				cr.Reachable++
			}
		}
		// evalRule runs one rule on one model and adds the framework's own obligations (anchor floor, positive controls)
		evalRule := func(mm *Model, rid string, ctlOK bool) (res *RuleResult, fired int, clean bool) {
			r := rules[rid]
			res = &RuleResult{Rule: rid}
			func() {
				defer func() {
					if p := recover(); p != nil {
						res.undecided("checker-panic", "-", "the rule implementation panicked", fmt.Sprint(p))
					}
				}()
				r.Run(mm, res)
			}()
			real := 0
			clean = true
			for i := range res.Obligations {
				o := &res.Obligations[i]
				if strings.Contains(o.Key, "zzVerifPosctl") {
					o.Control = true
				}
				if o.Control {
					if o.Verdict != "holds" {
						fired++
					}
					continue
				}
				real++
				if o.Verdict != "holds" {
					clean = false
				}
			}
			if real < r.Floor {
				res.undecided("anchor-floor", "-", fmt.Sprintf("rule %s matched %d instances, fewer than the %d confirmed by hand", rid, real, r.Floor),
					"anchors no longer resolve; the rule would pass vacuously")
				clean = false
			}
			need := r.MinCtl
			if need == 0 {
				need = len(r.Ctl)
			}
			if ctlOK && fired < need {
				res.undecided("positive-control", "-", fmt.Sprintf("rule %s flagged %d of %d positive controls", rid, fired, need),
					"the rule no longer recognises its own seeded violation")
				clean = false
			}
			return
		}
		var mNorm *Model
		normTried := false
		for _, rid := range prop.Rules {
			r := rules[rid]
			if r == nil {
				continue
			}
			res, fired, clean := evalRule(m, rid, ctlAvailable)
			if !clean {
				// second chance on the normalised view (one-line pure accessors inlined; behaviour-preserving by construction)
				if !normTried {
					normTried = true
					ov := overlay
					if !ctlAvailable {
						ov = nil
					}
					if m2, n, err := LoadNormalised(m, LoadOpts{RepoDir: rc.repoDir, Tags: cs.tags, Overlay: ov, UseCHA: cs.cha}); err == nil && n > 0 {
						mNorm = m2
					} else if err != nil {
						fmt.Printf("NOTE: the normalised view (accessors inlined) does not load in configuration %s: %v\n", cs.name, err)
					}
				}
				if mNorm != nil {
					if res2, fired2, clean2 := evalRule(mNorm, rid, ctlAvailable); clean2 {
						res2.Notes = append(res2.Notes, fmt.Sprintf("decided on the normalised view (%d calls of one-line pure accessors inlined); as written the rule reported: %s", mNorm.Normalised, summariseNonHolds(res)))
						fmt.Printf("NOTE: %s holds on the normalised view of the tree (%d accessor calls inlined)\n", rid, mNorm.Normalised)
						res, fired = res2, fired2
						cr.NormalisedRules = append(cr.NormalisedRules, rid)
					}
				}
			}
			cr.CtlFired[rid] = fired
			cr.Results = append(cr.Results, res)
			for i := range res.Obligations {
				o := &res.Obligations[i]
				if o.Control {
					continue
				}
				k := o.Rule + "|" + o.Key + "|" + o.Verdict
				if o.Key == "anchor-floor" || o.Key == "positive-control" {
					allObl = append(allObl, *o)
					continue
				}
				if !seenObl[k] {
					seenObl[k] = true
					allObl = append(allObl, *o)
				}
			}
		}
	}

	// verdicts
	sort.SliceStable(allObl, func(i, j int) bool {
		if allObl[i].Rule != allObl[j].Rule {
			return allObl[i].Rule < allObl[j].Rule
		}
		return allObl[i].Key < allObl[j].Key
	})
	discharged := 0
	knownHit := 0
	perRule := map[string]map[string]int{}
	for _, o := range allObl {
		if perRule[o.Rule] == nil {
			perRule[o.Rule] = map[string]int{}
		}
		perRule[o.Rule][o.Verdict]++
		if o.Verdict == "holds" {
			discharged++
			continue
		}
		matched := false
		if o.Verdict == "violation" {
			for _, k := range known {
				if k.Kind == "known" && k.Rule == o.Rule && k.Key == o.Key && (k.Props[prop.ID] || k.Props["*"]) {
					fmt.Printf("KNOWN-FINDING: property=%s %s %s %s\n", prop.ID, o.Rule, o.Key, k.Text)
					matched = true
					knownHit++
					break
				}
			}
		}
		if !matched {
			emit(o.Rule, o.Key, map[string]any{"verdict": o.Verdict, "pos": o.Pos, "desc": o.Desc, "detail": o.Detail})
		}
	}

	// evidence
	samples := []any{}
	byRule := map[string]int{}
	for _, o := range allObl {
		if byRule[o.Rule] < 3 || o.Verdict != "holds" {
			byRule[o.Rule]++
			samples = append(samples, o)
		}
	}
	ruleInfo := []map[string]any{}
	for _, rid := range prop.Rules {
		r := rules[rid]
		if r == nil {
			continue
		}
		ri := map[string]any{"id": rid, "rule_applied": r.Doc, "instances": perRule[rid], "anchor_floor": r.Floor, "positive_controls": ctlFiles[rid]}
		for _, cr := range runs {
			for _, res := range cr.Results {
				if res.Rule == rid && cr.Name == "default" {
					if len(res.Stats) > 0 {
						ri["stats"] = res.Stats
					}
					if len(res.Notes) > 0 {
						ri["notes"] = res.Notes
					}
					ri["positive_controls_fired"] = cr.CtlFired[rid]
				}
			}
		}
		ruleInfo = append(ruleInfo, ri)
	}
	cfgInfo := []map[string]any{}
	for _, cr := range runs {
		ci := map[string]any{"config": cr.Name, "packages": cr.Packages, "functions_with_bodies": cr.Functions, "module_functions_reachable": cr.Reachable, "callgraph_nodes": cr.CGNodes}
		if cr.LoadErr != "" {
			ci["load_error"] = cr.LoadErr
		}
		if cr.CtlUnavailable != "" {
			ci["positive_controls_unavailable"] = cr.CtlUnavailable
		}
		if len(cr.NormalisedRules) > 0 {
			ci["rules_decided_on_normalised_view"] = cr.NormalisedRules
		}
		cfgInfo = append(cfgInfo, ci)
	}
	var selftest map[string]any
	if rc.tier == "thorough" {
		only := map[string]bool{}
		for _, rid := range prop.Rules {
			only[rid] = true
		}
		rs := selftestAll(rc.verifDir, rc.repoDir, only, 8)
		selftest = summarizeSelftest(rs)
		if pr, _ := selftest["problems"].([]string); len(pr) > 0 {
			for _, p := range pr {
				fmt.Println("SELFTEST-NOTE (checker self-validation, not a property verdict):", p)
			}
		}
	}
	var corpus map[string]any
	if rc.tier == "thorough" {
		corpus = corpusAll(rc.verifDir, rc.repoDir, prop)
		if pr, _ := corpus["problems"].([]string); len(pr) > 0 {
			for _, p := range pr {
				fmt.Println("CORPUS-NOTE (seeded/benign corpus, not a property verdict):", p)
			}
		}
	}
	ev := Evidence{
		PropertyID: prop.ID, Tier: rc.tier, Seed: rc.seed, Level: "other",
		Coverage: map[string]any{
			"explanation":        prop.Explanation,
			"kind":               prop.Kind,
			"obligations":        len(allObl),
			"discharged":         discharged,
			"known_findings_hit": knownHit,
			"rules":              ruleInfo,
			"configurations":     cfgInfo,
			"samples":            samples,
			"checker_cmd":        fmt.Sprintf("./run.sh %s %s", prop.ID, rc.tier),
			"trusted_base":       []string{"go/types", "go/ssa (x/tools v0.29.0)", "VTA call graph seeded by CHA (sound without reflect/unsafe: LANG-0)", "the rule implementations in /verif/checker", "stdlib allow-list of DET-2"},
			"exhaustive":         false,
		},
		Assumptions: prop.Assumptions,
		WallS:       time.Since(start).Seconds(),
		Violations:  nviol,
	}
	if selftest != nil {
		ev.Coverage["checker_self_validation"] = selftest
	}
	if corpus != nil {
		ev.Coverage["seeded_and_benign_corpus"] = corpus
	}
	b, _ := json.MarshalIndent(ev, "", " ")
	evPath := filepath.Join(rc.outDir, prop.ID+".json")
	if err := os.WriteFile(evPath, b, 0o644); err != nil {
		fmt.Fprintln(os.Stderr, "cannot write evidence:", err)
		return 1
	}
	fmt.Printf("property=%s tier=%s obligations=%d discharged=%d known=%d violations=%d wall=%.1fs evidence=%s\n",
		prop.ID, rc.tier, len(allObl), discharged, knownHit, nviol, time.Since(start).Seconds(), evPath)
	for _, rid := range prop.Rules {
		fmt.Printf("  %-9s %v\n", rid, perRule[rid])
	}
	return exit
}

func summariseNonHolds(res *RuleResult) string {
	var ks []string
	for _, o := range res.Obligations {
		if !o.Control && o.Verdict != "holds" {
			ks = append(ks, o.Key+" ("+o.Verdict+")")
		}
	}
	if len(ks) > 6 {
		ks = append(ks[:6], "...")
	}
	return strings.Join(ks, ", ")
}
