package main

// Engine E6: special-purpose dataflow lints written for this repository.

import (
	"fmt"
	"go/constant"
	"go/token"
	"go/types"
	"sort"
	"strings"

	"golang.org/x/tools/go/ssa"
)

func init() {
	register(&Rule{
		ID: "ITER-1",
		Doc: "no removal of the current element from the list being iterated: a loop that reads elements x[i] (i loop-varying) of a slice loaded from a struct field (Node.In, Node.Out, DGraph.Edges, ...) must not, inside the loop body, make a call whose effect summary contains RemoveElem(same field, that element); " +
			"list effects are derived from (*EdgeList).Remove/Add recognised by shape and composed through call sites (so Edge.Reverse counts). " +
			"Work-list clause: a loop whose body appends (directly or through callees, object-sensitively: same field of the same base object) to the list it iterates re-reads the list in every iteration; iterating a snapshot taken before the loop never visits the appended elements",
		Floor:  90,
		MinCtl: 2,
		Ctl:    []string{"internal__phase1__iter1.go.txt"},
		Run:    runIter1,
	})
	register(&Rule{
		ID:    "SHIFT-1",
		Doc:   "every shift whose count is not a constant has a count bounded below the operand width (masked with &, reduced with %, or dominated by a `count < width` guard)",
		Floor: 0,
		Ctl:   []string{"internal__phase3__shift1.go.txt"},
		Run:   runShift1,
	})
	register(&Rule{
		ID:    "AGG-1",
		Doc:   "no consumption of a traversal-wide running extremum inside the traversal: in a function that updates *p = max/min(*p, v) through a pointer parameter or captured variable and is recursive or called from a loop, no other load of *p may flow into a store to a struct field or map cell",
		Floor: 2,
		Ctl:   []string{"internal__phase2__agg1.go.txt"},
		Run:   runAgg1,
	})
	register(&Rule{
		ID:    "RECOMP-1",
		Doc:   "cut values are recomputed, not accumulated: in every function that stores Edge.CutValue, each load of CutValue is dominated by a store to CutValue through the same base value in the same function (no upward-exposed read of a stale cut value); a function that changes tree membership (stores Edge.IsInSpanningTree) and recomputes cut values itself does so on every path from the change to its return",
		Floor: 2,
		Ctl:   []string{"internal__phase2__recomp1.go.txt"},
		Run:   runRecomp1,
	})
}

// ---------- ITER-1 ----------

func runIter1(m *Model, r *RuleResult) {
	m.fxInit()
	for _, f := range m.Src {
		loops := naturalLoops(f)
		if len(loops) == 0 {
			continue
		}
		ctl := m.FuncIsPosctl(f)
		// element loads: e = *(&x[i]) with x loaded from a field, i not constant
		type elemLoad struct {
			val  ssa.Value
			loc  string
			ia   *ssa.IndexAddr
			loop *loopInfo
		}
		var elems []elemLoad
		eachInstr(f, func(in ssa.Instruction) {
			u, ok := in.(*ssa.UnOp)
			if !ok || u.Op != token.MUL {
				return
			}
			ia, ok := u.X.(*ssa.IndexAddr)
			if !ok {
				return
			}
			if _, isConst := ia.Index.(*ssa.Const); isConst {
				return
			}
			for _, o := range originsOf(ia.X, 0) {
				if o.Kind == "fieldload" || o.Kind == "fieldaddr" {
					ls := loopsContaining(loops, in.Block())
					if len(ls) > 0 {
						elems = append(elems, elemLoad{u, o.Loc, ia, ls[0]})
					}
				}
			}
		})
		seenLoop := map[string]bool{}
		for _, el := range elems {
			lk := fmt.Sprintf("loop:%s:over:%s", funcKey(f), el.loc)
			var bad []string
			for b := range el.loop.Body {
				for _, in := range b.Instrs {
					ci, ok := in.(ssa.CallInstruction)
					if !ok {
						continue
					}
					if _, isDefer := in.(*ssa.Defer); isDefer {
						continue
					}
					c := ci.Common()
					args := c.Args
					if c.IsInvoke() {
						args = append([]ssa.Value{c.Value}, args...)
					}
					for _, cal := range m.Callees(ci) {
						ce := m.effects[cal]
						if ce == nil {
							continue
						}
						for _, le := range ce.List {
							if le.Op != "remove" || le.ElemParam < 0 || le.ElemParam >= len(args) {
								continue
							}
							if args[le.ElemParam] != el.val {
								continue
							}
							loc := le.ListLoc
							if loc == "" && le.ListParam >= 0 && le.ListParam < len(args) {
								for _, o := range originsOf(args[le.ListParam], 0) {
									if o.Kind == "fieldaddr" {
										loc = o.Loc
									}
								}
							}
							if loc == el.loc {
								bad = append(bad, fmt.Sprintf("%s at %s removes the current element from %s", funcKey(cal), m.Pos(in.Pos()), loc))
							}
						}
					}
				}
			}
			if len(bad) > 0 {
				r.add(Obligation{Key: lk, Pos: m.Pos(el.ia.Pos()), Desc: "loop over " + el.loc + " removes the element it is visiting", Verdict: "violation",
					Detail: strings.Join(bad, "; ") + ": the slice shifts left under the iterator, the following element is skipped", Control: ctl})
				seenLoop[lk] = true
			} else if !seenLoop[lk] {
				seenLoop[lk] = true
				r.add(Obligation{Key: lk, Pos: m.Pos(el.ia.Pos()), Desc: "loop over " + el.loc + " does not remove the element it is visiting", Verdict: "holds", Control: ctl})
			}
		}
	}
	// work-list clause: a loop whose body appends to the list it iterates must re-read the list in every iteration; a
	// loop over a snapshot taken before the loop (range, or a slice variable loaded once) never visits the appended elements
	// growsP[f][loc][i]: f (transitively) appends to the list `loc` of the object passed as parameter i
	growsP := map[*ssa.Function]map[string]map[int]bool{}
	paramIdx := func(f *ssa.Function, v ssa.Value) int {
		for i, p := range f.Params {
			if p == v {
				return i
			}
		}
		return -1
	}
	addG := func(f *ssa.Function, loc string, i int) bool {
		if growsP[f][loc] == nil {
			growsP[f][loc] = map[int]bool{}
		}
		if growsP[f][loc][i] {
			return false
		}
		growsP[f][loc][i] = true
		return true
	}
	for _, f := range m.Src {
		growsP[f] = map[string]map[int]bool{}
		for _, lo := range listOpsOf(m, f) {
			if lo.op == "add" && lo.loc != "" {
				if i := paramIdx(f, lo.base); i >= 0 {
					addG(f, lo.loc, i)
				}
			}
		}
	}
	for changed := true; changed; {
		changed = false
		for _, f := range m.Src {
			eachInstr(f, func(in ssa.Instruction) {
				ci, ok := in.(ssa.CallInstruction)
				if !ok {
					return
				}
				c := ci.Common().StaticCallee()
				if c == nil || growsP[c] == nil {
					return
				}
				for loc, ps := range growsP[c] {
					for i := range ps {
						if i < len(ci.Common().Args) {
							if j := paramIdx(f, ci.Common().Args[i]); j >= 0 && addG(f, loc, j) {
								changed = true
							}
						}
					}
				}
			})
		}
	}
	for _, f := range m.Src {
		loops := naturalLoops(f)
		if len(loops) == 0 {
			continue
		}
		ctl := m.FuncIsPosctl(f)
		seen := map[string]bool{}
		ops := listOpsOf(m, f)
		eachInstr(f, func(in ssa.Instruction) {
			u, ok := in.(*ssa.UnOp)
			if !ok || u.Op != token.MUL {
				return
			}
			ia, ok := u.X.(*ssa.IndexAddr)
			if !ok {
				return
			}
			if _, isConst := ia.Index.(*ssa.Const); isConst {
				return
			}
			ls := loopsContaining(loops, in.Block())
			if len(ls) == 0 {
				return
			}
			l := ls[0]
			// the iterated list: load of a field of some base object
			ld, ok := ia.X.(*ssa.UnOp)
			if !ok || ld.Op != token.MUL {
				return
			}
			fa, ok := ld.X.(*ssa.FieldAddr)
			if !ok {
				return
			}
			base, steps := fieldChain(fa)
			loc := locOfSteps(steps)
			// does the loop body grow this very list (same field of the same object)?
			growsHere := ""
			for b := range l.Body {
				for _, bi := range b.Instrs {
					ci, ok := bi.(ssa.CallInstruction)
					if !ok {
						continue
					}
					c := ci.Common().StaticCallee()
					if c == nil || growsP[c] == nil {
						continue
					}
					// growth repeated by an inner loop of its own (split until done) is not a work-list pattern
					if inner := loopsContaining(loops, b); len(inner) == 0 || inner[0] != l {
						continue
					}
					for i := range growsP[c][loc] {
						if i < len(ci.Common().Args) && ci.Common().Args[i] == base {
							growsHere = funcKey(c) + " at " + m.Pos(bi.Pos())
						}
					}
				}
			}
			for _, lo := range ops {
				if inner := loopsContaining(loops, lo.in.Block()); len(inner) == 0 || inner[0] != l {
					continue
				}
				if lo.op == "add" && lo.loc == loc && lo.base == base && l.Body[lo.in.Block()] {
					growsHere = "append at " + m.Pos(lo.in.Pos())
				}
			}
			if growsHere == "" {
				return
			}
			key := fmt.Sprintf("worklist:%s:over:%s", funcKey(f), loc)
			if seen[key] {
				return
			}
			seen[key] = true
			if l.Body[ld.Block()] {
				r.add(Obligation{Key: key, Pos: m.Pos(ia.Pos()), Desc: "the loop appends to " + loc + " (" + growsHere + ") and re-reads the list in every iteration, so the appended elements are visited too", Verdict: "holds", Control: ctl})
			} else {
				r.add(Obligation{Key: key, Pos: m.Pos(ia.Pos()), Desc: "a loop that appends to the list it iterates must re-read the list in every iteration", Verdict: "violation",
					Detail: "the loop iterates a snapshot of " + loc + " taken before the loop while its body appends to that same list (" + growsHere + "): the appended elements are never visited", Control: ctl})
			}
		})
	}
	nWork := 0
	for _, o := range r.Obligations {
		if strings.HasPrefix(o.Key, "worklist:") && !o.Control {
			nWork++
		}
	}
	if nWork == 0 {
		r.undecided("worklist-anchor", "-", "the loop that splits long edges appends to the edge list it iterates", "no loop appending to the list it iterates was found (anchor of the work-list clause)")
	}
	n := 0
	for _, k := range m.fx.listPrim {
		_ = k
		n++
	}
	r.stat("list_primitives_recognised", n)
	if n < 2 {
		r.undecided("list-primitives", "-", "EdgeList.Remove/Add must be recognised by shape", fmt.Sprintf("only %d list primitives recognised", n))
	}
}

// ---------- SHIFT-1 ----------

func runShift1(m *Model, r *RuleResult) {
	for _, f := range m.Src {
		n := 0
		eachInstr(f, func(in ssa.Instruction) {
			bo, ok := in.(*ssa.BinOp)
			if !ok || (bo.Op != token.SHL && bo.Op != token.SHR) {
				return
			}
			if _, isConst := bo.Y.(*ssa.Const); isConst {
				return
			}
			n++
			width := int64(64)
			if b, ok := bo.Type().Underlying().(*types.Basic); ok {
				switch b.Kind() {
				case types.Int8, types.Uint8:
					width = 8
				case types.Int16, types.Uint16:
					width = 16
				case types.Int32, types.Uint32:
					width = 32
				}
			}
			key := fmt.Sprintf("shift:%s#%d", funcKey(f), n)
			ctl := m.FuncIsPosctl(f)
			if shiftBounded(bo.Y, in, width, 0) {
				r.add(Obligation{Key: key, Pos: m.Pos(bo.Pos()), Desc: "shift count is bounded below the operand width", Verdict: "holds", Control: ctl})
			} else {
				r.add(Obligation{Key: key, Pos: m.Pos(bo.Pos()), Desc: "shift by an unbounded count", Verdict: "violation",
					Detail: fmt.Sprintf("count %s can reach %d or more: the result silently becomes 0 (a bit set built this way conflates all large indices)", bo.Y.Name(), width), Control: ctl})
			}
		})
	}
}

func constInt(v ssa.Value) (int64, bool) {
	c, ok := v.(*ssa.Const)
	if !ok || c.Value == nil || c.Value.Kind() != constant.Int {
		return 0, false
	}
	return c.Int64(), true
}

func shiftBounded(y ssa.Value, at ssa.Instruction, width int64, depth int) bool {
	if depth > 4 {
		return false
	}
	switch x := y.(type) {
	case *ssa.Convert:
		if b, ok := x.X.Type().Underlying().(*types.Basic); ok && (b.Kind() == types.Uint8 || b.Kind() == types.Int8) && width > 255 {
			return true
		}
		return shiftBounded(x.X, at, width, depth+1)
	case *ssa.BinOp:
		switch x.Op {
		case token.AND:
			if c, ok := constInt(x.Y); ok && c >= 0 && c < width {
				return true
			}
			if c, ok := constInt(x.X); ok && c >= 0 && c < width {
				return true
			}
		case token.REM:
			if c, ok := constInt(x.Y); ok && c > 0 && c <= width {
				return true
			}
		}
	case *ssa.Phi:
		for _, e := range x.Edges {
			if _, isC := constInt(e); isC {
				continue
			}
			if !shiftBounded(e, at, width, depth+1) {
				return false
			}
		}
		// fallthrough to guard check below
	}
	// dominating guard: if y < C (C <= width) on the true edge, or y >= C on the false edge
	for _, a := range at.Parent().Blocks {
		if len(a.Succs) != 2 {
			continue
		}
		iff, ok := a.Instrs[len(a.Instrs)-1].(*ssa.If)
		if !ok {
			continue
		}
		bo, ok := iff.Cond.(*ssa.BinOp)
		if !ok {
			continue
		}
		var tgt *ssa.BasicBlock
		if bo.X == y {
			if c, ok := constInt(bo.Y); ok {
				switch {
				case bo.Op == token.LSS && c <= width, bo.Op == token.LEQ && c < width:
					tgt = a.Succs[0]
				case bo.Op == token.GEQ && c <= width, bo.Op == token.GTR && c < width:
					tgt = a.Succs[1]
				}
			}
		}
		if tgt != nil && len(tgt.Preds) == 1 && tgt.Dominates(at.Block()) {
			return true
		}
	}
	return false
}

// ---------- AGG-1 ----------

func isMinMaxCall(v ssa.Value) (*ssa.Call, bool) {
	c, ok := v.(*ssa.Call)
	if !ok {
		return nil, false
	}
	if minMaxKind(&c.Call) != "" {
		return c, true
	}
	return nil, false
}

// minMaxKind: "max" / "min" for the builtins, math.Max / math.Min and two-argument helpers of the module that return the
// larger / smaller of their parameters (`if a < b { return b }; return a` in any polarity); "" otherwise
func minMaxKind(cc *ssa.CallCommon) string {
	if b, ok := cc.Value.(*ssa.Builtin); ok {
		if b.Name() == "max" || b.Name() == "min" {
			return b.Name()
		}
		return ""
	}
	cal := cc.StaticCallee()
	if cal == nil {
		return ""
	}
	if _, full := extFuncName(cal); full == "math.Max" || full == "math.Min" {
		return strings.ToLower(full[5:])
	}
	return ssaMinMaxHelper(cal)
}

var minMaxHelperCache = map[*ssa.Function]string{}

func ssaMinMaxHelper(f *ssa.Function) string {
	if k, ok := minMaxHelperCache[f]; ok {
		return k
	}
	k := ssaMinMaxHelper0(f)
	minMaxHelperCache[f] = k
	return k
}

func ssaMinMaxHelper0(f *ssa.Function) string {
	if f == nil || len(f.Blocks) != 3 || len(f.Params) != 2 || f.Signature.Results().Len() != 1 || f.Signature.Recv() != nil {
		return ""
	}
	if !types.Identical(f.Params[0].Type(), f.Params[1].Type()) {
		return ""
	}
	if bt, ok := f.Params[0].Type().Underlying().(*types.Basic); !ok || bt.Info()&types.IsNumeric == 0 {
		return ""
	}
	var iff *ssa.If
	for _, in := range f.Blocks[0].Instrs {
		switch x := in.(type) {
		case *ssa.If:
			iff = x
		case *ssa.BinOp, *ssa.DebugRef:
		default:
			return ""
		}
	}
	if iff == nil {
		return ""
	}
	bo, ok := iff.Cond.(*ssa.BinOp)
	if !ok {
		return ""
	}
	a, b := ssa.Value(f.Params[0]), ssa.Value(f.Params[1])
	// normalise to "x < y" (true when x is the smaller one)
	var x, y ssa.Value
	switch bo.Op {
	case token.LSS, token.LEQ:
		x, y = bo.X, bo.Y
	case token.GTR, token.GEQ:
		x, y = bo.Y, bo.X
	default:
		return ""
	}
	if !((x == a && y == b) || (x == b && y == a)) {
		return ""
	}
	retOf := func(blk *ssa.BasicBlock) ssa.Value {
		for _, in := range blk.Instrs {
			switch r := in.(type) {
			case *ssa.Return:
				if len(r.Results) == 1 {
					return r.Results[0]
				}
			case *ssa.DebugRef:
			default:
				return nil
			}
		}
		return nil
	}
	tv, fv := retOf(iff.Block().Succs[0]), retOf(iff.Block().Succs[1])
	switch {
	case tv == y && fv == x: // smaller first: returns the larger
		return "max"
	case tv == x && fv == y:
		return "min"
	}
	return ""
}

func runAgg1(m *Model, r *RuleResult) {
	// recursive functions (static self-reachability) and functions called from inside a loop
	calledInLoop := map[*ssa.Function]bool{}
	recursive := map[*ssa.Function]bool{}
	for _, f := range m.Src {
		loops := naturalLoops(f)
		eachInstr(f, func(in ssa.Instruction) {
			ci, ok := in.(ssa.CallInstruction)
			if !ok {
				return
			}
			for _, cal := range m.Callees(ci) {
				if cal == f || cal.Parent() == f && false {
					recursive[f] = true
				}
				if len(loopsContaining(loops, in.Block())) > 0 {
					calledInLoop[cal] = true
				}
			}
		})
	}
	updates := map[*ssa.Function]map[int]map[int]bool{}
	defer func() { agg1CallerSide(m, r, updates) }()
	for _, f := range m.Src {
		// candidate cells: numeric pointees of pointer parameters / free variables, and numeric fields of a struct that a
		// pointer parameter (typically the receiver holding the traversal state) points to
		type cellT struct {
			name  string
			addrs []ssa.Value // every address value that denotes the cell in this function
			param int
			field int
		}
		var cells []cellT
		isNum := func(t types.Type) bool {
			b, ok := t.Underlying().(*types.Basic)
			return ok && b.Info()&types.IsNumeric != 0
		}
		for _, p := range f.Params {
			pt, ok := p.Type().Underlying().(*types.Pointer)
			if !ok {
				continue
			}
			if isNum(pt.Elem()) {
				cells = append(cells, cellT{p.Name(), []ssa.Value{p}, paramIndex(f, p), -1})
				continue
			}
			if st, ok := pt.Elem().Underlying().(*types.Struct); ok && p.Referrers() != nil {
				byField := map[int][]ssa.Value{}
				for _, ref := range *p.Referrers() {
					if fa, ok := ref.(*ssa.FieldAddr); ok && fa.X == ssa.Value(p) && isNum(st.Field(fa.Field).Type()) {
						byField[fa.Field] = append(byField[fa.Field], fa)
					}
				}
				var fields []int
				for fi := range byField {
					fields = append(fields, fi)
				}
				sort.Ints(fields)
				for _, fi := range fields {
					cells = append(cells, cellT{p.Name() + "." + st.Field(fi).Name(), byField[fi], paramIndex(f, p), fi})
				}
			}
		}
		for _, p := range f.FreeVars {
			if pt, ok := p.Type().Underlying().(*types.Pointer); ok && isNum(pt.Elem()) {
				cells = append(cells, cellT{p.Name(), []ssa.Value{p}, -1, -1})
			}
		}
		for _, cell := range cells {
			isAddr := map[ssa.Value]bool{}
			var refs []ssa.Instruction
			for _, a := range cell.addrs {
				isAddr[a] = true
				if a.Referrers() != nil {
					refs = append(refs, *a.Referrers()...)
				}
			}
			// running extremum update: store cell <- max/min(load cell, ...)
			var upd *ssa.Store
			updLoads := map[ssa.Value]bool{}
			for _, ref := range refs {
				st, ok := ref.(*ssa.Store)
				if !ok || !isAddr[st.Addr] {
					continue
				}
				if call, ok := isMinMaxCall(st.Val); ok {
					for _, a := range call.Call.Args {
						if u, ok := a.(*ssa.UnOp); ok && u.Op == token.MUL && isAddr[u.X] {
							upd = st
							updLoads[u] = true
						}
					}
				}
			}
			if upd == nil {
				continue
			}
			if cell.param >= 0 {
				if updates[f] == nil {
					updates[f] = map[int]map[int]bool{}
				}
				if updates[f][cell.param] == nil {
					updates[f][cell.param] = map[int]bool{}
				}
				updates[f][cell.param][cell.field] = true
			}
			if !recursive[f] && !calledInLoop[f] && f.Parent() == nil {
				continue
			}
			key := "running-extremum:" + funcKey(f) + ":" + cell.name
			ctl := m.FuncIsPosctl(f)
			var bad []string
			for _, ref := range refs {
				u, ok := ref.(*ssa.UnOp)
				if !ok || u.Op != token.MUL || updLoads[u] {
					continue
				}
				// does u flow into a heap store?
				seen := map[ssa.Value]bool{}
				var flow func(v ssa.Value)
				flow = func(v ssa.Value) {
					if seen[v] || v.Referrers() == nil {
						return
					}
					seen[v] = true
					for _, r2 := range *v.Referrers() {
						switch x := r2.(type) {
						case *ssa.BinOp:
							flow(x)
						case *ssa.Phi:
							flow(x)
						case *ssa.Convert:
							flow(x)
						case *ssa.ChangeType:
							flow(x)
						case *ssa.UnOp:
							flow(x)
						case *ssa.Call:
							if _, ok := isMinMaxCall(x); ok {
								flow(x)
							}
						case *ssa.Store:
							if x.Val == v {
								ai := classifyAddr(x.Addr)
								if len(ai.Locs) > 0 && !isFreshObject(ai.Base, 0) {
									bad = append(bad, fmt.Sprintf("the running value read at %s is stored into %s at %s", m.Pos(u.Pos()), ai.Locs[0], m.Pos(x.Pos())))
								}
							}
						case *ssa.MapUpdate:
							if x.Value == v {
								bad = append(bad, fmt.Sprintf("the running value read at %s is stored into a map at %s", m.Pos(u.Pos()), m.Pos(x.Pos())))
							}
						}
					}
				}
				flow(u)
			}
			if len(bad) > 0 {
				r.add(Obligation{Key: key, Pos: m.Pos(upd.Pos()), Desc: "running extremum consumed before the traversal is complete", Verdict: "violation",
					Detail: strings.Join(bad, "; ") + ": values derived from it are relative to whatever the maximum was at that moment, not to the final one", Control: ctl})
			} else {
				r.add(Obligation{Key: key, Pos: m.Pos(upd.Pos()), Desc: "running extremum is only updated during the traversal", Verdict: "holds", Control: ctl})
			}
		}
	}
}

// agg1CallerSide: a local cell whose address is handed, inside a loop, to a function that max/min-updates it is a running
// extremum for the duration of that loop: loads of the cell inside the loop must not flow into heap stores.
func agg1CallerSide(m *Model, r *RuleResult, updates map[*ssa.Function]map[int]map[int]bool) {
	for _, f := range m.Src {
		loops := naturalLoops(f)
		if len(loops) == 0 {
			continue
		}
		eachInstr(f, func(in ssa.Instruction) {
			ci, ok := in.(ssa.CallInstruction)
			if !ok {
				return
			}
			ls := loopsContaining(loops, in.Block())
			if len(ls) == 0 {
				return
			}
			outer := ls[len(ls)-1]
			for _, cal := range m.Callees(ci) {
				for i, fields := range updates[cal] {
					for field := range fields {
						args := ci.Common().Args
						if i >= len(args) {
							continue
						}
						cell, ok := args[i].(*ssa.Alloc)
						if !ok {
							continue
						}
						key := "running-extremum:" + funcKey(f) + ":" + cell.Comment + "@caller"
						// the loads of the cell: of the local itself, or of its field
						var cellRefs []ssa.Instruction
						if field < 0 {
							cellRefs = *cell.Referrers()
						} else {
							key = fmt.Sprintf("running-extremum:%s:%s.#%d@caller", funcKey(f), cell.Comment, field)
							for _, ref := range *cell.Referrers() {
								if fa, ok := ref.(*ssa.FieldAddr); ok && fa.Field == field && fa.Referrers() != nil {
									cellRefs = append(cellRefs, *fa.Referrers()...)
								}
							}
						}
						dup := false
						for _, o := range r.Obligations {
							if o.Key == key {
								dup = true
							}
						}
						if dup {
							continue
						}
						var bad []string
						for _, ref := range cellRefs {
							u, ok := ref.(*ssa.UnOp)
							if !ok || u.Op != token.MUL || !outer.Body[u.Block()] {
								continue
							}
							seen := map[ssa.Value]bool{}
							var flow func(v ssa.Value)
							flow = func(v ssa.Value) {
								if seen[v] || v.Referrers() == nil {
									return
								}
								seen[v] = true
								for _, r2 := range *v.Referrers() {
									switch x := r2.(type) {
									case *ssa.BinOp:
										flow(x)
									case *ssa.Phi:
										flow(x)
									case *ssa.Convert:
										flow(x)
									case *ssa.Store:
										if x.Val == v {
											ai := classifyAddr(x.Addr)
											if len(ai.Locs) > 0 && !isFreshObject(ai.Base, 0) {
												bad = append(bad, fmt.Sprintf("the running value read at %s is stored into %s at %s", m.Pos(u.Pos()), ai.Locs[0], m.Pos(x.Pos())))
											}
										}
									case *ssa.MapUpdate:
										if x.Value == v {
											bad = append(bad, fmt.Sprintf("the running value read at %s is stored into a map at %s", m.Pos(u.Pos()), m.Pos(x.Pos())))
										}
									}
								}
							}
							flow(u)
						}
						ctl := m.FuncIsPosctl(f)
						if len(bad) > 0 {
							r.add(Obligation{Key: key, Pos: m.Pos(in.Pos()), Desc: "running extremum consumed inside the loop that is still updating it", Verdict: "violation",
								Detail: strings.Join(bad, "; ") + ": values derived from it are relative to whatever the maximum was at that moment, not to the final one", Control: ctl})
						} else {
							r.add(Obligation{Key: key, Pos: m.Pos(in.Pos()), Desc: "the running extremum is read only after the loop that updates it", Verdict: "holds", Control: ctl})
						}
					}
				}
			}
		})
	}
}

// recomp2: a function that changes tree membership (stores Edge.IsInSpanningTree) and recomputes the numbering/cut values itself
// must do so on every path from the change to its return.
func recomp2(m *Model, r *RuleResult) {
	m.fxInit()
	for _, f := range m.Src {
		var flagStores []*ssa.Store
		eachInstr(f, func(in ssa.Instruction) {
			if st, ok := in.(*ssa.Store); ok {
				if fa, ok := st.Addr.(*ssa.FieldAddr); ok {
					base, steps := fieldChain(fa)
					if locOfSteps(steps) == igEdge+".IsInSpanningTree" && !isFreshObject(base, 0) {
						flagStores = append(flagStores, st)
					}
				}
			}
		})
		if len(flagStores) == 0 {
			continue
		}
		var recompCalls []ssa.CallInstruction
		eachInstr(f, func(in ssa.Instruction) {
			if ci, ok := in.(ssa.CallInstruction); ok {
				for _, cal := range m.Callees(ci) {
					if e := m.effects[cal]; e != nil && e.Mod[igEdge+".CutValue"] && cal != f {
						recompCalls = append(recompCalls, ci)
					}
				}
			}
		})
		if len(recompCalls) == 0 {
			continue // the recomputation is the caller's job (tree construction)
		}
		cfg := getCFG(f)
		key := "tree-change-recomputed:" + funcKey(f)
		ctl := m.FuncIsPosctl(f)
		var bad []string
		for _, st := range flagStores {
			ok := false
			for _, rc := range recompCalls {
				if (rc.Block() == st.Block() && instrIndex(rc) > instrIndex(st)) || (rc.Block() != st.Block() && cfg.postDominates(rc.Block(), st.Block())) {
					ok = true
				}
			}
			if !ok {
				bad = append(bad, "after the tree change at "+m.Pos(st.Pos())+" a return is reachable without recomputing the cut values")
			}
		}
		if len(bad) > 0 {
			r.add(Obligation{Key: key, Pos: m.Pos(flagStores[0].Pos()), Desc: "cut values must be recomputed after every change of the spanning tree", Verdict: "violation",
				Detail: strings.Join(uniq(bad), "; ") + ": later pivots read cut values and lim/low numbers of a tree that no longer exists", Control: ctl})
		} else {
			r.add(Obligation{Key: key, Pos: m.Pos(flagStores[0].Pos()), Desc: "every change of tree membership is followed, on every path, by the recomputation of the cut values", Verdict: "holds", Control: ctl})
		}
	}
}

// ---------- RECOMP-1 ----------

func runRecomp1(m *Model, r *RuleResult) {
	defer recomp2(m, r)
	loc := igEdge + ".CutValue"
	for _, f := range m.Src {
		var stores []*ssa.Store
		var loads []*ssa.UnOp
		baseOf := map[ssa.Instruction]ssa.Value{}
		eachInstr(f, func(in ssa.Instruction) {
			switch x := in.(type) {
			case *ssa.Store:
				if fa, ok := x.Addr.(*ssa.FieldAddr); ok {
					base, steps := fieldChain(fa)
					if locOfSteps(steps) == loc {
						stores = append(stores, x)
						baseOf[x] = base
					}
				}
			case *ssa.UnOp:
				if x.Op == token.MUL {
					if fa, ok := x.X.(*ssa.FieldAddr); ok {
						base, steps := fieldChain(fa)
						if locOfSteps(steps) == loc {
							loads = append(loads, x)
							baseOf[x] = base
						}
					}
				}
			}
		})
		if len(stores) == 0 {
			continue
		}
		ctl := m.FuncIsPosctl(f)
		key := "cutvalue-writer:" + funcKey(f)
		var bad []string
		for _, ld := range loads {
			ok := false
			for _, st := range stores {
				if baseOf[st] == baseOf[ld] && instrDominates(st, ld) {
					// the dominating store must not itself depend on a stale load (x = x + w)
					ok = true
				}
			}
			if !ok {
				bad = append(bad, "load at "+m.Pos(ld.Pos())+" is not preceded by a (re)initialising store on every path")
			}
		}
		if len(bad) > 0 {
			r.add(Obligation{Key: key, Pos: m.Pos(stores[0].Pos()), Desc: "cut value accumulated on top of its previous value", Verdict: "violation",
				Detail: strings.Join(bad, "; ") + ": after a pivot the new cut values include the old ones, so the leave-edge test (cut value < 0) is wrong and the layering is not optimal", Control: ctl})
		} else {
			r.add(Obligation{Key: key, Pos: m.Pos(stores[0].Pos()), Desc: "every read of CutValue follows a store in the same computation", Verdict: "holds", Control: ctl})
		}
	}
}
