package main

// Structural resolution of anchor functions, so that renaming an unexported helper does not turn into an alarm.

import (
	"go/types"
	"strings"

	"golang.org/x/tools/go/ssa"
)

func (m *Model) ssaByTypesName(shortpkg, name string) *ssa.Function {
	if name == "" {
		return nil
	}
	return m.SSAFunc(shortpkg, name)
}

// anchorSelfLoopPre: the static callee of Layout that returns a function over *DGraph (the self-loop pre-processor).
func (m *Model) anchorSelfLoopPre() *ssa.Function {
	layout := m.SSAFunc("autog", "Layout")
	if layout == nil {
		return nil
	}
	var out *ssa.Function
	for _, f := range m.layoutFamily() {
		for _, s := range staticCalls(f, func(c *ssa.Function) bool {
			res := c.Signature.Results()
			if res.Len() != 1 || !inModule(c) || pkgPathOf(c) == pkgPathOf(layout) {
				return false
			}
			sig, ok := res.At(0).Type().Underlying().(*types.Signature)
			return ok && sig.Params().Len() == 1 && namedKey(sig.Params().At(0).Type()) == igDG
		}) {
			out = s.Common().StaticCallee()
		}
	}
	return out
}

// layoutFamily: Layout and the functions of its package that it reaches through static calls.
func (m *Model) layoutFamily() []*ssa.Function {
	layout := m.SSAFunc("autog", "Layout")
	if layout == nil {
		return nil
	}
	seen := map[*ssa.Function]bool{}
	var out []*ssa.Function
	var visit func(f *ssa.Function)
	visit = func(f *ssa.Function) {
		if seen[f] || len(f.Blocks) == 0 {
			return
		}
		seen[f] = true
		out = append(out, f)
		eachInstr(f, func(in ssa.Instruction) {
			if ci, ok := in.(ssa.CallInstruction); ok {
				if c := ci.Common().StaticCallee(); c != nil && pkgPathOf(c) == pkgPathOf(layout) {
					visit(c)
				}
			}
		})
	}
	visit(layout)
	return out
}

// anchorUnreverse: the static callee of Layout outside the pipeline that takes the graph and whose Mod contains Edge.IsReversed.
func (m *Model) anchorUnreverse() *ssa.Function {
	m.fxInit()
	layout := m.SSAFunc("autog", "Layout")
	if layout == nil {
		return nil
	}
	var out *ssa.Function
	for _, f := range m.layoutFamily() {
		for _, s := range staticCalls(f, func(c *ssa.Function) bool {
			e := m.effects[c]
			return e != nil && inModule(c) && pkgPathOf(c) != pkgPathOf(layout) && e.Mod[igEdge+".IsReversed"] && c.Signature.Results().Len() == 0 && len(c.Params) == 1 && namedKey(c.Params[0].Type()) == igDG
		}) {
			out = s.Common().StaticCallee()
		}
	}
	return out
}

// anchorMerge: the phase-5 function returning the routable-edge slice (mergeLongEdges).
func (m *Model) anchorMerge() *ssa.Function {
	for _, f := range m.Src {
		if shortPkg(pkgPathOf(f)) != "internal/phase5" || f.Parent() != nil || m.FuncIsPosctl(f) {
			continue
		}
		res := f.Signature.Results()
		if res.Len() != 1 {
			continue
		}
		if sl, ok := res.At(0).Type().Underlying().(*types.Slice); ok && namedKey(sl.Elem()) == "internal/phase5.routableEdge" {
			return f
		}
	}
	return nil
}

// anchorChainMerge: the static callee of the merge function that re-targets an edge (reduceForward).
func (m *Model) anchorChainMerge() *ssa.Function {
	m.fxInit()
	mg := m.anchorMerge()
	if mg == nil {
		return nil
	}
	var out *ssa.Function
	for _, s := range staticCalls(mg, func(c *ssa.Function) bool {
		e := m.effects[c]
		return e != nil && pkgPathOf(c) == pkgPathOf(mg) && e.Mod[igEdge+".To"]
	}) {
		out = s.Common().StaticCallee()
	}
	// the chain walk may be extracted once more: descend to the function of the package that stores Edge.To itself
	for depth := 0; out != nil && depth < 3; depth++ {
		direct := false
		for _, w := range m.effects[out].Writes {
			if w.Loc == igEdge+".To" && w.Via == "" && !w.Fresh {
				direct = true
			}
		}
		if direct {
			break
		}
		var next *ssa.Function
		for _, s := range staticCalls(out, func(c *ssa.Function) bool {
			e := m.effects[c]
			return e != nil && pkgPathOf(c) == pkgPathOf(mg) && e.Mod[igEdge+".To"]
		}) {
			next = s.Common().StaticCallee()
		}
		if next == nil {
			break
		}
		out = next
	}
	return out
}

// anchorBreakEdge: the phase-3 function that constructs a virtual node (fresh store of IsVirtual) and links it in.
func (m *Model) anchorBreakEdge() *ssa.Function {
	m.fxInit()
	makesVirtual := func(f *ssa.Function) bool {
		for _, w := range m.effects[f].Writes {
			if w.Loc == igNode+".IsVirtual" && w.Fresh && w.Via == "" {
				return true
			}
		}
		return false
	}
	var fallback *ssa.Function
	for _, f := range m.Src {
		if shortPkg(pkgPathOf(f)) != "internal/phase3" || m.FuncIsPosctl(f) {
			continue
		}
		// constructs the helper node itself or through a constructor of the package ...
		mk := makesVirtual(f)
		if !mk {
			for _, s := range staticCalls(f, func(c *ssa.Function) bool {
				return pkgPathOf(c) == pkgPathOf(f) && m.effects[c] != nil && makesVirtual(c)
			}) {
				_ = s
				mk = true
			}
		}
		if !mk {
			continue
		}
		if fallback == nil {
			fallback = f
		}
		// ... and links it into the graph: re-targets an existing edge
		for _, w := range m.effects[f].Writes {
			if w.Loc == igEdge+".To" && !w.Fresh && w.Via == "" {
				return f
			}
		}
	}
	return fallback
}

// eventSites returns the instructions of f that are events: pred holds for them, or they are static calls to a function of the
// same package that (transitively, depth <= 3) contains an event.
func (m *Model) eventSites(f *ssa.Function, pred func(ssa.Instruction) bool, depth int) []ssa.Instruction {
	var out []ssa.Instruction
	if f == nil || depth > 3 {
		return nil
	}
	eachInstr(f, func(in ssa.Instruction) {
		if pred(in) {
			out = append(out, in)
			return
		}
		if ci, ok := in.(ssa.CallInstruction); ok {
			if c := ci.Common().StaticCallee(); c != nil && c != f && c.Blocks != nil && pkgPathOf(c) == pkgPathOf(f) {
				if len(m.eventSites(c, pred, depth+1)) > 0 {
					out = append(out, in)
				}
			}
		}
	})
	return out
}

// anchorMonitorSet / anchorMonitorReset: the top-level functions of package monitor that store into the monitor global - Set
// stores one of its parameters, Reset stores the nil constant. Falls back to the names.
func (m *Model) anchorMonitorSet() *ssa.Function   { return m.monitorStorer(false, "Set") }
func (m *Model) anchorMonitorReset() *ssa.Function { return m.monitorStorer(true, "Reset") }

func (m *Model) monitorStorer(wantNil bool, fallback string) *ssa.Function {
	g, _ := m.monitorCell()
	var found []*ssa.Function
	if g != nil {
		for _, f := range m.Src {
			if pkgPathOf(f) != modPath+"/internal/monitor" || f.Parent() != nil || m.FuncIsPosctl(f) || isPkgInit(f) {
				continue
			}
			hit := false
			eachInstr(f, func(in ssa.Instruction) {
				st, ok := in.(*ssa.Store)
				if !ok || !(m.isMonitorCellAddr(st.Addr) || st.Addr == ssa.Value(g)) {
					return
				}
				c, isConst := st.Val.(*ssa.Const)
				isNil := isConst && c.Value == nil
				if isNil == wantNil {
					if wantNil {
						hit = true
					} else if len(f.Params) >= 1 {
						hit = true
					}
				}
			})
			if hit {
				found = append(found, f)
			}
		}
	}
	if len(found) == 1 {
		return found[0]
	}
	return m.SSAFunc("internal/monitor", fallback)
}

// anchorReverse: the method of internal/graph's Edge that stores Edge.From, Edge.To and Edge.IsReversed directly.
func (m *Model) anchorReverse() *ssa.Function {
	m.fxInit()
	var found []*ssa.Function
	for _, f := range m.Src {
		if shortPkg(pkgPathOf(f)) != "internal/graph" || f.Parent() != nil || m.FuncIsPosctl(f) || f.Signature.Recv() == nil {
			continue
		}
		// stores the three fields itself or through a helper of the package, and moves the edge between adjacency lists
		w := map[string]bool{}
		nList := 0
		for _, x := range m.effects[f].Writes {
			if !x.Fresh && (x.Via == "" || strings.HasPrefix(x.Via, "internal/graph.") || strings.Contains(x.Via, "internal/graph.")) {
				w[x.Loc] = true
			}
		}
		eachInstr(f, func(in ssa.Instruction) {
			if ci, ok := in.(ssa.CallInstruction); ok {
				if c := ci.Common().StaticCallee(); c != nil && m.fx.listPrim[c] != "" {
					nList++
				}
			}
		})
		if w[igEdge+".From"] && w[igEdge+".To"] && w[igEdge+".IsReversed"] && nList >= 2 {
			found = append(found, f)
		}
	}
	if len(found) == 1 {
		return found[0]
	}
	return m.SSAFunc("internal/graph", "(*Edge).Reverse")
}

// anchorNewEdge: the constructor of internal/graph that returns a fresh *Edge (stores From, To of an object it allocates).
func (m *Model) anchorNewEdge() *ssa.Function {
	m.fxInit()
	var found []*ssa.Function
	for _, f := range m.Src {
		if shortPkg(pkgPathOf(f)) != "internal/graph" || f.Parent() != nil || m.FuncIsPosctl(f) || f.Signature.Recv() != nil {
			continue
		}
		res := f.Signature.Results()
		if res.Len() != 1 || namedKey(res.At(0).Type()) != igEdge {
			continue
		}
		fresh := map[string]bool{}
		for _, x := range m.effects[f].Writes {
			if x.Via == "" && x.Fresh {
				fresh[x.Loc] = true
			}
		}
		if fresh[igEdge+".From"] && fresh[igEdge+".To"] {
			found = append(found, f)
		}
	}
	if len(found) == 1 {
		return found[0]
	}
	return m.SSAFunc("internal/graph", "NewEdge")
}

// anchorFitter: the recursive function of internal/geom that returns the list of control polygons (FitSpline).
func (m *Model) anchorFitter() *ssa.Function {
	var found []*ssa.Function
	for _, f := range m.Src {
		if shortPkg(pkgPathOf(f)) != "internal/geom" || f.Parent() != nil || m.FuncIsPosctl(f) || f.Signature.Results().Len() != 1 {
			continue
		}
		sl, ok := f.Signature.Results().At(0).Type().Underlying().(*types.Slice)
		if !ok || namedKey(sl.Elem()) != "internal/geom.ctrlp" {
			continue
		}
		if len(staticCalls(f, func(c *ssa.Function) bool { return c == f })) > 0 {
			found = append(found, f)
		}
	}
	if len(found) == 1 {
		return found[0]
	}
	return m.SSAFunc("internal/geom", "FitSpline")
}
