package main

// Engine E5: dimension (unit) inference by unification over the typed AST. Rule DIM-1.

import (
	"fmt"
	"go/ast"
	"go/constant"
	"go/token"
	"go/types"
	"sort"
	"strings"

	"golang.org/x/tools/go/callgraph"
	"golang.org/x/tools/go/ssa"
)

func init() {
	register(&Rule{
		ID: "DIM-1",
		Doc: "dimensional homogeneity: every float variable, field, parameter, result and container element of the in-scope code gets a degree variable; Size.{X,Y,W,H}, Params.{NodeSpacing,LayerSpacing} and route points are lengths (degree 1); literal 0 and +-Inf are polymorphic, every other constant and every integer is dimensionless; " +
			"+ - min max and comparisons unify their operands, * and / add/subtract degrees (one factor must be dimensionless), float->int conversion and Round/Floor/Ceil/Trunc/Sqrt/trig require dimensionless arguments. A conflict means an absolute constant is mixed with a length or a length decides a discrete value: the layout would not scale with its units. " +
			"Scope: functions reachable from Layout without passing through the NetworkSimplex positioner, spline routing (excluded by the property) or flatNonConsecutive (named suppression)",
		Floor: 140,
		Ctl:   []string{"internal__phase4__dim1.go.txt"},
		Run:   runDim1,
	})
}

type dimVar struct {
	parent *dimVar
	c      int // -1 unknown, 0, 1
	why    string
}

func (d *dimVar) find() *dimVar {
	for d.parent != nil {
		d = d.parent
	}
	return d
}

type dimShape interface{}
type dimScalar struct{ d *dimVar }
type dimElem struct{ e dimShape }
type dimTuple struct{ s []dimShape }

type dimProblem struct {
	pos  token.Pos
	fn   string
	kind string // conflict | nonlinear | length-to-discrete
	msg  string
}

type dimState struct {
	m        *Model
	varShape map[types.Object]dimShape
	problems []dimProblem
	reqs     []dimReq
	cut      map[*types.Func]bool
	inScope  map[*types.Func]bool
}

type dimReq struct {
	s   dimShape
	pos token.Pos
	fn  string
	msg string
}

func newDV(c int, why string) *dimVar { return &dimVar{c: c, why: why} }

func (ds *dimState) union(a, b *dimVar, pos token.Pos, fn, ctx string) {
	a, b = a.find(), b.find()
	if a == b {
		return
	}
	if a.c >= 0 && b.c >= 0 && a.c != b.c {
		ds.problems = append(ds.problems, dimProblem{pos, fn, "conflict", fmt.Sprintf("degree %d (%s) meets degree %d (%s) in %s", a.c, a.why, b.c, b.why, ctx)})
		return
	}
	if a.c < 0 {
		a.parent = b
	} else {
		b.parent = a
	}
}

func (ds *dimState) unify(a, b dimShape, pos token.Pos, fn, ctx string) {
	switch x := a.(type) {
	case dimScalar:
		if y, ok := b.(dimScalar); ok {
			ds.union(x.d, y.d, pos, fn, ctx)
		}
	case dimElem:
		if y, ok := b.(dimElem); ok {
			ds.unify(x.e, y.e, pos, fn, ctx)
		}
	case dimTuple:
		if y, ok := b.(dimTuple); ok {
			for i := range x.s {
				if i < len(y.s) {
					ds.unify(x.s[i], y.s[i], pos, fn, ctx)
				}
			}
		}
	}
}

func isFloatType(t types.Type) bool {
	if t == nil {
		return false
	}
	b, ok := t.Underlying().(*types.Basic)
	return ok && b.Info()&types.IsFloat != 0
}

func (ds *dimState) shapeOfType(t types.Type, why string, depth int) dimShape {
	if depth > 6 || t == nil {
		return nil
	}
	switch u := t.Underlying().(type) {
	case *types.Basic:
		if u.Info()&types.IsFloat != 0 {
			return dimScalar{newDV(-1, why)}
		}
	case *types.Slice:
		if s := ds.shapeOfType(u.Elem(), why, depth+1); s != nil {
			return dimElem{s}
		}
	case *types.Array:
		if s := ds.shapeOfType(u.Elem(), why, depth+1); s != nil {
			return dimElem{s}
		}
	case *types.Map:
		if s := ds.shapeOfType(u.Elem(), why, depth+1); s != nil {
			return dimElem{s}
		}
	case *types.Pointer:
		if _, isStruct := u.Elem().Underlying().(*types.Struct); isStruct {
			return nil
		}
		if s := ds.shapeOfType(u.Elem(), why, depth+1); s != nil {
			return dimElem{s}
		}
	}
	return nil
}

func (ds *dimState) shapeOfVar(o types.Object) dimShape {
	if o == nil {
		return nil
	}
	if v, ok := o.(*types.Var); ok && v.Origin() != nil {
		o = v.Origin()
	}
	if s, ok := ds.varShape[o]; ok {
		return s
	}
	s := ds.shapeOfType(o.Type(), o.Name(), 0)
	ds.varShape[o] = s
	return s
}

type dimWalker struct {
	ds      *dimState
	info    *types.Info
	results *types.Tuple
	fn      string
}

func (w *dimWalker) constShape(tv types.TypeAndValue) dimShape {
	switch tv.Value.Kind() {
	case constant.Int, constant.Float:
		if constant.Sign(tv.Value) == 0 {
			return dimScalar{newDV(-1, "0")}
		}
		return dimScalar{newDV(0, "constant "+tv.Value.String())}
	}
	return nil
}

func (w *dimWalker) expr(e ast.Expr) dimShape {
	if e == nil {
		return nil
	}
	ds := w.ds
	if tv, ok := w.info.Types[e]; ok && tv.Value != nil {
		return w.constShape(tv)
	}
	switch x := e.(type) {
	case *ast.ParenExpr:
		return w.expr(x.X)
	case *ast.Ident:
		if o := w.info.Uses[x]; o != nil {
			if _, isVar := o.(*types.Var); isVar {
				return ds.shapeOfVar(o)
			}
		}
		if o := w.info.Defs[x]; o != nil {
			return ds.shapeOfVar(o)
		}
		return nil
	case *ast.SelectorExpr:
		if sel, ok := w.info.Selections[x]; ok {
			w.expr(x.X)
			if sel.Kind() == types.FieldVal {
				return ds.shapeOfVar(sel.Obj())
			}
			return nil
		}
		if o, ok := w.info.Uses[x.Sel].(*types.Var); ok {
			return ds.shapeOfVar(o)
		}
		return nil
	case *ast.StarExpr:
		if s, ok := w.expr(x.X).(dimElem); ok {
			return s.e
		}
		return nil
	case *ast.UnaryExpr:
		s := w.expr(x.X)
		if x.Op == token.AND {
			if s != nil {
				return dimElem{s}
			}
			return nil
		}
		return s
	case *ast.BinaryExpr:
		l, r := w.expr(x.X), w.expr(x.Y)
		switch x.Op {
		case token.ADD, token.SUB:
			if l != nil && r != nil {
				ds.unify(l, r, x.Pos(), w.fn, types.ExprString(x))
				return l
			}
			if l != nil {
				return l
			}
			return r
		case token.MUL, token.QUO:
			ls, lok := l.(dimScalar)
			rs, rok := r.(dimScalar)
			if lok && rok {
				lc := ls.d.find().c
				rc := rs.d.find().c
				if rc == 0 {
					return l
				}
				if lc == 0 && x.Op == token.MUL {
					return r
				}
				if lc == 0 && x.Op == token.QUO && rc < 0 {
					// dimensionless / unknown: require the divisor to be dimensionless
					ds.union(rs.d, newDV(0, "divisor of a dimensionless quantity"), x.Pos(), w.fn, types.ExprString(x))
					return dimScalar{newDV(0, "ratio")}
				}
				if x.Op == token.QUO && lc == 1 && rc == 1 {
					return dimScalar{newDV(0, "ratio of lengths")}
				}
				if lc < 0 && rc < 0 {
					// both undetermined: postpone - require right side dimensionless (the only form in scope today)
					ds.reqs = append(ds.reqs, dimReq{r, x.Pos(), w.fn, "factor/divisor `" + types.ExprString(x.Y) + "` of `" + types.ExprString(x) + "` must be dimensionless"})
					return l
				}
				if rc < 0 && lc == 1 {
					ds.reqs = append(ds.reqs, dimReq{r, x.Pos(), w.fn, "factor/divisor `" + types.ExprString(x.Y) + "` of `" + types.ExprString(x) + "` must be dimensionless"})
					return l
				}
				if lc < 0 && rc == 1 && x.Op == token.MUL {
					ds.reqs = append(ds.reqs, dimReq{l, x.Pos(), w.fn, "factor `" + types.ExprString(x.X) + "` of `" + types.ExprString(x) + "` must be dimensionless"})
					return r
				}
				ds.problems = append(ds.problems, dimProblem{x.Pos(), w.fn, "nonlinear", "product/quotient of two dimensioned quantities: " + types.ExprString(x)})
				return dimScalar{newDV(-1, "nonlinear")}
			}
			if lok {
				return l
			}
			if rok && x.Op == token.MUL {
				return r
			}
			return nil
		case token.LSS, token.GTR, token.LEQ, token.GEQ, token.EQL, token.NEQ:
			if l != nil && r != nil {
				ds.unify(l, r, x.Pos(), w.fn, "comparison "+types.ExprString(x))
			}
			return nil
		}
		return nil
	case *ast.IndexExpr:
		w.expr(x.Index)
		if s, ok := w.expr(x.X).(dimElem); ok {
			return s.e
		}
		return nil
	case *ast.SliceExpr:
		return w.expr(x.X)
	case *ast.CompositeLit:
		t := w.info.TypeOf(x)
		if t == nil {
			return nil
		}
		switch u := t.Underlying().(type) {
		case *types.Struct:
			for i, el := range x.Elts {
				if kv, ok := el.(*ast.KeyValueExpr); ok {
					if id, ok := kv.Key.(*ast.Ident); ok {
						fo := w.info.Uses[id]
						v := w.expr(kv.Value)
						if fs := ds.shapeOfVar(fo); fs != nil && v != nil {
							ds.unify(fs, v, kv.Pos(), w.fn, "field "+id.Name+" of a literal")
						}
					}
				} else {
					v := w.expr(el)
					if i < u.NumFields() {
						if fs := ds.shapeOfVar(u.Field(i)); fs != nil && v != nil {
							ds.unify(fs, v, el.Pos(), w.fn, "field "+u.Field(i).Name()+" of a literal")
						}
					}
				}
			}
			return nil
		default:
			s := ds.shapeOfType(t, "literal", 0)
			if es, ok := s.(dimElem); ok {
				for _, el := range x.Elts {
					if kv, ok := el.(*ast.KeyValueExpr); ok {
						el = kv.Value
					}
					if cl, ok := el.(*ast.CompositeLit); ok && cl.Type == nil {
						if inner, ok := es.e.(dimElem); ok {
							for _, ie := range cl.Elts {
								if iv := w.expr(ie); iv != nil {
									ds.unify(inner.e, iv, ie.Pos(), w.fn, "element of a literal")
								}
							}
						}
						continue
					}
					if v := w.expr(el); v != nil {
						ds.unify(es.e, v, el.Pos(), w.fn, "element of a literal")
					}
				}
			}
			return s
		}
	case *ast.CallExpr:
		return w.call(x)
	case *ast.FuncLit:
		sig := w.info.TypeOf(x).(*types.Signature)
		w2 := &dimWalker{ds: ds, info: w.info, results: sig.Results(), fn: w.fn}
		w2.block(x.Body)
		return nil
	}
	return nil
}

func (w *dimWalker) call(c *ast.CallExpr) dimShape {
	ds := w.ds
	if tv, ok := w.info.Types[c.Fun]; ok && tv.IsType() {
		if len(c.Args) != 1 {
			return nil
		}
		arg := w.expr(c.Args[0])
		to := tv.Type
		from := w.info.TypeOf(c.Args[0])
		if isFloatType(to) {
			if isFloatType(from) {
				return arg
			}
			return dimScalar{newDV(0, "float64(integer)")}
		}
		if b, ok := to.Underlying().(*types.Basic); ok && b.Info()&types.IsInteger != 0 && isFloatType(from) {
			ds.reqs = append(ds.reqs, dimReq{arg, c.Pos(), w.fn, "float -> integer conversion " + types.ExprString(c) + " requires a dimensionless argument"})
			return nil
		}
		return arg
	}
	obj := calleeObj(w.info, c)
	if se, ok := c.Fun.(*ast.SelectorExpr); ok {
		if _, ok := w.info.Selections[se]; ok {
			w.expr(se.X)
		}
	}
	args := make([]dimShape, len(c.Args))
	for i, a := range c.Args {
		args[i] = w.expr(a)
	}
	if b, ok := obj.(*types.Builtin); ok {
		switch b.Name() {
		case "max", "min":
			var first dimShape
			for i, a := range args {
				if a == nil {
					continue
				}
				if first == nil {
					first = a
				} else {
					ds.unify(first, a, c.Args[i].Pos(), w.fn, types.ExprString(c))
				}
			}
			return first
		case "append":
			if len(args) == 0 {
				return nil
			}
			if s, ok := args[0].(dimElem); ok {
				for i := 1; i < len(args); i++ {
					if args[i] == nil {
						continue
					}
					if c.Ellipsis.IsValid() && i == len(args)-1 {
						ds.unify(args[0], args[i], c.Args[i].Pos(), w.fn, "append(...)")
					} else {
						ds.unify(s.e, args[i], c.Args[i].Pos(), w.fn, "append")
					}
				}
			}
			return args[0]
		case "make", "new":
			return ds.shapeOfType(w.info.TypeOf(c), "make", 0)
		case "copy":
			if len(args) == 2 && args[0] != nil && args[1] != nil {
				ds.unify(args[0], args[1], c.Pos(), w.fn, "copy")
			}
		}
		return nil
	}
	if fn, ok := obj.(*types.Func); ok {
		if or := fn.Origin(); or != nil {
			fn = or
		}
		pk := ""
		if fn.Pkg() != nil {
			pk = fn.Pkg().Path()
		}
		full := fn.FullName()
		switch full {
		case "math.Abs":
			return args[0]
		case "math.Max", "math.Min":
			if args[0] != nil && args[1] != nil {
				ds.unify(args[0], args[1], c.Pos(), w.fn, types.ExprString(c))
			}
			return args[0]
		case "math.Inf":
			return dimScalar{newDV(-1, "Inf")}
		case "math.Floor", "math.Ceil", "math.Round", "math.Trunc", "math.Sqrt", "math.Cbrt", "math.Cos", "math.Sin", "math.Atan2", "math.Hypot", "math.Pow", "math.Log", "math.Exp", "math.Mod":
			for i := range args {
				ds.reqs = append(ds.reqs, dimReq{args[i], c.Pos(), w.fn, full + " requires a dimensionless argument: " + types.ExprString(c)})
			}
			return dimScalar{newDV(0, full)}
		case "slices.Clone", "slices.Clip", "slices.Grow", "maps.Clone":
			return args[0]
		case "slices.Backward", "slices.Values", "slices.All":
			return nil
		}
		if inModulePath(pk) {
			if w.ds.cut[fn] {
				return ds.shapeOfType(w.info.TypeOf(c), "result of an out-of-scope function", 0)
			}
			sig := fn.Type().(*types.Signature)
			for i, a := range args {
				if a == nil {
					continue
				}
				var p *types.Var
				if i < sig.Params().Len() {
					p = sig.Params().At(i)
				} else if sig.Variadic() {
					p = sig.Params().At(sig.Params().Len() - 1)
				}
				if p == nil {
					continue
				}
				ps := ds.shapeOfVar(p)
				if sig.Variadic() && i >= sig.Params().Len()-1 && !c.Ellipsis.IsValid() {
					if es, ok := ps.(dimElem); ok {
						ps = es.e
					}
				}
				if ps != nil {
					ds.unify(ps, a, c.Args[i].Pos(), w.fn, "argument of "+fn.Name())
				}
			}
			rs := sig.Results()
			if rs.Len() == 1 {
				return ds.shapeOfVar(rs.At(0))
			}
			if rs.Len() > 1 {
				t := dimTuple{}
				for i := 0; i < rs.Len(); i++ {
					t.s = append(t.s, ds.shapeOfVar(rs.At(i)))
				}
				return t
			}
			return nil
		}
		// a library function that hands the elements of a slice argument to a callback argument (slices.SortFunc, IndexFunc, ContainsFunc,
		// MaxFunc ...): the callback's parameters of the element type are elements of that slice (added after seeded change C17g, whose
		// comparator truncated the difference of two coordinates)
		for i, a := range args {
			es, isSl := a.(dimElem)
			if !isSl {
				continue
			}
			st, ok := w.info.TypeOf(c.Args[i]).Underlying().(*types.Slice)
			if !ok {
				continue
			}
			for _, a2 := range c.Args {
				fl, ok := stripParens(a2).(*ast.FuncLit)
				if !ok || fl.Type.Params == nil {
					continue
				}
				for _, f := range fl.Type.Params.List {
					for _, nm := range f.Names {
						if o := w.info.ObjectOf(nm); o != nil && types.Identical(o.Type(), st.Elem()) {
							if ps := ds.shapeOfVar(o); ps != nil {
								ds.unify(ps, es.e, nm.Pos(), w.fn, "callback parameter of "+full)
							}
						}
					}
				}
			}
		}
		return ds.shapeOfType(w.info.TypeOf(c), "result of "+full, 0)
	}
	// call of a func-typed variable: unify with the signature's parameter objects when they are named
	if sig, ok := w.info.TypeOf(c.Fun).Underlying().(*types.Signature); ok {
		for i, a := range args {
			if a != nil && i < sig.Params().Len() {
				if ps := ds.shapeOfVar(sig.Params().At(i)); ps != nil {
					ds.unify(ps, a, c.Args[i].Pos(), w.fn, "argument of a function value")
				}
			}
		}
		if sig.Results().Len() == 1 {
			return ds.shapeOfVar(sig.Results().At(0))
		}
	}
	return ds.shapeOfType(w.info.TypeOf(c), "dynamic call", 0)
}

func (w *dimWalker) assign(lhs []ast.Expr, rhs []ast.Expr, tok token.Token, pos token.Pos) {
	ds := w.ds
	if len(lhs) == len(rhs) {
		for i := range lhs {
			l := w.expr(lhs[i])
			r := w.expr(rhs[i])
			switch tok {
			case token.MUL_ASSIGN, token.QUO_ASSIGN:
				if r != nil {
					ds.reqs = append(ds.reqs, dimReq{r, pos, w.fn, "factor of " + types.ExprString(lhs[i]) + " " + tok.String() + " must be dimensionless"})
				}
			default:
				if l != nil && r != nil {
					ds.unify(l, r, pos, w.fn, types.ExprString(lhs[i])+" "+tok.String()+" "+types.ExprString(rhs[i]))
				}
			}
		}
		return
	}
	if len(rhs) == 1 {
		r := w.expr(rhs[0])
		if t, ok := r.(dimTuple); ok {
			for i := range lhs {
				l := w.expr(lhs[i])
				if l != nil && i < len(t.s) && t.s[i] != nil {
					ds.unify(l, t.s[i], pos, w.fn, "tuple assignment")
				}
			}
		} else {
			l := w.expr(lhs[0])
			if l != nil && r != nil {
				ds.unify(l, r, pos, w.fn, "comma-ok assignment")
			}
		}
	}
}

func (w *dimWalker) block(b *ast.BlockStmt) {
	if b == nil {
		return
	}
	for _, s := range b.List {
		w.stmt(s)
	}
}

func (w *dimWalker) stmt(s ast.Stmt) {
	ds := w.ds
	switch x := s.(type) {
	case *ast.AssignStmt:
		w.assign(x.Lhs, x.Rhs, x.Tok, x.Pos())
	case *ast.DeclStmt:
		if gd, ok := x.Decl.(*ast.GenDecl); ok {
			for _, sp := range gd.Specs {
				if vs, ok := sp.(*ast.ValueSpec); ok && len(vs.Values) > 0 {
					var lhs []ast.Expr
					for _, n := range vs.Names {
						lhs = append(lhs, n)
					}
					w.assign(lhs, vs.Values, token.DEFINE, vs.Pos())
				}
			}
		}
	case *ast.ExprStmt:
		w.expr(x.X)
	case *ast.IncDecStmt:
		if l, ok := w.expr(x.X).(dimScalar); ok {
			ds.union(l.d, newDV(0, "++/--"), x.Pos(), w.fn, types.ExprString(x.X)+x.Tok.String())
		}
	case *ast.BlockStmt:
		w.block(x)
	case *ast.IfStmt:
		if x.Init != nil {
			w.stmt(x.Init)
		}
		w.expr(x.Cond)
		w.block(x.Body)
		if x.Else != nil {
			w.stmt(x.Else)
		}
	case *ast.ForStmt:
		if x.Init != nil {
			w.stmt(x.Init)
		}
		w.expr(x.Cond)
		if x.Post != nil {
			w.stmt(x.Post)
		}
		w.block(x.Body)
	case *ast.RangeStmt:
		xs := w.expr(x.X)
		if es, ok := xs.(dimElem); ok && x.Value != nil {
			if v := w.expr(x.Value); v != nil {
				ds.unify(v, es.e, x.Pos(), w.fn, "range value")
			}
		}
		// range over a map with float keys does not occur; range-over-func: element shapes come from the iterator's yield parameter
		if sig, ok := w.info.TypeOf(x.X).Underlying().(*types.Signature); ok && sig.Params().Len() == 1 {
			if ysig, ok := sig.Params().At(0).Type().Underlying().(*types.Signature); ok {
				if x.Key != nil && ysig.Params().Len() >= 1 {
					if k := w.expr(x.Key); k != nil {
						if ps := ds.shapeOfType(ysig.Params().At(0).Type(), "yield", 0); ps != nil {
							ds.unify(k, ps, x.Pos(), w.fn, "range-over-func key")
						}
					}
				}
			}
		}
		w.block(x.Body)
	case *ast.SwitchStmt:
		if x.Init != nil {
			w.stmt(x.Init)
		}
		var tag dimShape
		if x.Tag != nil {
			tag = w.expr(x.Tag)
		}
		for _, cc := range x.Body.List {
			c := cc.(*ast.CaseClause)
			for _, e := range c.List {
				v := w.expr(e)
				if tag != nil && v != nil {
					ds.unify(tag, v, e.Pos(), w.fn, "switch case")
				}
			}
			for _, st := range c.Body {
				w.stmt(st)
			}
		}
	case *ast.TypeSwitchStmt:
		for _, cc := range x.Body.List {
			for _, st := range cc.(*ast.CaseClause).Body {
				w.stmt(st)
			}
		}
	case *ast.ReturnStmt:
		if w.results != nil && len(x.Results) == w.results.Len() {
			for i, r := range x.Results {
				v := w.expr(r)
				rs := ds.shapeOfVar(w.results.At(i))
				if v != nil && rs != nil {
					ds.unify(rs, v, r.Pos(), w.fn, "return")
				}
			}
		} else if len(x.Results) == 1 && w.results != nil {
			v := w.expr(x.Results[0])
			if t, ok := v.(dimTuple); ok {
				for i := range t.s {
					if i < w.results.Len() && t.s[i] != nil {
						if rs := ds.shapeOfVar(w.results.At(i)); rs != nil {
							ds.unify(rs, t.s[i], x.Pos(), w.fn, "return tuple")
						}
					}
				}
			}
		}
	case *ast.LabeledStmt:
		w.stmt(x.Stmt)
	case *ast.DeferStmt:
		w.expr(x.Call)
	case *ast.GoStmt:
		w.expr(x.Call)
	}
}

// dimCutRoots: entry points excluded by the property (NetworkSimplex positioner, spline routing) and the named suppression.
func dimCutRoots(m *Model) map[*ssa.Function]string {
	out := map[*ssa.Function]string{}
	if f := m.SSAFunc("internal/phase4", dispatchCallee(m, "internal/phase4", "NetworkSimplex", "execNetworkSimplex")); f != nil {
		out[f] = "NetworkSimplex positioner (works on an integer grid; excluded by the property)"
	}
	if f := m.SSAFunc("internal/phase5", dispatchCallee(m, "internal/phase5", "Splines", "execSplines")); f != nil {
		out[f] = "spline routing (excluded by the property)"
	}
	if f := m.SSAFunc("internal/phase5", "flatNonConsecutive"); f != nil {
		out[f] = "named suppression: absolute offsets 20/10/5 for same-layer edges, which a feasible layering never produces"
	}
	return out
}

// isDefaultsConstructor: a function of the root package without parameters or receiver whose body is a single return of
// the options record, the output record or the parameter record (graph.Params) - the functional spelling of the
// package-level defaults literal.
func isDefaultsConstructor(f *ssa.Function, fd *ast.FuncDecl) bool {
	if pkgPathOf(f) != modPath || fd.Recv != nil || fd.Type.Params.NumFields() != 0 || len(fd.Body.List) != 1 {
		return false
	}
	if _, ok := fd.Body.List[0].(*ast.ReturnStmt); !ok {
		return false
	}
	res := f.Signature.Results()
	if res.Len() != 1 {
		return false
	}
	switch namedKey(res.At(0).Type()) {
	case "autog.options", "autog.output", "internal/graph.Params":
		return true
	}
	return false
}

func runDim1(m *Model, r *RuleResult) {
	cuts := dimCutRoots(m)
	if len(cuts) != 3 {
		r.undecided("scope-anchors", "-", "the three excluded entry points (execNetworkSimplex, execSplines, flatNonConsecutive)", fmt.Sprintf("only %d found", len(cuts)))
	}
	// reachability from the roots without expanding cut roots
	reach := map[*ssa.Function]bool{}
	var stack []*callgraph.Node
	for _, rt := range m.Roots {
		if n := m.CG.Nodes[rt]; n != nil {
			stack = append(stack, n)
		}
	}
	for len(stack) > 0 {
		n := stack[len(stack)-1]
		stack = stack[:len(stack)-1]
		if reach[n.Func] {
			continue
		}
		reach[n.Func] = true
		if _, isCut := cuts[n.Func]; isCut {
			continue
		}
		for _, e := range n.Out {
			stack = append(stack, e.Callee)
		}
	}
	ds := &dimState{m: m, varShape: map[types.Object]dimShape{}, cut: map[*types.Func]bool{}, inScope: map[*types.Func]bool{}}
	for f, why := range cuts {
		if fn, ok := f.Object().(*types.Func); ok {
			ds.cut[fn] = true
		}
		r.Notes = append(r.Notes, "out of scope: "+funcKey(f)+" - "+why)
	}
	// seeds
	seed := func(pkg, typ string, fields map[string]dimShape) bool {
		p := m.Pkg(pkg)
		if p == nil {
			return false
		}
		o := p.Types.Scope().Lookup(typ)
		if o == nil {
			return false
		}
		st, ok := o.Type().Underlying().(*types.Struct)
		if !ok {
			return false
		}
		n := 0
		for i := 0; i < st.NumFields(); i++ {
			if s, ok := fields[st.Field(i).Name()]; ok {
				ds.varShape[st.Field(i)] = s
				n++
			}
		}
		return n == len(fields)
	}
	L := func(why string) dimShape { return dimScalar{newDV(1, why)} }
	okSeeds := seed("internal/graph", "Size", map[string]dimShape{"X": L("Size.X"), "Y": L("Size.Y"), "W": L("Size.W"), "H": L("Size.H")}) &&
		seed("internal/graph", "Params", map[string]dimShape{"NodeSpacing": L("Params.NodeSpacing"), "LayerSpacing": L("Params.LayerSpacing")}) &&
		seed("internal/graph", "edge", map[string]dimShape{"Points": dimElem{dimElem{L("Edge.Points")}}}) &&
		seed("graph", "Edge", map[string]dimShape{"Points": dimElem{dimElem{L("graph.Edge.Points")}}})
	if !okSeeds {
		r.undecided("seeds", "-", "length-valued fields Size.{X,Y,W,H}, Params.{NodeSpacing,LayerSpacing}, Edge.Points", "a seed field no longer exists")
		return
	}
	// in-scope top-level functions (walk FuncDecls; literals are walked with their parent)
	scopePkgs := map[string]bool{"autog": true, "graph": true, "internal/graph": true, "internal/graph/connected": true, "internal/processor/preprocessor": true, "internal/processor/postprocessor": true,
		"internal/phase1": true, "internal/phase2": true, "internal/phase3": true, "internal/phase4": true, "internal/phase5": true, "internal/num": true, "internal/monitor": true, "internal/processor": true}
	type unit struct {
		f  *ssa.Function
		fd *ast.FuncDecl
	}
	var units []unit
	seenDecl := map[*ast.FuncDecl]bool{}
	for _, f := range m.Src {
		t := f
		for t.Parent() != nil {
			t = t.Parent()
		}
		if or := t.Origin(); or != nil {
			t = or
		}
		if _, isCut := cuts[t]; isCut {
			continue
		}
		if !(reach[f] || m.FuncIsPosctl(f)) || !scopePkgs[shortPkg(pkgPathOf(t))] {
			continue
		}
		fd, ok := t.Syntax().(*ast.FuncDecl)
		if !ok || fd.Body == nil || seenDecl[fd] {
			continue
		}
		seenDecl[fd] = true
		if isDefaultsConstructor(t, fd) {
			// the documented defaults are stated in the caller's unit, exactly like the package-level literal they replace
			r.Notes = append(r.Notes, "defaults constructor, not analysed (its constants are the documented defaults): "+funcKey(t))
			continue
		}
		units = append(units, unit{t, fd})
	}
	sort.Slice(units, func(i, j int) bool { return funcKey(units[i].f) < funcKey(units[j].f) })
	for _, u := range units {
		p := m.ByPath[pkgPathOf(u.f)]
		if p == nil {
			continue
		}
		obj, _ := p.TypesInfo.Defs[u.fd.Name].(*types.Func)
		var res *types.Tuple
		if obj != nil {
			res = obj.Type().(*types.Signature).Results()
			ds.inScope[obj] = true
		}
		w := &dimWalker{ds: ds, info: p.TypesInfo, results: res, fn: funcKey(u.f)}
		w.block(u.fd.Body)
	}
	// requirements
	for _, q := range ds.reqs {
		if sc, ok := q.s.(dimScalar); ok && sc.d.find().c == 1 {
			ds.problems = append(ds.problems, dimProblem{q.pos, q.fn, "length-to-discrete", q.msg + " (it is a length: " + sc.d.find().why + ")"})
		}
	}
	byFn := map[string][]dimProblem{}
	for _, pr := range ds.problems {
		byFn[pr.fn] = append(byFn[pr.fn], pr)
	}
	for _, u := range units {
		k := funcKey(u.f)
		ctl := m.FuncIsPosctl(u.f)
		prs := byFn[k]
		if len(prs) == 0 {
			r.add(Obligation{Key: "dim:" + k, Pos: m.Pos(u.fd.Pos()), Desc: "dimensionally homogeneous", Verdict: "holds", Control: ctl})
			continue
		}
		var msgs []string
		for _, pr := range prs {
			msgs = append(msgs, m.Pos(pr.pos)+": "+pr.kind+": "+pr.msg)
		}
		sort.Strings(msgs)
		msgs = uniq(msgs)
		r.add(Obligation{Key: "dim:" + k, Pos: m.Pos(prs[0].pos), Desc: "lengths mixed with absolute numbers or used for a discrete decision", Verdict: "violation",
			Detail: strings.Join(msgs, "; ") + ": multiplying all sizes and spacings by a common factor no longer multiplies every coordinate by it", Control: ctl})
	}
	// summary
	n0, n1, nu := 0, 0, 0
	for _, s := range ds.varShape {
		var d *dimVar
		switch x := s.(type) {
		case dimScalar:
			d = x.d
		case dimElem:
			if sc, ok := x.e.(dimScalar); ok {
				d = sc.d
			}
		}
		if d == nil {
			continue
		}
		switch d.find().c {
		case 0:
			n0++
		case 1:
			n1++
		default:
			nu++
		}
	}
	r.stat("functions_walked", len(units))
	r.stat("float_vars_dimensionless", n0)
	r.stat("float_vars_length", n1)
	r.stat("float_vars_unconstrained", nu)
}
