package main

// Checker self-validation: seeded mutants (must be reported by the expected rule) and behaviour-preserving variants
// (must stay silent), applied as in-memory overlays of /repo's current files. One sub-process per entry.

import (
	"encoding/json"
	"fmt"
	"os"
	"os/exec"
	"path/filepath"
	"sort"
	"strings"
	"sync"
)

type catEntry struct {
	Name   string   `json:"name"`
	Kind   string   `json:"kind"` // mutant | benign
	File   string   `json:"file"`
	Old    string   `json:"old"`
	New    string   `json:"new"`
	Expect []string `json:"expect"`
	Note   string   `json:"note"`
}

type catResult struct {
	Name     string   `json:"name"`
	Kind     string   `json:"kind"`
	Status   string   `json:"status"` // detected | missed | silent | false-alarm | anchor-unavailable | does-not-compile
	Reported []string `json:"reported,omitempty"`
	Expect   []string `json:"expect"`
	Note     string   `json:"note,omitempty"`
}

func readCatalogue(verifDir string) ([]catEntry, error) {
	b, err := os.ReadFile(filepath.Join(verifDir, "selftest", "catalogue.json"))
	if err != nil {
		return nil, err
	}
	var c []catEntry
	return c, json.Unmarshal(b, &c)
}

// selftestOne evaluates one catalogue entry in this process and prints a JSON result.
func selftestOne(verifDir, repoDir, name string) catResult {
	cat, err := readCatalogue(verifDir)
	res := catResult{Name: name}
	if err != nil {
		res.Status = "catalogue-error: " + err.Error()
		return res
	}
	var e *catEntry
	for i := range cat {
		if cat[i].Name == name {
			e = &cat[i]
		}
	}
	if e == nil {
		res.Status = "unknown-entry"
		return res
	}
	res.Kind, res.Expect, res.Note = e.Kind, e.Expect, e.Note
	path := filepath.Join(repoDir, e.File)
	src, err := os.ReadFile(path)
	if err != nil || strings.Count(string(src), e.Old) != 1 {
		res.Status = "anchor-unavailable"
		return res
	}
	overlay := map[string][]byte{path: []byte(strings.Replace(string(src), e.Old, e.New, 1))}
	m, err := Load(LoadOpts{RepoDir: repoDir, Overlay: overlay})
	if err != nil {
		res.Status = "does-not-compile"
		res.Note = err.Error()
		return res
	}
	for _, rid := range e.Expect {
		r := rules[rid]
		if r == nil {
			continue
		}
		rr := &RuleResult{Rule: rid}
		func() {
			defer func() {
				if p := recover(); p != nil {
					rr.undecided("checker-panic", "-", "panic", fmt.Sprint(p))
				}
			}()
			r.Run(m, rr)
		}()
		real := 0
		for _, o := range rr.Obligations {
			if o.Control || strings.Contains(o.Key, "zzVerifPosctl") {
				continue
			}
			real++
			if o.Verdict != "holds" {
				res.Reported = append(res.Reported, rid+"["+o.Key+"]")
			}
		}
		if real < r.Floor {
			res.Reported = append(res.Reported, rid+"[anchor-floor]")
		}
	}
	sort.Strings(res.Reported)
	switch {
	case e.Kind == "mutant" && len(res.Reported) > 0:
		res.Status = "detected"
	case e.Kind == "mutant":
		res.Status = "missed"
	case len(res.Reported) > 0:
		res.Status = "false-alarm"
	default:
		res.Status = "silent"
	}
	return res
}

// selftestAll runs the catalogue (optionally restricted to entries expecting one of the given rules), in parallel sub-processes.
func selftestAll(verifDir, repoDir string, onlyRules map[string]bool, par int) []catResult {
	cat, err := readCatalogue(verifDir)
	if err != nil {
		return []catResult{{Name: "catalogue", Status: "catalogue-error: " + err.Error()}}
	}
	var todo []catEntry
	for _, e := range cat {
		if onlyRules != nil {
			hit := false
			for _, r := range e.Expect {
				if onlyRules[r] {
					hit = true
				}
			}
			if !hit {
				continue
			}
		}
		todo = append(todo, e)
	}
	out := make([]catResult, len(todo))
	exe, _ := os.Executable()
	var wg sync.WaitGroup
	sem := make(chan struct{}, par)
	for i, e := range todo {
		wg.Add(1)
		sem <- struct{}{}
		go func(i int, e catEntry) {
			defer wg.Done()
			defer func() { <-sem }()
			cmd := exec.Command(exe, "selftest-one", "-name", e.Name, "-repo", repoDir, "-verif", verifDir)
			b, err := cmd.Output()
			var r catResult
			if err != nil || json.Unmarshal(b, &r) != nil {
				r = catResult{Name: e.Name, Kind: e.Kind, Status: "subprocess-failed", Expect: e.Expect}
			}
			out[i] = r
		}(i, e)
	}
	wg.Wait()
	return out
}

func summarizeSelftest(rs []catResult) map[string]any {
	cnt := map[string]int{}
	var problems []string
	for _, r := range rs {
		cnt[r.Kind+":"+r.Status]++
		if r.Status == "missed" || r.Status == "false-alarm" || strings.HasPrefix(r.Status, "subprocess") || r.Status == "does-not-compile" {
			problems = append(problems, r.Name+": "+r.Status+" "+strings.Join(r.Reported, ","))
		}
	}
	return map[string]any{"entries": len(rs), "counts": cnt, "problems": problems, "results": rs}
}
