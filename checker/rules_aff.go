package main

// Rules on top of the symbolic affine executor (engine E4): AFF-1..5, AFF-7, AFF-8, AFF-9.

import (
	"fmt"
	"go/ast"
	"go/token"
	"go/types"
	"math"
	"regexp"
	"sort"
	"strings"

	"golang.org/x/tools/go/ssa"
)

func init() {
	register(&Rule{
		ID: "AFF-1",
		Doc: "route anchors: for every router, on every non-flat path the first emitted point is (B.X + B.W/2, B.Y + B.H) with B = ns[0] and the last is (E.X + E.W/2, E.Y) with E = ns[len(ns)-1] (loop emissions are evaluated at the first/last iteration, under the path condition that route ends are real nodes); " +
			"the spline router hands the same two anchors (of e.From / e.To) to the path finder",
		Floor: 4,
		Ctl:   []string{"internal__phase5__aff1.go.txt"},
		Run:   runAff1,
	})
	register(&Rule{
		ID: "AFF-2",
		Doc: "route shapes: Straight emits exactly 2 points on every path; Polyline emits 2 points for 2-node routes and otherwise [start, one point per element of ns[1:len-1] at (n.X + n.W/2, n.Y + layerH(n)/2), end]; " +
			"the spline router emits either the 4 controls of MakeSpline or, iterating the fitted pieces backward, the 4 controls of each piece in reverse order",
		Floor: 3,
		Run:   runAff2,
	})
	register(&Rule{
		ID:    "AFF-3",
		Doc:   "orthogonal routing: inside one elbow (one iteration of the per-gap loop) consecutive points share an identical x or y expression, and the last point of iteration i shares x with the first point of iteration i+1",
		Floor: 3,
		Ctl:   []string{"internal__phase5__aff3.go.txt"},
		Run:   runAff3,
	})
	register(&Rule{
		ID: "AFF-4",
		Doc: "VAlign: forward loop over layer.Nodes stores X := c with c' - c = n.W + NodeSpacing, c0 = (M - E)/2 where E = layer.W is accumulated as sum of n.W plus NodeSpacing except after the last node (started at 0) and M is a max-reduction of E over all layers (started at 0). " +
			"PackRight: backward loop stores X := c' with c' - c = -(n.W + NodeSpacing), c0 = 0; then X := X - L with L a min-reduction (started at 0) of the final c of every layer",
		Floor: 11,
		Ctl:   []string{"internal__phase4__aff4.go.txt"},
		Run:   runAff4,
	})
	register(&Rule{
		ID:    "AFF-5",
		Doc:   "Y assignment: the value stored into Node.Y is the running y of the outer (per-layer) loop, invariant in the inner (per-node) loop; y0 = 0 and y' - y = layer.H + LayerSpacing",
		Floor: 4,
		Ctl:   []string{"internal__phase4__aff5.go.txt"},
		Run:   runAff5,
	})
	register(&Rule{
		ID: "AFF-7",
		Doc: "separation dominance of the NetworkSimplex positioner: with Delta(v,w) the minimum length of the auxiliary edge between neighbours v (left) and w (right) and X(n) = auxLayer(n) + off(n) the stored coordinate, " +
			"the linear form Delta(v,w) + off(w) - off(v) - (v.W + NodeSpacing) must have no negative coefficient (so X(w) - X(v) >= v.W + NodeSpacing for all widths); auxiliary nodes copy W from their originals",
		Floor: 3,
		Run:   runAff7,
	})
	register(&Rule{
		ID: "AFF-8",
		Doc: "longest-path recurrence: the per-node height starts at the constant 1 and is updated as max(acc, h(child) + e.Delta) over out-edges (self-loops skipped), the memo and the running maximum are updated with that height, " +
			"and Node.Layer := L - height[n] is stored in a loop that follows the traversal loop, with L the variable the traversal max-updates",
		Floor: 4,
		Run:   runAff8,
	})
	register(&Rule{
		ID: "AFF-9",
		Doc: "spline pieces join: the two recursive FitSpline calls take path[:k+1] and path[k:] of the same k, pass the same tangent variable as last/first tangent and the outer tangents unchanged, and their results are appended upper-then-lower; every ctrlp literal sets p0/p3 from path[0]/path[len-1], from another piece's p0/p3 or from its first/second point parameter; " +
			"Float64Slice lists p0,p1,p2,p3 in order",
		Floor: 6,
		Run:   runAff9,
	})
}

func isFlatCond(c string) bool {
	c = strings.TrimSpace(c)
	if strings.HasPrefix(c, "!") {
		return false
	}
	return (strings.Contains(c, "From.Layer == ") && strings.Contains(c, "To.Layer")) || strings.Contains(c, ".IsFlat()")
}

func pathIsFlat(st *affState) bool {
	for _, c := range st.cond {
		if isFlatCond(c) {
			return true
		}
	}
	return false
}

// substIdx rewrites atoms whose base is an indexed reference, substituting variable v by repl inside the index.
func substIdx(res *affResult, l lin, v string, repl lin) lin {
	out := linConst(l.k)
	for a, c := range l.c {
		na := a
		// longest registered base that prefixes the atom
		best := ""
		for b := range res.idx {
			if strings.HasPrefix(a, b) && len(b) > len(best) {
				best = b
			}
		}
		if best != "" {
			info := res.idx[best]
			ni := linConst(info.idx.k)
			for ia, ic := range info.idx.c {
				if ia == v {
					ni = ni.add(repl, ic)
				} else {
					ni = ni.add(linAtom(ia), ic)
				}
			}
			na = info.container + "[" + ni.String() + "]" + a[len(best):]
		}
		out = out.add(linAtom(na), c)
	}
	return out
}

func substCond(res *affResult, c string, v string, repl lin) string {
	best := ""
	for b := range res.idx {
		if strings.Contains(c, b) && len(b) > len(best) {
			best = b
		}
	}
	if best == "" {
		return c
	}
	info := res.idx[best]
	ni := linConst(info.idx.k)
	for ia, ic := range info.idx.c {
		if ia == v {
			ni = ni.add(repl, ic)
		} else {
			ni = ni.add(linAtom(ia), ic)
		}
	}
	return strings.ReplaceAll(c, best, info.container+"["+ni.String()+"]")
}

// scFeasibleAt: can the structured conditions hold when variable key has the value repl? Comparisons that do not reduce to
// a constant or to len(container)+k are kept (feasible); len(container) >= minLen is the caller's hypothesis.
func scFeasibleAt(sc []affCond, key string, repl lin, container string, minLen float64) bool {
	return scFeasibleOver(sc, key, []lin{repl}, container, minLen)
}

// scFeasibleOver: as scFeasibleAt for an index that ranges between the given corner values (the comparisons are linear
// in the index, so their extremes are at the corners).
func scFeasibleOver(sc []affCond, key string, corners []lin, container string, minLen float64) bool {
	for _, c := range sc {
		l, ok1 := c.l.(lin)
		r, ok2 := c.r.(lin)
		if !ok1 || !ok2 {
			continue
		}
		d0 := l.add(r, -1)
		co0, has := d0.c[key]
		if !has || co0 == 0 {
			continue // does not constrain the index
		}
		lo, hi := math.Inf(1), math.Inf(-1)
		known := true
		for _, repl := range corners {
			d := linConst(d0.k)
			for a, c := range d0.c {
				if a != key {
					d = d.add(linAtom(a), c)
				}
			}
			d = d.add(repl, co0)
			clo, chi := d.k, d.k
			for a, co := range d.c {
				if co == 0 {
					continue
				}
				if a == "len("+container+")" {
					if co > 0 {
						clo += co * minLen
						chi = math.Inf(1)
					} else {
						chi += co * minLen
						clo = math.Inf(-1)
					}
				} else {
					known = false
				}
			}
			lo, hi = math.Min(lo, clo), math.Max(hi, chi)
		}
		if !known {
			continue
		}
		var can, must bool // can the comparison d op 0 be true / is it always true
		switch c.op {
		case "==":
			can, must = lo <= 0 && hi >= 0, lo == 0 && hi == 0
		case "!=":
			can, must = !(lo == 0 && hi == 0), lo > 0 || hi < 0
		case "<":
			can, must = lo < 0, hi < 0
		case "<=":
			can, must = lo <= 0, hi <= 0
		case ">":
			can, must = hi > 0, lo > 0
		case ">=":
			can, must = hi >= 0, lo >= 0
		default:
			continue
		}
		if c.neg {
			can = !must
		}
		if !can {
			return false
		}
	}
	return true
}

var identRe = map[string]*regexp.Regexp{}

// substVar rewrites the atoms of l: the value variable val becomes the element reference el, the key variable the index.
func substVar(l lin, val, el, key string, idx lin) lin {
	out := linConst(l.k)
	re := func(name string) *regexp.Regexp {
		if identRe[name] == nil {
			identRe[name] = regexp.MustCompile(`(^|[^A-Za-z0-9_.])` + regexp.QuoteMeta(name) + `($|[^A-Za-z0-9_])`)
		}
		return identRe[name]
	}
	for a, c := range l.c {
		if key != "" && a == key {
			out = out.add(idx, c)
			continue
		}
		na := a
		if val != "" {
			for i := 0; i < 4; i++ {
				nn := re(val).ReplaceAllString(na, "${1}"+el+"${2}")
				if nn == na {
					break
				}
				na = nn
			}
		}
		if key != "" {
			na = re(key).ReplaceAllString(na, "${1}"+idx.String()+"${2}")
		}
		out = out.add(linAtom(na), c)
	}
	return out
}

type anchorPt struct {
	x, y lin
	ok   bool
	why  string
}

// firstLast resolves the first and the last point of an emission list (loops evaluated at their first / last iteration).
func firstLast(res *affResult, items []affItem, routeVar string) (first, last []anchorPt) {
	if len(items) == 0 {
		return nil, nil
	}
	resolve := func(it affItem, wantFirst bool) []anchorPt {
		if it.star == nil {
			x, y, ok := pointOf(it.val)
			why := "not a 2-coordinate point: " + avalString(it.val)
			if strings.Contains(why, "final(") {
				why += " (the point list is carried over from one route to the next: the routes share storage, or the list is not rebuilt per route)"
			}
			return []anchorPt{{x, y, ok, why}}
		}
		l := it.star
		var out []anchorPt
		if l.initLin == nil || l.lastLin == nil || (l.kind == "range" && l.valVar == "" && l.keyVar == "") {
			return []anchorPt{{ok: false, why: "route starts/ends with the emissions of a loop whose first/last iteration is not known"}}
		}
		repl := *l.initLin
		if !wantFirst {
			repl = *l.lastLin
		}
		for _, p := range l.paths {
			if l.keyVar != "" && !scFeasibleAt(p.sc, l.keyVar, repl, l.container, 2) {
				continue // this body path is not taken in the first / last iteration
			}
			if l.kind == "for" && l.keyVar != "" {
				// skip body paths whose condition says that a route end is a helper node (excluded by PAIR-4)
				skip := false
				for _, c := range p.cond {
					cc := substCond(res, c, l.keyVar, repl)
					if !strings.HasPrefix(cc, "!") && strings.HasSuffix(cc, ".IsVirtual") {
						if strings.Contains(cc, ".ns[0]") || strings.Contains(cc, ".ns[len(") {
							skip = true
						}
					}
				}
				if skip {
					continue
				}
			}
			var its []affItem
			for _, v := range p.emits {
				its = v
			}
			if len(its) == 0 {
				if p.stopped == "" || p.stopped == "continue" {
					out = append(out, anchorPt{ok: false, why: fmt.Sprintf("the %s iteration may emit no point (path %v)", map[bool]string{true: "first", false: "last"}[wantFirst], p.cond)})
				}
				continue
			}
			sel := its[0]
			if !wantFirst {
				sel = its[len(its)-1]
			}
			if sel.star != nil {
				out = append(out, anchorPt{ok: false, why: "nested loop emission"})
				continue
			}
			x, y, ok := pointOf(sel.val)
			if !ok {
				out = append(out, anchorPt{ok: false, why: "not a point: " + avalString(sel.val)})
				continue
			}
			if l.kind == "for" {
				x = substIdx(res, x, l.keyVar, repl)
				y = substIdx(res, y, l.keyVar, repl)
			} else {
				// range loop: the value variable is container[index], the key variable is the index
				el := l.container + "[" + repl.String() + "]"
				x = substVar(x, l.valVar, el, l.keyVar, repl)
				y = substVar(y, l.valVar, el, l.keyVar, repl)
			}
			out = append(out, anchorPt{x, y, true, ""})
		}
		return out
	}
	return resolve(items[0], true), resolve(items[len(items)-1], false)
}

func checkAnchor(p anchorPt, wantIdx string, bottom bool) (bool, string) {
	if !p.ok {
		return false, p.why
	}
	bx, cx, ok1 := decomposeNode(p.x)
	by, cy, ok2 := decomposeNode(p.y)
	if !ok1 || !ok2 || bx != by {
		return false, fmt.Sprintf("point (%s ; %s) does not depend on a single node", p.x, p.y)
	}
	if !strings.HasSuffix(bx, wantIdx) {
		return false, fmt.Sprintf("anchored on %s, expected the route node %s", bx, wantIdx)
	}
	if p.x.k != 0 || p.y.k != 0 {
		return false, fmt.Sprintf("absolute offset in (%s ; %s)", p.x, p.y)
	}
	if !coefEq(cx, map[string]float64{"X": 1, "W": 0.5}) {
		return false, fmt.Sprintf("x = %s, expected X + W/2 (horizontal centre)", p.x)
	}
	wantY := map[string]float64{"Y": 1}
	what := "Y (top side)"
	if bottom {
		wantY = map[string]float64{"Y": 1, "H": 1}
		what = "Y + H (bottom side)"
	}
	if !coefEq(cy, wantY) {
		return false, fmt.Sprintf("y = %s, expected %s", p.y, what)
	}
	return true, ""
}

func affRouterNames(m *Model) []string {
	return []string{dispatchCallee(m, "internal/phase5", "Straight", "execStraightRouting"), dispatchCallee(m, "internal/phase5", "Polyline", "execPolylineRouting"), dispatchCallee(m, "internal/phase5", "Ortho", "execOrthoRouting")}
}

func routerLoop(res *affResult) *affLoop {
	for _, l := range res.loops {
		if l.parent == nil && l.kind == "range" && l.valVar != "" {
			return l
		}
	}
	// an index loop `for i := range routes { r := &routes[i] ... }`: the element reference plays the value variable's part
	for _, l := range res.loops {
		if l.parent == nil && l.full && l.elem != "" && (l.valVar == "" || l.valVar == l.elem) {
			l.valVar = l.elem
			return l
		}
	}
	return nil
}

func runAff1(m *Model, r *RuleResult) {
	routeMinLen(m, r)
	routers := affRouterNames(m)
	if m.TypesFunc("internal/phase5", "", "zzVerifPosctlAff1") != nil {
		routers = append(append([]string{}, routers...), "zzVerifPosctlAff1")
	}
	roles := []string{"Straight", "Polyline", "Ortho"}
	for i, name := range routers {
		res := affRun(m, "internal/phase5", "", name)
		key := "anchors:internal/phase5." + name
		if i < len(roles) {
			key = "anchors:router:" + roles[i]
		}
		if res == nil {
			r.undecided(key, "-", "router "+name, "function not found")
			continue
		}
		pos := m.Pos(res.fd.Pos())
		if len(res.undec) > 0 {
			r.undecided(key, pos, "router "+name, "the executor could not follow: "+strings.Join(res.undec, "; "))
			continue
		}
		l := routerLoop(res)
		if l == nil {
			r.undecided(key, pos, "router "+name, "no loop over the routes")
			continue
		}
		nPaths := 0
		var bad []string
		for _, p := range l.paths {
			if pathIsFlat(p) {
				continue
			}
			var items []affItem
			for k, v := range p.emits {
				if strings.HasSuffix(k, ".Points") {
					items = v
				}
			}
			nPaths++
			if len(items) == 0 {
				bad = append(bad, fmt.Sprintf("path %v assigns no points", p.cond))
				continue
			}
			first, last := firstLast(res, items, l.valVar)
			if len(first) == 0 || len(last) == 0 {
				bad = append(bad, fmt.Sprintf("path %v: first/last point not resolvable", p.cond))
				continue
			}
			for _, f := range first {
				if ok, why := checkAnchor(f, ".ns[0]", true); !ok {
					bad = append(bad, fmt.Sprintf("first point on path %v: %s", p.cond, why))
				}
			}
			for _, la := range last {
				if ok, why := checkAnchor(la, ".ns[len("+l.valVar+".ns) + -1]", false); !ok {
					bad = append(bad, fmt.Sprintf("last point on path %v: %s", p.cond, why))
				}
			}
		}
		if nPaths == 0 {
			r.undecided(key, pos, "router "+name, "no non-flat path")
			continue
		}
		if len(bad) == 0 {
			r.holds(key, pos, fmt.Sprintf("%s: on all %d non-flat paths the route starts at the bottom-centre of ns[0] and ends at the top-centre of ns[len-1]", name, nPaths))
		} else {
			r.violation(key, pos, name+": route must start at the bottom-centre of ns[0] and end at the top-centre of ns[len-1]", strings.Join(uniq(bad), "; "))
		}
	}
	// spline router: anchors handed to the path finder / MakeSpline
	res := affRun(m, "internal/phase5", "", dispatchCallee(m, "internal/phase5", "Splines", "execSplines"))
	key := "anchors:router:Splines"
	if res == nil {
		r.undecided(key, "-", "spline router", "function not found")
		return
	}
	pos := m.Pos(res.fd.Pos())
	l := routerLoop(res)
	if l == nil {
		r.undecided(key, pos, "spline router", "no loop over the routes")
		return
	}
	// find "geom.Shortest([x ; y], [x ; y], rects)" in the path conditions / stores
	found := false
	var bad []string
	for _, p := range l.paths {
		for _, c := range p.cond {
			i := strings.Index(c, "geom.Shortest(")
			if i < 0 {
				continue
			}
			args := c[i+len("geom.Shortest("):]
			parts := strings.SplitN(args, "], [", 2)
			if len(parts) != 2 {
				continue
			}
			found = true
			a := strings.TrimPrefix(parts[0], "[")
			b := parts[1]
			if j := strings.Index(b, "]"); j >= 0 {
				b = b[:j]
			}
			ev := l.valVar
			// e.Edge.From is the promoted field e.From spelled through the embedded edge
			a = strings.ReplaceAll(a, ev+".Edge.", ev+".")
			b = strings.ReplaceAll(b, ev+".Edge.", ev+".")
			wantA := fmt.Sprintf("0.5*%s.From.W + %s.From.X ; %s.From.H + %s.From.Y", ev, ev, ev, ev)
			wantB := fmt.Sprintf("0.5*%s.To.W + %s.To.X ; %s.To.Y", ev, ev, ev)
			if a != wantA {
				bad = append(bad, "start anchor is ("+a+"), expected the bottom-centre of e.From")
			}
			if b != wantB {
				bad = append(bad, "end anchor is ("+b+"), expected the top-centre of e.To")
			}
		}
	}
	if !found {
		r.undecided(key, pos, "spline router", "call of the path finder with two literal anchors not found")
	} else if len(bad) == 0 {
		r.holds(key, pos, "execSplines: the path finder and MakeSpline receive the bottom-centre of e.From and the top-centre of e.To")
	} else {
		r.violation(key, pos, "execSplines: anchors of the spline route", strings.Join(uniq(bad), "; "))
	}
}

// bendFormula: (n.X + n.W/2, n.Y + layer height of n / 2) for the node reference n.
func bendFormula(x, y lin, n string) []string {
	var bad []string
	bx, cx, ok1 := decomposeNode(x)
	if !ok1 || bx != n || !coefEq(cx, map[string]float64{"X": 1, "W": 0.5}) || x.k != 0 {
		bad = append(bad, "bend x = "+x.String()+", expected n.X + n.W/2")
	}
	okY := y.k == 0 && len(y.c) == 2 && y.c[n+".Y"] == 1
	for a, c := range y.c {
		if a == n+".Y" {
			continue
		}
		if c != 0.5 || !strings.Contains(a, "Layers["+n+".Layer].H") {
			okY = false
		}
	}
	if !okY {
		bad = append(bad, "bend y = "+y.String()+", expected n.Y + layer height/2")
	}
	return bad
}

// polylineSinglePass: the route's points are produced by one forward loop over all of r.ns that emits exactly one point per
// node; the iterations that are neither the first nor the last emit the bend formula.
func polylineSinglePass(il *affLoop, routeVar string) []string {
	var bad []string
	if il.container != routeVar+".ns" || il.dir != 1 || !il.full || il.initLin == nil || il.lastLin == nil {
		return []string{"points are produced by iterating " + il.over + ", expected a forward loop over all of " + routeVar + ".ns"}
	}
	one := linConst(1)
	lastBut := linAtom("len("+il.container+")").add(linConst(2), -1)
	nInterior := 0
	for _, bp := range il.paths {
		var its []affItem
		for _, v := range bp.emits {
			its = v
		}
		if len(its) != 1 || its[0].star != nil {
			bad = append(bad, fmt.Sprintf("%d points for one route node on path %v", len(its), bp.cond))
			continue
		}
		if il.keyVar != "" && !scFeasibleOver(bp.sc, il.keyVar, []lin{one, lastBut}, il.container, 3) {
			continue // first / last iteration only: AFF-1
		}
		nInterior++
		x, y, ok := pointOf(its[0].val)
		if !ok {
			bad = append(bad, "bend is not a point")
			continue
		}
		n := il.elem
		bad = append(bad, bendFormula(x, y, n)...)
	}
	if nInterior == 0 {
		bad = append(bad, "no body path for the intermediate route nodes")
	}
	return bad
}

func runAff2(m *Model, r *RuleResult) {
	// Straight
	if res := affRun(m, "internal/phase5", "", dispatchCallee(m, "internal/phase5", "Straight", "execStraightRouting")); res == nil || routerLoop(res) == nil {
		r.undecided("shape:straight", "-", "execStraightRouting", "not found / no loop")
	} else {
		l := routerLoop(res)
		var bad []string
		n := 0
		for _, p := range l.paths {
			for k, items := range p.emits {
				if !strings.HasSuffix(k, ".Points") {
					continue
				}
				n++
				if len(items) != 2 || items[0].star != nil || items[1].star != nil {
					bad = append(bad, fmt.Sprintf("path %v emits %d items", p.cond, len(items)))
				}
			}
		}
		if n >= 2 && len(bad) == 0 && len(res.undec) == 0 {
			r.holds("shape:straight", m.Pos(res.fd.Pos()), "Straight: exactly two points on every path")
		} else {
			r.violation("shape:straight", m.Pos(res.fd.Pos()), "Straight routes have exactly two points", strings.Join(append(bad, res.undec...), "; "))
		}
	}
	// Polyline
	if res := affRun(m, "internal/phase5", "", dispatchCallee(m, "internal/phase5", "Polyline", "execPolylineRouting")); res == nil || routerLoop(res) == nil {
		r.undecided("shape:polyline", "-", "execPolylineRouting", "not found / no loop")
	} else {
		l := routerLoop(res)
		pos := m.Pos(res.fd.Pos())
		var bad []string
		nLong := 0
		for _, p := range l.paths {
			if pathIsFlat(p) {
				continue
			}
			for k, items := range p.emits {
				if !strings.HasSuffix(k, ".Points") {
					continue
				}
				two := false
				for _, c := range p.cond {
					if (strings.Contains(c, "len("+l.valVar+".ns) == 2") || strings.Contains(c, "len("+l.valVar+".ns) + -1 == 1")) && !strings.HasPrefix(c, "!") {
						two = true
					}
				}
				if two {
					if len(items) != 2 {
						bad = append(bad, "2-node route emits "+fmt.Sprint(len(items))+" items")
					}
					continue
				}
				nLong++
				if len(items) == 1 && items[0].star != nil {
					// single pass over the whole route: one point per route node, the bend formula on interior iterations
					bad = append(bad, polylineSinglePass(items[0].star, l.valVar)...)
					continue
				}
				if len(items) != 3 || items[0].star != nil || items[1].star == nil || items[2].star != nil {
					bad = append(bad, fmt.Sprintf("long route is not [start, loop, end] on path %v (%d items)", p.cond, len(items)))
					continue
				}
				il := items[1].star
				wantOver := l.valVar + ".ns[1:len(" + l.valVar + ".ns) + -1]"
				nodeName := il.valVar
				// the same interior as a counting loop: for i := 1; i < len(r.ns)-1; i++ { n := r.ns[i] ... }
				interiorIndex := false
				if il.kind == "for" && il.keyVar != "" && il.forPost == il.keyVar+"++" && il.initLin != nil && il.lastLin != nil {
					wantLast := linAtom("len("+l.valVar+".ns)").add(linConst(2), -1)
					if il.initLin.isConst() && il.initLin.k == 1 && il.lastLin.String() == wantLast.String() {
						interiorIndex = true
						nodeName = l.valVar + ".ns[" + il.keyVar + "]"
					}
				}
				if !interiorIndex && (il.kind != "range" || il.backward || il.over != wantOver) {
					bad = append(bad, "bends are produced by iterating "+il.over+" (backward="+fmt.Sprint(il.backward)+"), expected a forward range over "+wantOver)
				}
				for _, bp := range il.paths {
					var its []affItem
					for _, v := range bp.emits {
						its = v
					}
					if len(its) != 1 || its[0].star != nil {
						bad = append(bad, fmt.Sprintf("%d points per intermediate node", len(its)))
						continue
					}
					x, y, ok := pointOf(its[0].val)
					if !ok {
						bad = append(bad, "bend is not a point")
						continue
					}
					bad = append(bad, bendFormula(x, y, nodeName)...)
				}
			}
		}
		if nLong >= 1 && len(bad) == 0 && len(res.undec) == 0 {
			r.holds("shape:polyline", pos, "Polyline: [start, exactly one bend per intermediate route node at (n.X + n.W/2, n.Y + layerH/2), end]; 2 points for 2-node routes")
		} else {
			r.violation("shape:polyline", pos, "Polyline routes have exactly one bend per intermediate band", strings.Join(append(uniq(bad), res.undec...), "; "))
		}
	}
	// Splines
	if res := affRun(m, "internal/phase5", "", dispatchCallee(m, "internal/phase5", "Splines", "execSplines")); res == nil || routerLoop(res) == nil {
		r.undecided("shape:splines", "-", "execSplines", "not found / no loop")
	} else {
		l := routerLoop(res)
		pos := m.Pos(res.fd.Pos())
		var bad []string
		nFit, nMake := 0, 0
		for _, p := range l.paths {
			for k, items := range p.emits {
				if !strings.HasSuffix(k, ".Points") {
					continue
				}
				for _, it := range items {
					if it.star == nil {
						s := avalString(it.val)
						switch {
						case strings.HasPrefix(s, "geom.MakeSpline(") && strings.HasSuffix(s, ".Float64Slice()"):
							nMake++
						case strings.HasPrefix(s, "make("):
						default:
							bad = append(bad, "unexpected emission "+s)
						}
						continue
					}
					il := it.star
					if !(il.dir == -1 && il.full) {
						bad = append(bad, "fitted pieces are iterated forward (they are ordered end to start, so the pieces would not join in output order)")
					}
					for _, bp := range il.paths {
						var its []affItem
						for _, v := range bp.emits {
							its = v
						}
						nFit++
						if len(its) == 1 && its[0].star != nil && il.elem != "" {
							// an inner loop over all controls of the piece, last to first, emitting each (a piece has 4: AFF-9 fit:float-slice-order)
							jl := its[0].star
							if jl.dir == -1 && jl.full && jl.container == il.elem+".Float64Slice()" && len(jl.paths) == 1 {
								var jts []affItem
								for _, v := range jl.paths[0].emits {
									jts = v
								}
								if len(jts) == 1 && jts[0].star == nil && avalString(jts[0].val) == jl.elem {
									continue
								}
							}
							bad = append(bad, "the controls of a fitted piece are not emitted last to first by the inner loop over "+jl.over)
							continue
						}
						if len(its) != 4 {
							bad = append(bad, fmt.Sprintf("%d points per fitted piece", len(its)))
							continue
						}
						for j, want := range []string{"[3]", "[2]", "[1]", "[0]"} {
							s := avalString(its[j].val)
							pieceOK := il.valVar != "" && strings.HasPrefix(s, il.valVar+".")
							if !pieceOK && il.elem != "" && strings.HasPrefix(s, il.elem+".") {
								pieceOK = true // index loop: the piece is container[i]
							}
							if !strings.HasSuffix(s, ".Float64Slice()"+want) || !pieceOK {
								bad = append(bad, fmt.Sprintf("control %d of a piece is %s, expected %s.Float64Slice()%s", j, s, il.valVar, want))
							}
						}
					}
				}
			}
		}
		if nFit >= 1 && nMake >= 1 && len(bad) == 0 {
			r.holds("shape:splines", pos, "Splines: 4 controls from MakeSpline, or 4 controls per fitted piece, pieces backward and each reversed")
		} else {
			r.violation("shape:splines", pos, "Spline routes consist of 4k control points whose pieces join end to end", strings.Join(uniq(bad), "; "))
		}
	}
}

func runAff3(m *Model, r *RuleResult) {
	aff3On(m, r, dispatchCallee(m, "internal/phase5", "Ortho", "execOrthoRouting"), "ortho")
	if m.TypesFunc("internal/phase5", "", "zzVerifPosctlAff3") != nil {
		aff3On(m, r, "zzVerifPosctlAff3", "zzVerifPosctl-ortho")
	}
}

func aff3On(m *Model, r *RuleResult, fname, pre string) {
	res := affRun(m, "internal/phase5", "", fname)
	if res == nil {
		r.undecided(pre, "-", fname, "not found")
		return
	}
	pos := m.Pos(res.fd.Pos())
	if len(res.undec) > 0 {
		r.undecided(pre, pos, fname, strings.Join(res.undec, "; "))
		return
	}
	var elbow *affLoop
	for _, l := range res.loops {
		if l.parent != nil && l.kind == "for" {
			for _, p := range l.paths {
				for k := range p.emits {
					if strings.HasSuffix(k, ".Points") {
						elbow = l
					}
				}
			}
		}
	}
	if elbow == nil {
		r.undecided(pre+":elbow-loop", pos, "per-gap loop emitting the elbow points", "not found")
		return
	}
	var bad []string
	n := 0
	for _, p := range elbow.paths {
		var its []affItem
		for _, v := range p.emits {
			its = v
		}
		n++
		type pt struct{ x, y lin }
		var pts []pt
		for _, it := range its {
			x, y, ok := pointOf(it.val)
			if it.star != nil || !ok {
				bad = append(bad, "elbow contains a non-point emission")
				continue
			}
			pts = append(pts, pt{x, y})
		}
		for i := 1; i < len(pts); i++ {
			if !pts[i-1].x.equal(pts[i].x) && !pts[i-1].y.equal(pts[i].y) {
				bad = append(bad, fmt.Sprintf("segment %d of the elbow on path %v joins (%s ; %s) and (%s ; %s): neither coordinate is shared, the segment is slanted", i, p.cond, pts[i-1].x, pts[i-1].y, pts[i].x, pts[i].y))
			}
		}
		// continuity with the next iteration: x of the last point == x of the first point at i+1
		if len(pts) >= 2 && elbow.keyVar != "" {
			next := substIdx(res, pts[0].x, elbow.keyVar, linAtom(elbow.keyVar).add(linConst(1), 1))
			if !next.equal(pts[len(pts)-1].x) {
				bad = append(bad, fmt.Sprintf("elbow i ends at x = %s but elbow i+1 starts at x = %s", pts[len(pts)-1].x, next))
			}
		}
	}
	if n > 0 && len(bad) == 0 {
		r.holds(pre+":segments-axis-parallel", m.Pos(elbow.pos), fmt.Sprintf("every segment of the elbow shares x or y on all %d body paths", n))
		r.holds(pre+":elbows-connect", m.Pos(elbow.pos), "consecutive elbows meet on a vertical line")
	} else {
		r.violation(pre+":segments-axis-parallel", m.Pos(elbow.pos), "orthogonal routes consist solely of horizontal and vertical segments", strings.Join(uniq(bad), "; "))
	}
	// vertically aligned shortcut: only under equality of the two centres
	l := routerLoop(res)
	okShort := false
	for _, p := range l.paths {
		if pathIsFlat(p) {
			continue
		}
		for k, items := range p.emits {
			if strings.HasSuffix(k, ".Points") && len(items) == 2 && items[0].star == nil {
				for _, c := range p.cond {
					if strings.Contains(c, "==") && strings.Contains(c, ".From.X") && strings.Contains(c, ".To.X") && strings.Contains(c, "0.5*") && !strings.HasPrefix(c, "!") {
						okShort = true
					}
				}
				if !okShort {
					bad = append(bad, "2-point shortcut taken without the centres being equal")
				}
			}
		}
	}
	if okShort {
		r.holds(pre+":straight-shortcut", pos, "the 2-point shortcut is taken only when both centres have the same x")
	} else {
		r.violation(pre+":straight-shortcut", pos, "a 2-point orthogonal route requires vertically aligned centres", strings.Join(uniq(bad), "; "))
	}
}

func findLoop(res *affResult, pred func(l *affLoop) bool) *affLoop {
	for _, l := range res.loops {
		if pred(l) {
			return l
		}
	}
	return nil
}

func storeTo(p *affState, suffix string) (affStore, bool) {
	var out affStore
	found := false
	for _, s := range p.stores {
		if strings.HasSuffix(s.target, suffix) {
			out, found = s, true
		}
	}
	return out, found
}

func runAff4(m *Model, r *RuleResult) {
	aff4On(m, r, dispatchCallee(m, "internal/phase4", "VerticalAlign", "execVerticalAlign"), dispatchCallee(m, "internal/phase4", "PackRight", "execPackRight"), "")
	if m.TypesFunc("internal/phase4", "", "zzVerifPosctlAff4") != nil {
		aff4On(m, r, "zzVerifPosctlAff4", "", "zzVerifPosctl-")
	}
}

// isLastIndexPath: the structured conditions of the path say that key is the last index of container.
func isLastIndexPath(p *affState, key, container string) bool {
	last := linAtom("len("+container+")").add(linConst(1), -1)
	k := linAtom(key)
	for _, c := range p.sc {
		l, ok1 := c.l.(lin)
		r, ok2 := c.r.(lin)
		if !ok1 || !ok2 {
			continue
		}
		if l.equal(k) && r.equal(last) {
			switch {
			case c.op == "<" && c.neg, c.op == "!=" && c.neg, c.op == "==" && !c.neg, c.op == ">=" && !c.neg:
				return true
			}
		}
		if r.equal(k) && l.equal(last) {
			switch {
			case c.op == ">" && c.neg, c.op == "!=" && c.neg, c.op == "==" && !c.neg, c.op == "<=" && !c.neg:
				return true
			}
		}
	}
	return false
}

func finalAtom(a string) (name string, loop int, ok bool) {
	if !strings.HasPrefix(a, "final(") {
		return "", 0, false
	}
	i := strings.LastIndex(a, ")@L")
	if i < 0 {
		return "", 0, false
	}
	fmt.Sscanf(a[i+3:], "%d", &loop)
	return a[len("final("):i], loop, true
}

func aff4On(m *Model, r *RuleResult, valignName, packName, pre string) {
	spacingAtom := func(a string) bool { return strings.HasSuffix(a, ".NodeSpacing") }
	// step: d == +-(elem.W + spacing)
	isStep := func(d lin, elem string, sign float64) bool {
		if d.k != 0 || len(d.c) != 2 || d.c[elem+".W"] != sign {
			return false
		}
		for a, c := range d.c {
			if a != elem+".W" && !(c == sign && spacingAtom(a)) {
				return false
			}
		}
		return true
	}
	// ---- VAlign ----
	res := affRun(m, "internal/phase4", "", valignName)
	if res == nil {
		r.undecided(pre+"valign", "-", valignName, "not found")
	} else {
		pos := m.Pos(res.fd.Pos())
		chk := func(key, desc string, ok bool, detail string) {
			if ok {
				r.holds(pre+"valign:"+key, pos, desc)
			} else {
				r.violation(pre+"valign:"+key, pos, desc, detail)
			}
		}
		if len(res.undec) > 0 {
			r.undecided(pre+"valign", pos, valignName, strings.Join(res.undec, "; "))
		}
		// placement loop: stores elem.X
		var place *affLoop
		for _, l := range res.loops {
			for _, p := range l.paths {
				if _, ok := storeTo(p, l.elem+".X"); ok && l.elem != "" {
					place = l
				}
			}
		}
		if place == nil || place.parent == nil {
			r.undecided(pre+"valign:placement-loop", pos, "loop storing n.X", "not found")
		} else {
			lay := place.parent.elem
			fwd := place.dir == 1 && place.full && place.container == lay+".Nodes"
			chk("forward-over-layer", "nodes are placed by a forward iteration over all of layer.Nodes", fwd, fmt.Sprintf("iterates %s (dir %d, full %v)", place.container, place.dir, place.full))
			var cname string
			okStore := true
			for _, p := range place.paths {
				s, _ := storeTo(p, place.elem+".X")
				v, ok := s.val.(lin)
				if !ok || len(v.c) != 1 || v.k != 0 {
					okStore = false
					continue
				}
				for a := range v.c {
					if strings.HasPrefix(a, "c:") {
						cname = strings.TrimPrefix(a, "c:")
					} else {
						okStore = false
					}
				}
			}
			chk("X-is-cursor", "X := running cursor (before advancing)", okStore && cname != "", "the stored X is not the loop-carried cursor")
			if c := place.carried[cname]; c != nil {
				okStep := len(c.posts) > 0
				for _, p := range c.posts {
					pl, ok := p.(lin)
					if !ok || !isStep(pl.add(linAtom("c:"+cname), -1), place.elem, 1) {
						okStep = false
					}
				}
				chk("step", "cursor advances by n.W + NodeSpacing", okStep, fmt.Sprintf("cursor update is %v", c.posts))
				// c0 = 0.5*M - 0.5*layer.W
				init, ok := c.init.(lin)
				okInit := ok && init.k == 0 && len(init.c) == 2 && init.c[lay+".W"] == -0.5
				var mAtom string
				if ok {
					for a, co := range init.c {
						if a != lay+".W" {
							if co == 0.5 && strings.HasPrefix(a, "final(") {
								mAtom = a
							} else {
								okInit = false
							}
						}
					}
				}
				chk("start", "cursor starts at (M - layer.W)/2", okInit && mAtom != "", "cursor starts at "+avalString(c.init))
				okM := false
				whyM := "M is not the final value of a loop-carried variable"
				if mname, lid, ok := finalAtom(mAtom); ok && lid < len(res.loops) {
					ml := res.loops[lid]
					if mc := ml.carried[mname]; mc != nil {
						i0, isL := mc.init.(lin)
						okM = isL && i0.isConst() && i0.k == 0 && len(mc.posts) > 0
						whyM = "M starts at " + avalString(mc.init)
						eid := -1
						ename := ml.elem + ".W" // the variable that accumulates the extent: the cell layer.W itself, or a local stored into it
						for _, p := range mc.posts {
							s := avalString(p)
							pre0 := "max(c:" + mname + ", "
							if !strings.HasPrefix(s, pre0) || !strings.HasSuffix(s, ")") {
								okM = false
								whyM = "M is updated as " + s + ", expected max(M, extent of the layer)"
								continue
							}
							arg := s[len(pre0) : len(s)-1]
							nm, lid2, isFinal := finalAtom(arg)
							if !isFinal {
								okM = false
								whyM = "M is updated as " + s + ", expected max(M, extent of the layer)"
								continue
							}
							if nm != ml.elem+".W" {
								// a local accumulator: it must be what is stored into layer.W in the same iteration
								same := false
								for _, bp := range ml.paths {
									if st, ok := storeTo(bp, ml.elem+".W"); ok && avalString(st.val) == arg {
										same = true
									}
								}
								if !same {
									okM = false
									whyM = "M is updated with " + arg + ", which is not the value stored into layer.W"
									continue
								}
							}
							ename, eid = nm, lid2
						}
						if okM && !(ml.full && strings.HasSuffix(ml.container, ".Layers")) {
							okM, whyM = false, "M is not reduced over all layers"
						}
						if okM && eid >= 0 && eid < len(res.loops) {
							el := res.loops[eid]
							ec := el.carried[ename]
							okE := ec != nil && el.full && el.container == ml.elem+".Nodes"
							whyE := "the extent is not accumulated over all of layer.Nodes"
							if okE {
								i0, isL := ec.init.(lin)
								if !isL || !i0.isConst() || i0.k != 0 {
									okE, whyE = false, "extent starts at "+avalString(ec.init)
								}
								nW, nWS := 0, 0
								for i, p := range ec.posts {
									pl, ok := p.(lin)
									if !ok {
										okE = false
										continue
									}
									d := pl.add(linAtom("c:"+ename), -1)
									switch {
									case d.equal(linAtom(el.elem + ".W")):
										nW++
										if el.keyVar == "" || !isLastIndexPath(el.paths[i], el.keyVar, el.container) {
											okE, whyE = false, "spacing is omitted on a path that is not the last node: "+strings.Join(el.paths[i].cond, " ")
										}
									case isStep(d, el.elem, 1):
										nWS++
										if el.keyVar != "" && isLastIndexPath(el.paths[i], el.keyVar, el.container) {
											okE, whyE = false, "spacing is added after the last node"
										}
									default:
										okE, whyE = false, "extent grows by "+d.String()
									}
								}
								if nW != 1 || nWS != 1 {
									okE, whyE = false, fmt.Sprintf("extent update paths: %d with spacing, %d without", nWS, nW)
								}
							}
							chk("extent", "layer.W accumulates n.W plus NodeSpacing except after the last node, from 0", okE, whyE)
						}
					}
				}
				chk("max-extent", "M is the maximum layer extent (max-reduction from 0)", okM, whyM)
			}
		}
	}
	// ---- PackRight ----
	if packName == "" {
		return
	}
	res = affRun(m, "internal/phase4", "", packName)
	if res == nil {
		r.undecided(pre+"packright", "-", packName, "not found")
		return
	}
	pos := m.Pos(res.fd.Pos())
	chk := func(key, desc string, ok bool, detail string) {
		if ok {
			r.holds(pre+"packright:"+key, pos, desc)
		} else {
			r.violation(pre+"packright:"+key, pos, desc, detail)
		}
	}
	if len(res.undec) > 0 {
		r.undecided(pre+"packright", pos, packName, strings.Join(res.undec, "; "))
	}
	var place, shiftL *affLoop
	for _, l := range res.loops {
		for _, p := range l.paths {
			if s, ok := storeTo(p, l.elem+".X"); ok && l.elem != "" {
				if v, isL := s.val.(lin); isL && v.c[l.elem+".X"] == 1 {
					shiftL = l
				} else {
					place = l
				}
			}
		}
	}
	if place == nil || shiftL == nil || place.parent == nil {
		r.undecided(pre+"packright:loops", pos, "placement loop and shift loop", "not found")
		return
	}
	lay := place.parent.elem
	chk("backward-over-layer", "nodes are placed by a backward iteration over all of layer.Nodes", place.dir == -1 && place.full && place.container == lay+".Nodes",
		fmt.Sprintf("iterates %s (dir %d, full %v)", place.container, place.dir, place.full))
	// the cursor: the loop-carried variable whose updated value is what is stored into X (other carried cells of the loop,
	// e.g. a running maximum of the heights, do not enter the stored value: it is a linear form over the cursor only)
	var cname string
	var c *affCarried
	okStep := false
	var cnames []string
	for n := range place.carried {
		cnames = append(cnames, n)
	}
	sort.Strings(cnames)
	for _, n := range cnames {
		cand := place.carried[n]
		good := len(cand.posts) > 0
		for i, p := range cand.posts {
			pl, ok := p.(lin)
			if !ok || !isStep(pl.add(linAtom("c:"+n), -1), place.elem, -1) {
				good = false
				continue
			}
			s, _ := storeTo(place.paths[i], place.elem+".X")
			if sv, ok := s.val.(lin); !ok || !sv.equal(pl) {
				good = false
			}
		}
		if good || c == nil {
			cname, c = n, cand
		}
		if good {
			okStep = true
			break
		}
	}
	chk("step", "cursor moves left by n.W + NodeSpacing and X := the moved cursor", okStep, "cursor/X update not of that form")
	okInit := false
	if c != nil {
		if i0, ok := c.init.(lin); ok && i0.isConst() && i0.k == 0 {
			okInit = true
		}
	}
	chk("start", "every layer starts its cursor at 0 (common right end)", okInit, "cursor start differs")
	pl := place.parent
	okMin := false
	var lbName string
	for n, lc := range pl.carried {
		i0, ok := lc.init.(lin)
		if !ok || !i0.isConst() || i0.k != 0 {
			continue
		}
		good := len(lc.posts) > 0
		for _, p := range lc.posts {
			if !strings.HasPrefix(avalString(p), "min(c:"+n+", final("+cname+")@L") {
				good = false
			}
		}
		if good && pl.full && strings.HasSuffix(pl.container, ".Layers") {
			okMin = true
			lbName = n
		}
	}
	chk("left-bound", "the left bound is the minimum over all layers of the final cursor (from 0)", okMin, "no min-reduction of the final cursor over all layers found")
	okShift := false
	for _, p := range shiftL.paths {
		s, _ := storeTo(p, shiftL.elem+".X")
		if v, ok := s.val.(lin); ok && len(v.c) == 2 && v.c[shiftL.elem+".X"] == 1 && v.k == 0 {
			for a, co := range v.c {
				if a != shiftL.elem+".X" && co == -1 && strings.HasPrefix(a, "final("+lbName+")@L") {
					okShift = true
				}
			}
		}
	}
	chk("shift", "every X is shifted by minus the left bound (leftmost node at 0)", okShift && lbName != "", "final shift is not X - leftBound")
}

func runAff5(m *Model, r *RuleResult) {
	aff5On(m, r, yAssigner(m), "")
	if m.TypesFunc("internal/phase4", "", "zzVerifPosctlAff5") != nil {
		aff5On(m, r, "zzVerifPosctlAff5", "zzVerifPosctl-")
	}
}

func aff5On(m *Model, r *RuleResult, fname, pre string) {
	res := affRun(m, "internal/phase4", "", fname)
	if res == nil {
		r.undecided(pre+"y-assignment", "-", fname, "not found")
		return
	}
	pos := m.Pos(res.fd.Pos())
	var inner *affLoop
	for _, l := range res.loops {
		for _, p := range l.paths {
			if _, ok := storeTo(p, l.elem+".Y"); ok && l.elem != "" {
				inner = l
			}
		}
	}
	if inner == nil || inner.parent == nil {
		r.undecided(pre+"y-assignment:loops", pos, "nested loops storing n.Y", "not found")
		return
	}
	outer := inner.parent
	// stored value = carried variable of the OUTER loop, not carried by the inner
	okInv := true
	var yname string
	for _, p := range inner.paths {
		s, _ := storeTo(p, inner.elem+".Y")
		v, ok := s.val.(lin)
		if !ok || len(v.c) != 1 || v.k != 0 {
			okInv = false
			continue
		}
		for a := range v.c {
			yname = strings.TrimPrefix(a, "c:")
			if !strings.HasPrefix(a, "c:") {
				okInv = false
			}
		}
	}
	if inner.carried[yname] != nil {
		okInv = false
	}
	if okInv && outer.carried[yname] != nil {
		r.holds(pre+"y:one-y-per-layer", pos, "all nodes of a layer receive the same y (the value is invariant in the per-node loop)")
	} else {
		r.violation(pre+"y:one-y-per-layer", pos, "all nodes of a layer must receive the same y", "the stored value changes inside the per-node loop or is not the per-layer cursor")
		return
	}
	oc := outer.carried[yname]
	okStep := len(oc.posts) > 0
	for _, p := range oc.posts {
		pl, ok := p.(lin)
		if !ok {
			okStep = false
			continue
		}
		d := pl.add(linAtom("c:"+yname), -1)
		if len(d.c) != 2 || d.k != 0 || d.c[outer.elem+".H"] != 1 {
			okStep = false
		}
		for a, co := range d.c {
			if a != outer.elem+".H" && (co != 1 || !strings.Contains(strings.ToLower(a), "layerspacing")) {
				okStep = false
			}
		}
	}
	if okStep {
		r.holds(pre+"y:band-step", pos, "the next band starts layer.H + LayerSpacing below")
	} else {
		r.violation(pre+"y:band-step", pos, "the next band must start layer.H + LayerSpacing below", fmt.Sprintf("y update is %v", oc.posts))
	}
	if i0, ok := oc.init.(lin); ok && i0.isConst() && i0.k == 0 {
		r.holds(pre+"y:start", pos, "the first band is at y = 0")
	} else {
		r.violation(pre+"y:start", pos, "the first band is at y = 0", "y starts at "+avalString(oc.init))
	}
	// the layer list: g.Layers, or a slice parameter that every caller in the package binds to <graph>.Layers
	layersOK := strings.HasSuffix(outer.container, ".Layers")
	if !layersOK {
		acts := paramActuals(m, res.fd, outer.container)
		layersOK = len(acts) > 0
		for _, a := range acts {
			if !strings.HasSuffix(a, ".Layers") {
				layersOK = false
			}
		}
	}
	if outer.dir == 1 && outer.full && layersOK && inner.full && inner.container == outer.elem+".Nodes" {
		r.holds(pre+"y:layer-order", pos, "bands are stacked in layer order")
	} else {
		r.violation(pre+"y:layer-order", pos, "bands are stacked in layer order", fmt.Sprintf("iterates %s (dir %d, full %v) / %s (full %v)", outer.container, outer.dir, outer.full, inner.container, inner.full))
	}
}

func runAff7(m *Model, r *RuleResult) {
	res := affRun(m, "internal/phase4", "", dispatchCallee(m, "internal/phase4", "NetworkSimplex", "execNetworkSimplex"))
	if res == nil {
		r.undecided("ns-positioner", "-", "phase4.execNetworkSimplex", "not found")
		return
	}
	pos := m.Pos(res.fd.Pos())
	// (1) auxiliary nodes copy W
	copyW := false
	for _, l := range res.loops {
		for _, p := range l.paths {
			for _, s := range p.stores {
				if strings.HasSuffix(s.target, ".W") && strings.Contains(s.target, "lit:") {
					if v, ok := s.val.(lin); ok && v.equal(linAtom(l.valVar+".W")) {
						copyW = true
					}
				}
			}
		}
	}
	if copyW {
		r.holds("ns:aux-width", pos, "auxiliary nodes copy the width of their originals")
	} else {
		r.violation("ns:aux-width", pos, "auxiliary nodes must copy the width of their originals", "no `m.W = n.W` found")
	}
	// (2) Delta of the separation edge
	var delta lin
	var leftW, rightW, spacing string
	foundDelta := false
	for _, l := range res.loops {
		if l.kind != "for" || l.keyVar == "" {
			continue
		}
		for _, p := range l.paths {
			for _, s := range p.stores {
				if !strings.HasSuffix(s.target, ".Delta") {
					continue
				}
				v, ok := s.val.(lin)
				if !ok || len(v.c) != 1 {
					continue
				}
				for a := range v.c {
					// int(math.Round(<lin>))
					in := a
					in = strings.TrimPrefix(in, "int(")
					in = strings.TrimPrefix(in, "math.Round(")
					in = strings.TrimSuffix(in, "))")
					if in == a {
						continue
					}
					// parse "<S> + 0.5*<B>.W + 0.5*<A>.W"
					type wTerm struct {
						t   string
						off int
					}
					var wTerms []wTerm
					terms := splitTop(in, " + ")
					d := linConst(0)
					for _, t := range terms {
						co := 1.0
						if i := strings.Index(t, "*"); i > 0 {
							fmt.Sscanf(t[:i], "%g", &co)
							t = t[i+1:]
						}
						d = d.add(linAtom(t), co)
						// a width term of a neighbour: ...[<key> + k]].W (k = 0 when absent); the two neighbours differ by one
						if off, ok := neighbourOffset(t, l.keyVar); ok {
							wTerms = append(wTerms, wTerm{t, off})
						} else {
							spacing = t
						}
					}
					if len(wTerms) == 2 {
						a, b := wTerms[0], wTerms[1]
						if a.off > b.off {
							a, b = b, a
						}
						if b.off-a.off == 1 {
							leftW, rightW = a.t, b.t
						}
					}
					delta = d
					foundDelta = true
				}
			}
		}
	}
	if !foundDelta || leftW == "" || rightW == "" || spacing == "" {
		r.undecided("ns:separation", pos, "separation edge between neighbours with Delta = round(linear form of the two widths and the spacing)", "not recognised")
		return
	}
	// (3) X store: float64(aux layer of n) + off(n)
	var off lin
	foundX := false
	var nvar string
	for _, l := range res.loops {
		for _, p := range l.paths {
			if s, ok := storeTo(p, l.valVar+".X"); ok && l.valVar != "" {
				v, isL := s.val.(lin)
				if !isL {
					continue
				}
				o := linConst(v.k)
				hasLayer := false
				for a, co := range v.c {
					if strings.HasPrefix(a, "float64(") && strings.HasSuffix(a, ".Layer)") && co == 1 {
						hasLayer = true
						continue
					}
					o = o.add(linAtom(a), co)
				}
				if hasLayer {
					off, foundX, nvar = o, true, l.valVar
				}
			}
		}
	}
	if !foundX {
		r.undecided("ns:x-store", pos, "n.X := float64(auxiliary layer of n) + offset", "not recognised")
		return
	}
	// every other store into X must be a uniform shift: X := X + (terms independent of the node)
	uniform := true
	whyU := ""
	for _, l := range res.loops {
		for _, p := range l.paths {
			for _, s := range p.stores {
				if l.valVar == "" || s.target != l.valVar+".X" {
					continue
				}
				v, isL := s.val.(lin)
				if !isL {
					uniform, whyU = false, "X := "+avalString(s.val)
					continue
				}
				hasLayer := false
				for a := range v.c {
					if strings.HasPrefix(a, "float64(") && strings.HasSuffix(a, ".Layer)") {
						hasLayer = true
					}
				}
				if hasLayer {
					continue
				}
				if v.c[l.valVar+".X"] != 1 {
					uniform, whyU = false, "X := "+v.String()
				}
				for a := range v.c {
					if a != l.valVar+".X" && strings.HasPrefix(a, l.valVar+".") {
						uniform, whyU = false, "X is shifted by a node-dependent amount: "+v.String()
					}
				}
			}
		}
	}
	if uniform {
		r.holds("ns:uniform-shift", pos, "after placement X is only shifted by a node-independent amount")
	} else {
		r.violation("ns:uniform-shift", pos, "after placement X may only be shifted uniformly", whyU)
	}
	// form = Delta + off(w) - off(v) - (v.W + S), with aux widths identified with original widths
	form := linConst(delta.k)
	for a, co := range delta.c {
		switch a {
		case leftW:
			form = form.add(linAtom("v.W"), co)
		case rightW:
			form = form.add(linAtom("w.W"), co)
		case spacing:
			form = form.add(linAtom("S"), co)
		default:
			form = form.add(linAtom(a), co)
		}
	}
	ren := func(o lin, to string) lin {
		out := linConst(0) // constant shifts cancel in the difference
		for a, co := range o.c {
			if strings.HasPrefix(a, nvar+".") {
				out = out.add(linAtom(to+strings.TrimPrefix(a, nvar)), co)
			}
			// atoms that do not depend on the node (global shifts) cancel
		}
		return out
	}
	form = form.add(ren(off, "w"), 1).add(ren(off, "v"), -1).add(linAtom("v.W"), -1).add(linAtom("S"), -1)
	neg := []string{}
	for a, co := range form.c {
		if co < 0 {
			neg = append(neg, fmt.Sprintf("%g*%s", co, a))
		}
	}
	if form.k < 0 {
		neg = append(neg, fmt.Sprintf("%g", form.k))
	}
	desc := fmt.Sprintf("X(w) - X(v) - (v.W + S) >= %s with Delta = %s and X = auxLayer + (%s)", form.String(), delta.String(), off.String())
	if len(neg) == 0 {
		r.holds("ns:separation-dominates", pos, desc)
	} else {
		r.violation("ns:separation-dominates", pos, "neighbours must end up at least v.W + NodeSpacing apart", desc+": negative terms "+strings.Join(neg, ", ")+" - a wide node left of a narrow one overlaps it (the separation is a centre distance but X is a left edge)")
	}
}

// splitTop splits s on sep at bracket depth 0.
func splitTop(s, sep string) []string {
	var out []string
	depth, start := 0, 0
	for i := 0; i < len(s); i++ {
		switch s[i] {
		case '[', '(', '{':
			depth++
		case ']', ')', '}':
			depth--
		}
		if depth == 0 && strings.HasPrefix(s[i:], sep) {
			out = append(out, s[start:i])
			start = i + len(sep)
			i += len(sep) - 1
		}
	}
	return append(out, s[start:])
}

// isExactlySelfLoopTest: the path condition is the test e.From == e.To (either operand order, either polarity spelling)
// and nothing else.
func isExactlySelfLoopTest(cs, ev string) bool {
	t := strings.NewReplacer("(", "", ")", "", " ", "").Replace(cs)
	neg := 0
	for strings.HasPrefix(t, "!") {
		t = t[1:]
		neg++
	}
	a, b := ev+".From", ev+".To"
	switch t {
	case a + "==" + b, b + "==" + a:
		return neg%2 == 0
	case a + "!=" + b, b + "!=" + a:
		return neg%2 == 1
	}
	return false
}

func runAff8(m *Model, r *RuleResult) {
	drvName := dispatchCallee(m, "internal/phase2", "LongestPath", "execLongestPath")
	folName, folRecv := "followLongestPath", ""
	if d := m.SSAFunc("internal/phase2", drvName); d != nil {
		for _, s := range staticCalls(d, func(c *ssa.Function) bool {
			return pkgPathOf(c) == pkgPathOf(d) && len(staticCalls(c, func(c2 *ssa.Function) bool { return c2 == c })) > 0
		}) {
			fc := s.Common().StaticCallee()
			folName, folRecv = fc.Name(), ""
			if rv := fc.Signature.Recv(); rv != nil {
				t := rv.Type()
				if pt, ok := t.(*types.Pointer); ok {
					t = pt.Elem()
				}
				if nt, ok := t.(*types.Named); ok {
					folRecv = nt.Obj().Name()
				}
			}
		}
	}
	res := affRun(m, "internal/phase2", folRecv, folName)
	drv := affRun(m, "internal/phase2", "", drvName)
	if res == nil || drv == nil {
		r.undecided("longest-path", "-", "followLongestPath / execLongestPath", "not found")
		return
	}
	pos := m.Pos(res.fd.Pos())
	// height recurrence
	var hl *affLoop
	var hname string
	for _, l := range res.loops {
		for n, c := range l.carried {
			if i0, ok := c.init.(lin); ok && i0.isConst() {
				hl, hname = l, n
			}
		}
	}
	if hl == nil {
		r.undecided("lp:height-recurrence", pos, "loop accumulating the node's height", "not found")
		return
	}
	c := hl.carried[hname]
	i0 := c.init.(lin)
	if i0.k == 1 {
		r.holds("lp:height-starts-at-1", pos, "a node without out-edges (sink) has height 1")
	} else {
		r.violation("lp:height-starts-at-1", pos, "a sink has height 1", fmt.Sprintf("height starts at %g", i0.k))
	}
	okRec := strings.HasSuffix(hl.over, ".Out") && len(c.posts) >= 1
	why := "not a loop over the node's out-edges"
	nUpd := 0
	for i, p := range c.posts {
		s := avalString(p)
		if s == "c:"+hname {
			// skipped edge: must be the self-loop path
			cs := strings.Join(hl.paths[i].cond, " && ")
			if !isExactlySelfLoopTest(cs, hl.valVar) {
				okRec, why = false, "an out-edge is left out of the maximum under the condition "+cs+"; only self-loops (e.From == e.To) may be skipped"
			}
			continue
		}
		nUpd++
		// max(height, e.Delta + <recursive call>(... e.To ...)), operands in either order
		okForm := false
		if strings.HasPrefix(s, "max(") && strings.HasSuffix(s, ")") {
			args := splitTop(s[4:len(s)-1], ", ")
			if len(args) == 2 {
				other := ""
				switch "c:" + hname {
				case args[0]:
					other = args[1]
				case args[1]:
					other = args[0]
				}
				terms := splitTop(other, " + ")
				if len(terms) == 2 {
					call := ""
					switch hl.valVar + ".Delta" {
					case terms[0]:
						call = terms[1]
					case terms[1]:
						call = terms[0]
					}
					if strings.HasPrefix(call, folName+"(") || strings.Contains(strings.SplitN(call, "(", 2)[0], "."+folName) {
						okForm = true
						if !strings.Contains(call, hl.valVar+".To") {
							okRec, why = false, "the recursion does not follow the edge to its target"
						}
					}
				}
			}
		}
		if !okForm {
			okRec, why = false, "height is updated as "+s+", expected max(height, h(child) + e.Delta)"
		}
	}
	if okRec && nUpd >= 1 {
		r.holds("lp:height-recurrence", pos, "height = max over out-edges of height(child) + e.Delta")
	} else {
		r.violation("lp:height-recurrence", pos, "height = max over out-edges of height(child) + e.Delta", why)
	}
	// memo and running max
	okMemo, okMax := false, false
	for _, p := range res.paths {
		for _, s := range p.stores {
			v := avalString(s.val)
			if strings.HasSuffix(s.target, "]") {
				if strings.HasPrefix(v, "final("+hname+")") {
					okMemo = true
				}
				continue
			}
			// running maximum: T := max(T, final(height)), T a cell that is not indexed (a pointee or a field)
			if strings.HasPrefix(v, "max(") && strings.HasSuffix(v, ")") {
				args := splitTop(v[4:len(v)-1], ", ")
				if len(args) == 2 && ((args[0] == s.target && strings.HasPrefix(args[1], "final("+hname+")")) || (args[1] == s.target && strings.HasPrefix(args[0], "final("+hname+")"))) {
					okMax = true
				}
			}
		}
	}
	if okMemo && okMax {
		r.holds("lp:memo-and-max", pos, "the memo and the running maximum are updated with the node's final height")
	} else {
		r.violation("lp:memo-and-max", pos, "memo[n] := height and *max := max(*max, height)", fmt.Sprintf("memo ok: %v, running max ok: %v", okMemo, okMax))
	}
	// driver: Layer := L - height[n] in a loop after the traversal loop
	dpos := m.Pos(drv.fd.Pos())
	var trav, assign *affLoop
	var lname string
	for _, l := range drv.loops {
		if l.parent != nil {
			continue
		}
		for _, p := range l.paths {
			for _, s := range p.stores {
				if v := avalString(s.val); !strings.HasSuffix(s.target, "]") && strings.HasPrefix(v, "max(") && strings.HasSuffix(v, ")") {
					args := splitTop(v[4:len(v)-1], ", ")
					if len(args) == 2 && (args[0] == s.target || args[1] == s.target) && (strings.HasPrefix(args[0], "final(") || strings.HasPrefix(args[1], "final(")) {
						trav = l
						lname = strings.TrimPrefix(s.target, "*&")
					}
				}
				if l.elem != "" && s.target == l.elem+".Layer" {
					assign = l
				}
			}
		}
	}
	if trav == nil || assign == nil {
		r.violation("lp:layer-from-final-max", dpos, "Node.Layer := L - height[n] after the traversal", "no top-level loop storing n.Layer after a traversal loop that max-updates L")
		return
	}
	// the traversal starts from every node: a full loop over the graph's node list (or a same-length copy of it) that is
	// never left early - a node that is skipped keeps the "not computed" sentinel as its height
	okAll, whyAll := true, ""
	if !trav.full {
		okAll, whyAll = false, "the loop that starts the traversals does not visit all indices of "+trav.container
	}
	cont := strings.ReplaceAll(trav.container, " ", "")
	if !(strings.HasSuffix(cont, ".Nodes") && !strings.Contains(cont, "(")) &&
		!regexp.MustCompile(`^make\(\[\]\*[A-Za-z.]*Node,len\([A-Za-z0-9_]+\.Nodes\)\)$`).MatchString(cont) &&
		!regexp.MustCompile(`^slices\.Clone\([A-Za-z0-9_]+\.Nodes\)$`).MatchString(cont) {
		okAll, whyAll = false, "the traversals are started from "+trav.container+", which is not the graph's node list or a same-length copy of it"
	}
	for _, p := range trav.paths {
		if p.stopped == "break" || p.stopped == "return" {
			okAll, whyAll = false, "the loop that starts the traversals is left early under "+strings.Join(p.cond, " && ")
		}
	}
	if okAll {
		r.holds("lp:every-node-is-a-root", dpos, "a traversal is started from every node of the graph; the loop is never left early")
	} else {
		r.violation("lp:every-node-is-a-root", dpos, "a traversal must be started from every node of the graph", whyAll+": a node that is never reached keeps the sentinel height and lands outside the computed layers")
	}
	okL := assign.id > trav.id && assign.pos > trav.pos
	whyL := "layers are assigned before the traversal is complete"
	for _, p := range assign.paths {
		s, _ := storeTo(p, assign.elem+".Layer")
		v, ok := s.val.(lin)
		if !ok || len(v.c) != 2 || v.k != 0 || v.c[lname] != 1 {
			okL, whyL = false, "stored layer is "+avalString(s.val)
			continue
		}
		for a, co := range v.c {
			// height[n], or - heights kept in a slice parallel to the node list - height[i] with i the index of n in that list
			byElem := strings.HasSuffix(a, "["+assign.elem+"]")
			byIndex := assign.keyVar != "" && strings.HasSuffix(a, "["+assign.keyVar+"]") && strings.HasSuffix(strings.ReplaceAll(assign.container, " ", ""), ".Nodes")
			if a != lname && !(co == -1 && (byElem || byIndex)) {
				okL, whyL = false, "stored layer is "+avalString(s.val)
			}
		}
	}
	if okL {
		r.holds("lp:layer-from-final-max", dpos, "Node.Layer := L - height[n] with L final: every sink is in the bottom layer, the number of layers is the longest path")
	} else {
		r.violation("lp:layer-from-final-max", dpos, "Node.Layer := L - height[n] with L the final maximum height", whyL)
	}
	aff8LayersFinal(m, r, drvName)
}

// aff8LayersFinal: what the longest-path layerer stored is what the later phases see: in every caller of the layerer nothing that
// can run after the call modifies Node.Layer again (a balancing post-pass moves nodes off their longest-path band); a uniform
// shift by a recognised normaliser keeps the bands and is tolerated.
func aff8LayersFinal(m *Model, r *RuleResult, drvName string) {
	m.fxInit()
	d := m.SSAFunc("internal/phase2", drvName)
	if d == nil {
		return
	}
	n := 0
	var bad []string
	var pos string
	for _, g := range m.Src {
		if !inModule(g) || m.FuncIsPosctl(g) {
			continue
		}
		for _, site := range staticCalls(g, func(c *ssa.Function) bool { return c == d }) {
			n++
			pos = m.Pos(site.Pos())
			eachInstr(g, func(in ssa.Instruction) {
				if in == ssa.Instruction(site) || !instrReaches(site, in) {
					return
				}
				switch x := in.(type) {
				case *ssa.Store:
					if fa, ok := x.Addr.(*ssa.FieldAddr); ok {
						if _, steps := fieldChain(fa); locOfSteps(steps) == igNode+".Layer" {
							bad = append(bad, "Node.Layer is stored again at "+m.Pos(x.Pos()))
						}
					}
				case ssa.CallInstruction:
					for _, c := range m.Callees(x) {
						if c == d || !inModule(c) || isNormaliser(c) {
							continue
						}
						if e := m.effects[c]; e != nil && e.Mod[igNode+".Layer"] {
							bad = append(bad, c.Name()+" (called at "+m.Pos(x.Pos())+") modifies Node.Layer after the layerer has run")
						}
					}
				}
			})
		}
	}
	if n == 0 {
		return
	}
	if len(bad) == 0 {
		r.holds("lp:layers-final", pos, "nothing modifies Node.Layer after the longest-path layerer has returned (normalising shifts aside)")
	} else {
		r.violation("lp:layers-final", pos, "the layers computed by the longest-path layerer are the layers of the drawing", strings.Join(uniq(bad), "; ")+": nodes leave the band their longest path to a sink puts them in")
	}
}

func runAff9(m *Model, r *RuleResult) {
	p := m.Pkg("internal/geom")
	if p == nil {
		r.undecided("geom", "-", "package internal/geom", "not found")
		return
	}
	info := p.TypesInfo
	var fn *types.Func
	if af := m.anchorFitter(); af != nil {
		fn, _ = af.Object().(*types.Func)
	}
	if fn == nil || m.Decl[fn] == nil {
		r.undecided("fitspline", "-", "geom.FitSpline", "not found")
		return
	}
	fd := m.Decl[fn]
	pos := m.Pos(fd.Pos())
	// parameters
	var params []types.Object
	for _, fl := range fd.Type.Params.List {
		for _, n := range fl.Names {
			params = append(params, info.Defs[n])
		}
	}
	if len(params) != 4 {
		r.undecided("fitspline:signature", pos, "FitSpline(path, tan1, tan2, barriers)", fmt.Sprintf("%d parameters", len(params)))
		return
	}
	type rcall struct {
		call *ast.CallExpr
		lhs  types.Object
	}
	var calls []rcall
	ast.Inspect(fd.Body, func(n ast.Node) bool {
		as, ok := n.(*ast.AssignStmt)
		if !ok || len(as.Rhs) != 1 {
			return true
		}
		c, ok := as.Rhs[0].(*ast.CallExpr)
		if !ok || calleeObj(info, c) != types.Object(fn) {
			return true
		}
		var lo types.Object
		if id, ok := as.Lhs[0].(*ast.Ident); ok {
			lo = info.Defs[id]
			if lo == nil {
				lo = info.Uses[id]
			}
		}
		calls = append(calls, rcall{c, lo})
		return true
	})
	if len(calls) != 2 {
		r.undecided("fitspline:recursion", pos, "two recursive calls assigned to variables", fmt.Sprintf("found %d", len(calls)))
		return
	}
	up, low := calls[0], calls[1]
	identObj := func(e ast.Expr) types.Object {
		if id, ok := e.(*ast.Ident); ok {
			return info.Uses[id]
		}
		return nil
	}
	// a local that is assigned exactly once stands for the expression it was assigned (upperHalf := path[:k+1])
	aliasOf := func(e ast.Expr) ast.Expr {
		id, ok := e.(*ast.Ident)
		if !ok {
			return e
		}
		o := info.Uses[id]
		if o == nil {
			return e
		}
		var rhs ast.Expr
		n := 0
		ast.Inspect(fd.Body, func(nd ast.Node) bool {
			as, ok := nd.(*ast.AssignStmt)
			if !ok || len(as.Lhs) != len(as.Rhs) {
				return true
			}
			for i, l := range as.Lhs {
				if lid, ok := l.(*ast.Ident); ok && (info.Defs[lid] == o || info.Uses[lid] == o) {
					n++
					rhs = as.Rhs[i]
				}
			}
			return true
		})
		if n == 1 && rhs != nil {
			return rhs
		}
		return e
	}
	// path[:k+1] and path[k:]
	okSplit := false
	whySplit := "arguments are not path[:k+1] and path[k:]"
	s1, ok1 := aliasOf(up.call.Args[0]).(*ast.SliceExpr)
	s2, ok2 := aliasOf(low.call.Args[0]).(*ast.SliceExpr)
	if ok1 && ok2 && identObj(s1.X) == params[0] && identObj(s2.X) == params[0] && s1.Low == nil && s2.High == nil && s1.High != nil && s2.Low != nil {
		if be, ok := s1.High.(*ast.BinaryExpr); ok && be.Op == token.ADD {
			if tv, ok := info.Types[be.Y]; ok && tv.Value != nil && tv.Value.String() == "1" {
				if identObj(be.X) != nil && identObj(be.X) == identObj(s2.Low) {
					okSplit = true
				} else {
					whySplit = "the two halves are cut at different indices"
				}
			}
		} else {
			whySplit = "upper half is path[:" + types.ExprString(s1.High) + "]: it does not include the split point"
		}
	}
	if okSplit {
		r.holds("fit:shared-split-point", pos, "the halves are path[:k+1] and path[k:]: upper p3 = lower p0 = path[k]")
	} else {
		r.violation("fit:shared-split-point", pos, "the two halves must share the split point", whySplit)
	}
	// tangents
	okTan := identObj(up.call.Args[1]) == params[1] && identObj(low.call.Args[2]) == params[2] && identObj(up.call.Args[2]) != nil && identObj(up.call.Args[2]) == identObj(low.call.Args[1])
	if okTan {
		r.holds("fit:shared-tangent", pos, "the same tangent is the upper half's end tangent and the lower half's start tangent; the outer tangents are passed through")
	} else {
		r.violation("fit:shared-tangent", pos, "the halves must share the tangent at the split point", fmt.Sprintf("upper(%s, %s) lower(%s, %s)", types.ExprString(up.call.Args[1]), types.ExprString(up.call.Args[2]), types.ExprString(low.call.Args[1]), types.ExprString(low.call.Args[2])))
	}
	// barriers passed through
	if identObj(up.call.Args[3]) == params[3] && identObj(low.call.Args[3]) == params[3] {
		r.holds("fit:same-barriers", pos, "both halves are fitted against the same barriers")
	} else {
		r.violation("fit:same-barriers", pos, "both halves must be fitted against the same barriers", "barrier argument differs")
	}
	// append(upper, lower...)
	okApp := false
	ast.Inspect(fd.Body, func(n ast.Node) bool {
		ret, ok := n.(*ast.ReturnStmt)
		if !ok || len(ret.Results) != 1 {
			return true
		}
		c, ok := ret.Results[0].(*ast.CallExpr)
		if !ok || funcFullName(calleeObj(info, c)) != "builtin.append" || len(c.Args) != 2 {
			return true
		}
		if identObj(c.Args[0]) == up.lhs && identObj(c.Args[1]) == low.lhs && c.Ellipsis.IsValid() {
			okApp = true
		}
		return true
	})
	if okApp {
		r.holds("fit:order", pos, "pieces are returned upper half first, then lower half")
	} else {
		r.violation("fit:order", pos, "pieces must be returned in path order", "result is not append(upper, lower...)")
	}
	// ctrlp literals in package geom
	nlit := 0
	var bad []string
	type ctorCall struct {
		call     *ast.CallExpr
		fieldArg map[string]int
	}
	var ctorCalls []ctorCall
	judge := func(vals map[string]ast.Expr, at ast.Node, efd *ast.FuncDecl) {
		var fparams []types.Object
		if efd != nil {
			for _, fl := range efd.Type.Params.List {
				for _, nm := range fl.Names {
					fparams = append(fparams, info.Defs[nm])
				}
			}
		}
		check := func(field string, wantIdx string, paramPos int) {
			v := vals[field]
			if v == nil {
				bad = append(bad, m.Pos(at.Pos())+": "+field+" not set")
				return
			}
			switch x := ast.Unparen(v).(type) {
			case *ast.IndexExpr:
				s := exprKeyNoParens(x.Index)
				base := exprKeyNoParens(x.X)
				want := wantIdx
				if wantIdx != "0" {
					want = "len(" + base + ")-1"
				}
				okIdx := s == want
				if !okIdx && wantIdx != "0" && efd != nil {
					// a constant index k is the last one where an enclosing `if len(X) == k+1` says so
					if tv, isC := info.Types[x.Index]; isC && tv.Value != nil {
						ast.Inspect(efd.Body, func(n ast.Node) bool {
							ifs, isIf := n.(*ast.IfStmt)
							if !isIf || !(ifs.Body.Pos() <= at.Pos() && at.End() <= ifs.Body.End()) {
								return true
							}
							if be, isB := ifs.Cond.(*ast.BinaryExpr); isB && be.Op == token.EQL {
								l := exprKeyNoParens(be.X)
								if rv, isC2 := info.Types[be.Y]; isC2 && rv.Value != nil && l == "len("+base+")" {
									if rv.Value.String() == fmt.Sprint(mustInt(tv.Value.String())+1) {
										okIdx = true
									}
								}
							}
							return true
						})
					}
				}
				if !okIdx {
					bad = append(bad, fmt.Sprintf("%s: %s = %s, expected index %s of the path", m.Pos(at.Pos()), field, types.ExprString(v), want))
				}
			case *ast.SelectorExpr:
				if x.Sel.Name != field {
					bad = append(bad, fmt.Sprintf("%s: %s is copied from %s", m.Pos(at.Pos()), field, types.ExprString(v)))
				}
			case *ast.Ident:
				// point parameter: p0 from the first point parameter, p3 from the second
				o := info.Uses[x]
				idx := -1
				k := 0
				for _, fp := range fparams {
					if namedKey(fp.Type()) == "internal/geom.P" {
						if fp == o {
							idx = k
						}
						k++
					}
				}
				if idx != paramPos {
					bad = append(bad, fmt.Sprintf("%s: %s = %s is not the expected end point parameter", m.Pos(at.Pos()), field, x.Name))
				}
			default:
				bad = append(bad, fmt.Sprintf("%s: %s = %s", m.Pos(at.Pos()), field, types.ExprString(v)))
			}
		}
		check("p0", "0", 0)
		check("p3", "len(path)-1", 1)
	}
	for _, f := range p.Syntax {
		if m.IsPosctl(f.Pos()) {
			continue
		}
		ast.Inspect(f, func(n ast.Node) bool {
			cl, ok := n.(*ast.CompositeLit)
			if !ok {
				return true
			}
			t := info.TypeOf(cl)
			if t == nil || namedKey(t) != "internal/geom.ctrlp" {
				return true
			}
			nlit++
			vals := map[string]ast.Expr{}
			names := []string{"p0", "p1", "p2", "p3"}
			for i, el := range cl.Elts {
				if kv, ok := el.(*ast.KeyValueExpr); ok {
					vals[kv.Key.(*ast.Ident).Name] = kv.Value
				} else if i < 4 {
					vals[names[i]] = el
				}
			}
			efd := m.EnclosingFuncDecl(p, cl.Pos())
			// a plain constructor (its body is `return ctrlp{<its own parameters>}`): judge its call sites instead
			if efd != nil && efd.Recv == nil && len(efd.Body.List) == 1 {
				if ret, ok := efd.Body.List[0].(*ast.ReturnStmt); ok && len(ret.Results) == 1 && ret.Results[0] == ast.Expr(cl) {
					pidx := map[types.Object]int{}
					k := 0
					for _, fl := range efd.Type.Params.List {
						for _, nm := range fl.Names {
							pidx[info.Defs[nm]] = k
							k++
						}
					}
					fieldArg := map[string]int{}
					pure := true
					for f, v := range vals {
						id, ok := v.(*ast.Ident)
						if !ok {
							pure = false
							continue
						}
						if i, ok := pidx[info.Uses[id]]; ok {
							fieldArg[f] = i
						} else {
							pure = false
						}
					}
					if pure && len(fieldArg) == 4 {
						cobj := info.Defs[efd.Name]
						for _, f2 := range p.Syntax {
							ast.Inspect(f2, func(n2 ast.Node) bool {
								call, ok := n2.(*ast.CallExpr)
								if !ok || calleeObj(info, call) != cobj || len(call.Args) != k {
									return true
								}
								ctorCalls = append(ctorCalls, ctorCall{call, fieldArg})
								return true
							})
						}
						return true
					}
				}
			}
			judge(vals, cl, efd)
			return true
		})
	}
	for _, cc := range ctorCalls {
		if m.IsPosctl(cc.call.Pos()) {
			continue
		}
		nlit++
		vals := map[string]ast.Expr{}
		for f, i := range cc.fieldArg {
			vals[f] = cc.call.Args[i]
		}
		judge(vals, cc.call, m.EnclosingFuncDecl(p, cc.call.Pos()))
	}
	if nlit >= 3 && len(bad) == 0 {
		r.holds("fit:end-controls", pos, fmt.Sprintf("all %d ctrlp literals take p0/p3 from the path ends, from another piece's p0/p3 or from their end-point parameters", nlit))
	} else {
		r.violation("fit:end-controls", pos, "a piece starts at the first and ends at the last point of its sub-path", strings.Join(bad, "; "))
	}
	// Float64Slice order
	okOrder := false
	if f64 := m.TypesFunc("internal/geom", "ctrlp", "Float64Slice"); f64 != nil && m.Decl[f64] != nil {
		ast.Inspect(m.Decl[f64].Body, func(n ast.Node) bool {
			cl, ok := n.(*ast.CompositeLit)
			if !ok || len(cl.Elts) != 4 {
				return true
			}
			good := true
			for i, el := range cl.Elts {
				pair, ok := el.(*ast.CompositeLit)
				if !ok || len(pair.Elts) != 2 {
					good = false
					continue
				}
				for j, coord := range []string{"X", "Y"} {
					se, ok := pair.Elts[j].(*ast.SelectorExpr)
					if !ok || se.Sel.Name != coord {
						good = false
						continue
					}
					inner, ok := se.X.(*ast.SelectorExpr)
					if !ok || inner.Sel.Name != fmt.Sprintf("p%d", i) {
						good = false
					}
				}
			}
			if good {
				okOrder = true
			}
			return true
		})
	}
	if okOrder {
		r.holds("fit:float-slice-order", pos, "Float64Slice lists p0, p1, p2, p3 as (X, Y) pairs")
	} else {
		r.violation("fit:float-slice-order", pos, "Float64Slice must list p0, p1, p2, p3 as (X, Y) pairs", "order not recognised")
	}
}

// ---------- length lower bounds (hypothesis of AFF-1's first/last-iteration reasoning) ----------

// minSliceLen returns a lower bound of len(v) for a slice value: literals, append chains, results of module functions.
// Loop phis take the minimum over their non-cyclic inputs (an append inside a loop only makes the slice longer).
func minSliceLen(m *Model, v ssa.Value, seen map[ssa.Value]bool, depth int) int {
	if v == nil || depth > 6 {
		return 0
	}
	if seen[v] {
		return 1 << 20 // cyclic input of a phi: never the minimum
	}
	seen[v] = true
	defer delete(seen, v)
	switch x := v.(type) {
	case *ssa.ChangeType:
		return minSliceLen(m, x.X, seen, depth)
	case *ssa.Slice:
		// a[:] of a fresh array: slice literal
		if x.Low == nil && x.High == nil {
			if al, ok := x.X.(*ssa.Alloc); ok {
				if at, ok := al.Type().Underlying().(*types.Pointer).Elem().Underlying().(*types.Array); ok {
					return int(at.Len())
				}
			}
		}
		return 0
	case *ssa.Phi:
		best := 1 << 20
		for _, e := range x.Edges {
			if n := minSliceLen(m, e, seen, depth); n < best {
				best = n
			}
		}
		if best == 1<<20 {
			return 0
		}
		return best
	case *ssa.Call:
		if b, ok := x.Call.Value.(*ssa.Builtin); ok && b.Name() == "append" {
			n := minSliceLen(m, x.Call.Args[0], seen, depth)
			if len(x.Call.Args) > 1 {
				n += minSliceLen(m, x.Call.Args[1], seen, depth)
			}
			return n
		}
		if c := x.Call.StaticCallee(); c != nil && c.Blocks != nil && pkgPathOf(c) != "" {
			best := 1 << 20
			eachInstr(c, func(in ssa.Instruction) {
				if ret, ok := in.(*ssa.Return); ok {
					for _, rv := range ret.Results {
						if types.Identical(rv.Type(), x.Type()) {
							if n := minSliceLen(m, rv, seen, depth+1); n < best {
								best = n
							}
						}
					}
				}
			})
			if best == 1<<20 {
				return 0
			}
			return best
		}
	case *ssa.UnOp:
		// load of a named result / local slice variable: minimum over the stores into it
		if x.Op == token.MUL {
			if al, ok := x.X.(*ssa.Alloc); ok {
				best := 1 << 20
				for _, ref := range *al.Referrers() {
					if st, ok := ref.(*ssa.Store); ok && st.Addr == al {
						if n := minSliceLen(m, st.Val, seen, depth); n < best {
							best = n
						}
					}
				}
				if best == 1<<20 {
					return 0
				}
				return best
			}
		}
	}
	return 0
}

// routeMinLen: every construction of a route stores at least two nodes in route.ns.
func routeMinLen(m *Model, r *RuleResult) {
	n, bad := 0, []string{}
	var pos string
	for _, f := range m.Src {
		if shortPkg(pkgPathOf(f)) != "internal/phase5" || m.FuncIsPosctl(f) {
			continue
		}
		eachInstr(f, func(in ssa.Instruction) {
			st, ok := in.(*ssa.Store)
			if !ok {
				return
			}
			fa, ok := st.Addr.(*ssa.FieldAddr)
			if !ok {
				return
			}
			_, steps := fieldChain(fa)
			// the node list of a route: a []*graph.Node field of a struct declared in the routing package
			if len(steps) == 0 || !strings.HasPrefix(locOfSteps(steps), "internal/phase5.") ||
				!strings.HasSuffix(steps[len(steps)-1].field().Type().String(), "[]*github.com/nulab/autog/internal/graph.Node") {
				return
			}
			n++
			if pos == "" {
				pos = m.Pos(in.Pos())
			}
			if k := minSliceLen(m, st.Val, map[ssa.Value]bool{}, 0); k < 2 {
				bad = append(bad, fmt.Sprintf("%s: route built with at least %d node(s) only", m.Pos(in.Pos()), k))
			}
		})
	}
	switch {
	case n == 0:
		r.undecided("route-min-2", "-", "constructions of route.ns", "none found")
	case len(bad) == 0:
		r.holds("route-min-2", pos, fmt.Sprintf("all %d constructions of a route store at least two nodes (so the first and the last node of a route are different iterations)", n))
	default:
		r.violation("route-min-2", pos, "every route has at least two nodes", strings.Join(bad, "; "))
	}
}

func mustInt(s string) int {
	n := 0
	fmt.Sscanf(s, "%d", &n)
	return n
}

// paramActuals: when name is a parameter of the function declared by fd, the argument expressions bound to it at the call
// sites of that function inside its package (canonical strings); nil when name is not a parameter or there is no call.
func paramActuals(m *Model, fd *ast.FuncDecl, name string) []string {
	idx, k := -1, 0
	for _, fl := range fd.Type.Params.List {
		for _, nm := range fl.Names {
			if nm.Name == name {
				idx = k
			}
			k++
		}
	}
	if idx < 0 {
		return nil
	}
	var out []string
	for _, p := range m.Pkgs {
		if p.TypesInfo == nil || p.TypesInfo.Defs[fd.Name] == nil {
			continue
		}
		obj := p.TypesInfo.Defs[fd.Name]
		for _, f := range p.Syntax {
			ast.Inspect(f, func(n ast.Node) bool {
				call, ok := n.(*ast.CallExpr)
				if !ok || calleeObj(p.TypesInfo, call) != obj || idx >= len(call.Args) {
					return true
				}
				out = append(out, exprKeyNoParens(call.Args[idx]))
				return true
			})
		}
	}
	return out
}

// neighbourOffset: t is "...[<key>]].W" or "...[<key> + k]].W"; returns k.
func neighbourOffset(t, key string) (int, bool) {
	if !strings.HasSuffix(t, "]].W") {
		return 0, false
	}
	i := strings.LastIndex(t[:len(t)-4], "[")
	if i < 0 {
		return 0, false
	}
	idx := t[i+1 : len(t)-4]
	if idx == key {
		return 0, true
	}
	if strings.HasPrefix(idx, key+" + ") {
		k := 0
		if _, err := fmt.Sscanf(idx[len(key)+3:], "%d", &k); err == nil {
			return k, true
		}
	}
	return 0, false
}

var redundantParens = regexp.MustCompile(`\(([A-Za-z_][A-Za-z_0-9]*(\.[A-Za-z_][A-Za-z_0-9]*)*)\)`)

// exprKeyNoParens: the expression's text without blanks and without parentheses around plain names (`len((path))-1` is
// `len(path)-1`; the normalised view parenthesises substituted arguments). A call's own parentheses are kept.
func exprKeyNoParens(e ast.Expr) string {
	s := strings.ReplaceAll(types.ExprString(ast.Unparen(e)), " ", "")
	for i := 0; i < 4; i++ {
		t := redundantParens.ReplaceAllStringFunc(s, func(m string) string { return m })
		// keep "f(x)" calls: only strip a parenthesised name that is not preceded by an identifier character or ')' / ']'
		var sb strings.Builder
		last := 0
		for _, loc := range redundantParens.FindAllStringIndex(s, -1) {
			if loc[0] > 0 {
				c := s[loc[0]-1]
				if c == '_' || c == ')' || c == ']' || (c >= '0' && c <= '9') || (c >= 'a' && c <= 'z') || (c >= 'A' && c <= 'Z') {
					continue
				}
			}
			sb.WriteString(s[last:loc[0]])
			sb.WriteString(s[loc[0]+1 : loc[1]-1])
			last = loc[1]
		}
		sb.WriteString(s[last:])
		_ = t
		if sb.String() == s {
			break
		}
		s = sb.String()
	}
	return s
}
