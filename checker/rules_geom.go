package main

// Rules for the corridor shortest-path router (necessary structural clauses of C19):
//   TRI-1  the special-cased triangulation computes no coordinate: triangle vertices are copies of rectangle coordinates
//   PATH-1 the returned polyline starts at the end point and ends at the start point
//   FUN-1  the two chain cases of the funnel (and the two wedge tests) are mirror images of each other

import (
	"fmt"
	"go/ast"
	"go/constant"
	"go/token"
	"go/types"
	"sort"
	"strings"

	"golang.org/x/tools/go/packages"
	"golang.org/x/tools/go/ssa"
)

const geomPkg = "internal/geom"

func isGeomNamed(t types.Type, name string) bool { return namedKey(t) == geomPkg+"."+name }

func isSliceOfGeom(t types.Type, name string) bool {
	sl, ok := t.Underlying().(*types.Slice)
	return ok && isGeomNamed(sl.Elem(), name)
}

// ---------- TRI-1 ----------

func init() {
	register(&Rule{
		ID: "TRI-1",
		Doc: "the corridor triangulation introduces no point of its own: in the geom function that turns the rectangles into triangles (signature ([]Rect) []Tri) and in every module function it calls, " +
			"no floating-point value is computed - coordinates are only copied, selected (min/max, helper returning one of its parameters) and compared - and every point literal takes its X from an X coordinate and its Y from a Y coordinate. " +
			"A Euclidean shortest path bends only at corridor vertices, and the funnel can bend only at triangle vertices: a triangle vertex that is nudged, averaged or transposed is a bend the true shortest path does not have",
		Floor: 1,
		Ctl:   []string{"internal__geom__tri1.go.txt"},
		Run:   runTri1,
	})
}

func runTri1(m *Model, r *RuleResult) {
	p := m.Pkg(geomPkg)
	if p == nil {
		r.undecided("package", "-", "package internal/geom", "not loaded")
		return
	}
	var roots []*types.Func
	for fn, fd := range m.Decl {
		if m.DeclPkg[fn] != p || fd.Recv != nil || fd.Body == nil {
			continue
		}
		sg := fn.Type().(*types.Signature)
		if sg.Params().Len() == 1 && sg.Results().Len() == 1 && isSliceOfGeom(sg.Params().At(0).Type(), "Rect") && isSliceOfGeom(sg.Results().At(0).Type(), "Tri") {
			roots = append(roots, fn)
		}
	}
	sort.Slice(roots, func(i, j int) bool { return roots[i].Name() < roots[j].Name() })
	for _, root := range roots {
		ctl := m.IsPosctl(m.Decl[root].Pos())
		key := "copied-coordinates:" + astFuncKey(p, m.Decl[root])
		// closure of module callees
		seen := map[*types.Func]bool{root: true}
		work := []*types.Func{root}
		var bad, und []string
		nfuncs, nlits := 0, 0
		for len(work) > 0 {
			fn := work[0]
			work = work[1:]
			fd, dp := m.Decl[fn], m.DeclPkg[fn]
			if fd == nil || fd.Body == nil {
				continue
			}
			nfuncs++
			info := dp.TypesInfo
			assigned := map[types.Object][]ast.Expr{} // local float variables -> right-hand sides
			ast.Inspect(fd.Body, func(n ast.Node) bool {
				switch x := n.(type) {
				case *ast.AssignStmt:
					if len(x.Lhs) == len(x.Rhs) {
						for i, l := range x.Lhs {
							if id, ok := l.(*ast.Ident); ok {
								if o := info.ObjectOf(id); o != nil && isFloatType(o.Type()) {
									assigned[o] = append(assigned[o], x.Rhs[i])
								}
							}
						}
					}
				case *ast.ValueSpec:
					if len(x.Names) == len(x.Values) {
						for i, id := range x.Names {
							if o := info.ObjectOf(id); o != nil && isFloatType(o.Type()) {
								assigned[o] = append(assigned[o], x.Values[i])
							}
						}
					}
				}
				return true
			})
			var axis func(e ast.Expr, depth int) string
			axis = func(e ast.Expr, depth int) string {
				if depth > 6 {
					return "?"
				}
				switch x := e.(type) {
				case *ast.ParenExpr:
					return axis(x.X, depth)
				case *ast.SelectorExpr:
					if sel := info.Selections[x]; sel != nil && sel.Kind() == types.FieldVal && isFloatType(sel.Type()) {
						if fv, ok := sel.Obj().(*types.Var); ok && (fv.Name() == "X" || fv.Name() == "Y") {
							return fv.Name()
						}
					}
					return "?"
				case *ast.Ident:
					o := info.ObjectOf(x)
					rhs := assigned[o]
					if len(rhs) == 0 {
						return "?"
					}
					a := ""
					for _, e2 := range rhs {
						b := axis(e2, depth+1)
						if a == "" {
							a = b
						} else if a != b {
							return "?"
						}
					}
					return a
				case *ast.CallExpr:
					if id, ok := x.Fun.(*ast.Ident); ok {
						if b, ok := info.ObjectOf(id).(*types.Builtin); ok && (b.Name() == "min" || b.Name() == "max") && len(x.Args) > 0 {
							a := axis(x.Args[0], depth+1)
							for _, e2 := range x.Args[1:] {
								if axis(e2, depth+1) != a {
									return "?"
								}
							}
							return a
						}
					}
				}
				return "?"
			}
			isCmpOperand := map[ast.Expr]bool{}
			ast.Inspect(fd.Body, func(n ast.Node) bool {
				if be, ok := n.(*ast.BinaryExpr); ok {
					switch be.Op {
					case token.LSS, token.LEQ, token.GTR, token.GEQ, token.EQL, token.NEQ:
						isCmpOperand[be.X], isCmpOperand[be.Y] = true, true
					}
				}
				return true
			})
			checkPoint := func(x *ast.CompositeLit) {
				tv := info.Types[x]
				if !isGeomNamed(tv.Type, "P") {
					return
				}
				nlits++
				st := structOf(tv.Type)
				for i, el := range x.Elts {
					name, val := "", el
					if kv, ok := el.(*ast.KeyValueExpr); ok {
						if id, ok := kv.Key.(*ast.Ident); ok {
							name = id.Name
						}
						val = kv.Value
					} else if st != nil && i < st.NumFields() {
						name = st.Field(i).Name()
					}
					if name != "X" && name != "Y" {
						continue
					}
					switch a := axis(val, 0); a {
					case name:
					case "?":
						und = append(und, fmt.Sprintf("the %s coordinate of the point built at %s (%s) is not a plain copy of a coordinate", name, m.Pos(x.Pos()), types.ExprString(val)))
					default:
						bad = append(bad, fmt.Sprintf("the point built at %s takes its %s from a %s coordinate (%s)", m.Pos(x.Pos()), name, a, types.ExprString(val)))
					}
				}
			}
			ast.Inspect(fd.Body, func(n ast.Node) bool {
				switch x := n.(type) {
				case *ast.BinaryExpr:
					switch x.Op {
					case token.ADD, token.SUB, token.MUL, token.QUO, token.REM:
						if tv, ok := info.Types[x]; ok && isFloatType(tv.Type) {
							bad = append(bad, fmt.Sprintf("a coordinate is computed at %s (%s)", m.Pos(x.Pos()), types.ExprString(x)))
							return false
						}
					}
				case *ast.UnaryExpr:
					if x.Op == token.SUB {
						if tv, ok := info.Types[x]; ok && isFloatType(tv.Type) && tv.Value == nil {
							bad = append(bad, fmt.Sprintf("a coordinate is negated at %s", m.Pos(x.Pos())))
						}
					}
				case *ast.AssignStmt:
					switch x.Tok {
					case token.ADD_ASSIGN, token.SUB_ASSIGN, token.MUL_ASSIGN, token.QUO_ASSIGN, token.REM_ASSIGN:
						if tv, ok := info.Types[x.Lhs[0]]; ok && isFloatType(tv.Type) {
							bad = append(bad, fmt.Sprintf("a coordinate is computed at %s (%s %s ...)", m.Pos(x.Pos()), types.ExprString(x.Lhs[0]), x.Tok))
						}
					case token.ASSIGN:
						// store into a coordinate field of a point
						if len(x.Lhs) == len(x.Rhs) {
							for i, l := range x.Lhs {
								if se, ok := l.(*ast.SelectorExpr); ok {
									if sel := info.Selections[se]; sel != nil && sel.Kind() == types.FieldVal && isFloatType(sel.Type()) && isGeomNamed(sel.Recv(), "P") {
										if a := axis(x.Rhs[i], 0); a != sel.Obj().Name() {
											if a == "?" {
												und = append(und, fmt.Sprintf("the value stored into %s at %s is not a plain copy of a coordinate", types.ExprString(se), m.Pos(x.Pos())))
											} else {
												bad = append(bad, fmt.Sprintf("%s receives a %s coordinate at %s", types.ExprString(se), a, m.Pos(x.Pos())))
											}
										}
									}
								}
							}
						}
					}
				case *ast.IncDecStmt:
					if tv, ok := info.Types[x.X]; ok && isFloatType(tv.Type) {
						bad = append(bad, fmt.Sprintf("a coordinate is computed at %s", m.Pos(x.Pos())))
					}
				case *ast.BasicLit:
					if tv, ok := info.Types[x]; ok && isFloatType(tv.Type) && !isCmpOperand[x] {
						bad = append(bad, fmt.Sprintf("the constant %s is used as a coordinate at %s", x.Value, m.Pos(x.Pos())))
					}
				case *ast.CompositeLit:
					checkPoint(x)
				case *ast.CallExpr:
					tv := info.Types[x.Fun]
					if tv.IsType() {
						if isFloatType(tv.Type) && len(x.Args) == 1 {
							if atv := info.Types[x.Args[0]]; atv.Value == nil {
								bad = append(bad, fmt.Sprintf("a coordinate is produced by a conversion at %s", m.Pos(x.Pos())))
							}
						}
						return true
					}
					if tv.IsBuiltin() {
						return true
					}
					callee, _ := calleeObj(info, x).(*types.Func)
					if callee == nil {
						// dynamic call (function value): results must not be floats
						if rt := info.Types[x].Type; rt != nil && containsFloat(rt) {
							und = append(und, fmt.Sprintf("a coordinate comes out of a dynamic call at %s", m.Pos(x.Pos())))
						}
						return true
					}
					if m.Decl[callee] != nil && inModulePath(callee.Pkg().Path()) {
						if !seen[callee] {
							seen[callee] = true
							work = append(work, callee)
						}
						return true
					}
					if rt := info.Types[x].Type; rt != nil && containsFloat(rt) {
						bad = append(bad, fmt.Sprintf("a coordinate is produced by %s at %s", callee.FullName(), m.Pos(x.Pos())))
					}
				}
				return true
			})
		}
		pos := m.Pos(m.Decl[root].Pos())
		switch {
		case len(bad) > 0:
			r.add(Obligation{Key: key, Pos: pos, Desc: "triangle vertices are copies of rectangle coordinates", Verdict: "violation",
				Detail: strings.Join(uniq(bad), "; ") + ": the triangulation gets a vertex that is not a vertex of the corridor, and the funnel may bend there", Control: ctl})
		case len(und) > 0:
			r.add(Obligation{Key: key, Pos: pos, Desc: "triangle vertices are copies of rectangle coordinates", Verdict: "undecided", Detail: strings.Join(uniq(und), "; "), Control: ctl})
		default:
			r.add(Obligation{Key: key, Pos: pos, Desc: fmt.Sprintf("%d function(s), %d point literal(s): coordinates are only copied, selected and compared; X from X, Y from Y", nfuncs, nlits), Verdict: "holds", Control: ctl})
		}
		r.stat("functions", nfuncs)
		r.stat("point_literals", nlits)
	}
}

func containsFloat(t types.Type) bool {
	switch x := t.(type) {
	case *types.Tuple:
		for i := 0; i < x.Len(); i++ {
			if containsFloat(x.At(i).Type()) {
				return true
			}
		}
		return false
	}
	if isFloatType(t) {
		return true
	}
	if st := structOf(t); st != nil {
		for i := 0; i < st.NumFields(); i++ {
			if isFloatType(st.Field(i).Type()) {
				return true
			}
		}
	}
	return false
}

// ---------- PATH-1 ----------

func init() {
	register(&Rule{
		ID: "PATH-1",
		Doc: "the corridor router returns the polyline from the end point to the start point: on every return of the geom function with signature (P, P, []Rect) []P the first element of the result is the second point parameter " +
			"and the last element is the first point parameter (slice literals by position; an accumulated path by its first append - the walk starts at the end point - and by the guard that appends the start point unless it is already last)",
		Floor: 2,
		Ctl:   []string{"internal__geom__path1.go.txt"},
		Run:   runPath1,
	})
}

func runPath1(m *Model, r *RuleResult) {
	for _, f := range m.Src {
		if shortPkg(pkgPathOf(f)) != geomPkg || f.Parent() != nil || f.Signature.Recv() != nil {
			continue
		}
		sg := f.Signature
		if sg.Params().Len() != 3 || sg.Results().Len() != 1 || !isGeomNamed(sg.Params().At(0).Type(), "P") || !isGeomNamed(sg.Params().At(1).Type(), "P") ||
			!isSliceOfGeom(sg.Params().At(2).Type(), "Rect") || !isSliceOfGeom(sg.Results().At(0).Type(), "P") {
			continue
		}
		ctl := m.FuncIsPosctl(f)
		pe := &pathEnds{f: f, loops: naturalLoops(f)}
		n := 0
		eachInstr(f, func(in ssa.Instruction) {
			ret, ok := in.(*ssa.Return)
			if !ok || len(ret.Results) != 1 {
				return
			}
			n++
			key := fmt.Sprintf("ends:%s#return%d", funcKey(f), n)
			first, last := pe.first(ret.Results[0], 0), pe.last(ret.Results[0], 0)
			pos := m.Pos(ret.Pos())
			switch {
			case first == "end" && last == "start":
				r.add(Obligation{Key: key, Pos: pos, Desc: "the returned polyline starts at the end point and ends at the start point", Verdict: "holds", Control: ctl})
			case first == "?" || last == "?":
				r.add(Obligation{Key: key, Pos: pos, Desc: "the returned polyline starts at the end point and ends at the start point", Verdict: "undecided",
					Detail: fmt.Sprintf("first element: %s, last element: %s (? = not resolved to a point parameter)", first, last), Control: ctl})
			default:
				r.add(Obligation{Key: key, Pos: pos, Desc: "the returned polyline starts at the end point and ends at the start point", Verdict: "violation",
					Detail: fmt.Sprintf("first element is the %s point, last element is the %s point: the caller (the spline router) reads the path from the end point to the start point", first, last), Control: ctl})
			}
		})
	}
}

type pathEnds struct {
	f     *ssa.Function
	loops []*loopInfo
	bind  map[*ssa.Parameter]string // parameters of a helper, resolved at its call site
	depth int
}

// viaHelper: v is the result of a same-package helper; its first/last element is that of every return of the helper, with the helper's
// point parameters bound to what the caller passes.
func (pe *pathEnds) viaHelper(v ssa.Value, last bool) (string, bool) {
	call, ok := v.(*ssa.Call)
	if !ok || pe.depth > 2 {
		return "", false
	}
	callee := call.Call.StaticCallee()
	if callee == nil || pkgPathOf(callee) != pkgPathOf(pe.f) || len(callee.Blocks) == 0 || callee.Signature.Results().Len() != 1 || !isSliceOfGeom(callee.Signature.Results().At(0).Type(), "P") {
		return "", false
	}
	sub := &pathEnds{f: callee, loops: naturalLoops(callee), bind: map[*ssa.Parameter]string{}, depth: pe.depth + 1}
	for i, p := range callee.Params {
		if i < len(call.Call.Args) && isGeomNamed(p.Type(), "P") {
			sub.bind[p] = pe.point(call.Call.Args[i])
		}
	}
	res := ""
	n := 0
	eachInstr(callee, func(in ssa.Instruction) {
		ret, ok := in.(*ssa.Return)
		if !ok || len(ret.Results) != 1 {
			return
		}
		n++
		s := ""
		if last {
			s = sub.last(ret.Results[0], 0)
		} else {
			s = sub.first(ret.Results[0], 0)
		}
		if res == "" {
			res = s
		} else if res != s {
			res = "?"
		}
	})
	if n == 0 {
		return "?", true
	}
	return res, true
}

// point resolves a value to one of the two point parameters ("start" = first, "end" = second) or "?".
func (pe *pathEnds) point(v ssa.Value) string {
	switch x := v.(type) {
	case *ssa.Parameter:
		if pe.bind != nil {
			if s, ok := pe.bind[x]; ok {
				return s
			}
			return "?"
		}
		for i, p := range pe.f.Params {
			if p == x {
				if i == 0 {
					return "start"
				}
				if i == 1 {
					return "end"
				}
			}
		}
	case *ssa.UnOp:
		if x.Op == token.MUL {
			if a, ok := x.X.(*ssa.Alloc); ok {
				var stored []ssa.Value
				okAll := true
				for _, ref := range *a.Referrers() {
					switch u := ref.(type) {
					case *ssa.Store:
						if u.Addr == a {
							stored = append(stored, u.Val)
						} else {
							okAll = false
						}
					case *ssa.UnOp, *ssa.DebugRef, *ssa.FieldAddr:
					default:
						_ = u
						okAll = false
					}
				}
				if okAll && len(stored) == 1 {
					return pe.point(stored[0])
				}
			}
		}
	}
	return "?"
}

// literalElems: v is a slice of a fresh array whose cells were stored once each; returns the stored values by index.
func literalElems(v ssa.Value) ([]ssa.Value, bool) {
	sl, ok := v.(*ssa.Slice)
	if !ok || sl.Low != nil || sl.High != nil {
		return nil, false
	}
	a, ok := sl.X.(*ssa.Alloc)
	if !ok {
		return nil, false
	}
	arr, ok := derefType(a.Type()).Underlying().(*types.Array)
	if !ok {
		return nil, false
	}
	out := make([]ssa.Value, arr.Len())
	for _, ref := range *a.Referrers() {
		switch u := ref.(type) {
		case *ssa.IndexAddr:
			c, ok := u.Index.(*ssa.Const)
			if !ok || c.Value == nil {
				return nil, false
			}
			i, _ := constant.Int64Val(c.Value)
			for _, r2 := range *u.Referrers() {
				if st, ok := r2.(*ssa.Store); ok && st.Addr == u {
					if i < 0 || int(i) >= len(out) || out[i] != nil {
						return nil, false
					}
					out[i] = st.Val
				} else if _, ok := r2.(*ssa.DebugRef); !ok {
					return nil, false
				}
			}
		case *ssa.Slice, *ssa.DebugRef:
		default:
			return nil, false
		}
	}
	for _, e := range out {
		if e == nil {
			return nil, false
		}
	}
	return out, true
}

func appendParts(v ssa.Value) (base ssa.Value, elems []ssa.Value, ok bool) {
	c, isCall := v.(*ssa.Call)
	if !isCall {
		return nil, nil, false
	}
	b, isB := c.Call.Value.(*ssa.Builtin)
	if !isB || b.Name() != "append" || len(c.Call.Args) != 2 {
		return nil, nil, false
	}
	el, ok := literalElems(c.Call.Args[1])
	if !ok || len(el) == 0 {
		return nil, nil, false
	}
	return c.Call.Args[0], el, true
}

func passThrough(v ssa.Value) (ssa.Value, bool) {
	c, ok := v.(*ssa.Call)
	if !ok {
		return nil, false
	}
	if callee := c.Call.StaticCallee(); callee != nil && pkgPathOf(callee) == "slices" && len(c.Call.Args) == 1 {
		n := callee.Name()
		if i := strings.Index(n, "["); i >= 0 {
			n = n[:i]
		}
		if n == "Clip" || n == "Clone" {
			return c.Call.Args[0], true
		}
	}
	return nil, false
}

func isEmptySlice(v ssa.Value) bool {
	switch x := v.(type) {
	case *ssa.Const:
		return x.IsNil()
	case *ssa.Slice:
		if a, ok := x.X.(*ssa.Alloc); ok {
			if arr, ok := derefType(a.Type()).Underlying().(*types.Array); ok {
				return arr.Len() == 0
			}
		}
	case *ssa.MakeSlice:
		if c, ok := x.Len.(*ssa.Const); ok && c.Value != nil {
			n, _ := constant.Int64Val(c.Value)
			return n == 0
		}
	}
	return false
}

func (pe *pathEnds) headerLoop(b *ssa.BasicBlock) *loopInfo {
	for _, l := range pe.loops {
		if l.Head == b {
			return l
		}
	}
	return nil
}

func (pe *pathEnds) first(v ssa.Value, depth int) string {
	if depth > 8 {
		return "?"
	}
	if x, ok := passThrough(v); ok {
		return pe.first(x, depth+1)
	}
	if s, ok := pe.viaHelper(v, false); ok {
		return s
	}
	if el, ok := literalElems(v); ok && len(el) > 0 {
		return pe.point(el[0])
	}
	if base, el, ok := appendParts(v); ok {
		if isEmptySlice(base) {
			return pe.point(el[0])
		}
		return pe.first(base, depth+1)
	}
	if phi, ok := v.(*ssa.Phi); ok {
		if l := pe.headerLoop(phi.Block()); l != nil {
			// accumulated path: empty before the loop, every way round appends to it; the first element is what the first iteration appends
			var init ssa.Value
			var firstVals []ssa.Value
			for i, e := range phi.Edges {
				if !l.Body[phi.Block().Preds[i]] {
					if init != nil && init != e {
						return "?"
					}
					init = e
					continue
				}
				base, el, ok := appendParts(e)
				if !ok || base != ssa.Value(phi) {
					return "?"
				}
				firstVals = append(firstVals, el[0])
			}
			if init == nil || len(firstVals) == 0 {
				return "?"
			}
			if !isEmptySlice(init) {
				return pe.first(init, depth+1)
			}
			if !pe.entersLoop(l) {
				return "?"
			}
			res := ""
			for _, fv := range firstVals {
				s := "?"
				if p2, ok := fv.(*ssa.Phi); ok && p2.Block() == l.Head {
					for i, e := range p2.Edges {
						if !l.Body[p2.Block().Preds[i]] {
							s = pe.point(e)
						}
					}
				} else {
					s = pe.point(fv)
				}
				if res == "" {
					res = s
				} else if res != s {
					return "?"
				}
			}
			return res
		}
		res := ""
		for _, e := range phi.Edges {
			s := pe.first(e, depth+1)
			if res == "" {
				res = s
			} else if res != s {
				return "?"
			}
		}
		return res
	}
	return "?"
}

// entersLoop: the loop condition is true on entry (a header phi whose entry value is the constant true), or the append sits in the header's unconditional part.
func (pe *pathEnds) entersLoop(l *loopInfo) bool {
	h := l.Head
	iff, ok := h.Instrs[len(h.Instrs)-1].(*ssa.If)
	if !ok {
		return true
	}
	phi, ok := iff.Cond.(*ssa.Phi)
	if !ok || phi.Block() != h {
		return false
	}
	if !l.Body[h.Succs[0]] {
		return false
	}
	for i, e := range phi.Edges {
		if !l.Body[h.Preds[i]] {
			c, ok := e.(*ssa.Const)
			if !ok || c.Value == nil || c.Value.Kind() != constant.Bool || !constant.BoolVal(c.Value) {
				return false
			}
		}
	}
	return true
}

func (pe *pathEnds) last(v ssa.Value, depth int) string {
	if depth > 8 {
		return "?"
	}
	if x, ok := passThrough(v); ok {
		return pe.last(x, depth+1)
	}
	if s, ok := pe.viaHelper(v, true); ok {
		return s
	}
	if el, ok := literalElems(v); ok && len(el) > 0 {
		return pe.point(el[len(el)-1])
	}
	if _, el, ok := appendParts(v); ok {
		return pe.point(el[len(el)-1])
	}
	if phi, ok := v.(*ssa.Phi); ok && pe.headerLoop(phi.Block()) == nil {
		res := ""
		agree := true
		for _, e := range phi.Edges {
			s := pe.last(e, depth+1)
			if res == "" {
				res = s
			} else if res != s {
				agree = false
			}
		}
		if agree && res != "?" {
			return res
		}
		// guard form: if last(a) != p { a = append(a, p) }
		if len(phi.Edges) == 2 {
			for i := 0; i < 2; i++ {
				base, el, ok := appendParts(phi.Edges[i])
				other := phi.Edges[1-i]
				if !ok || base != other || len(el) != 1 {
					continue
				}
				want := pe.point(el[0])
				if want == "?" {
					continue
				}
				// the edge that carries `other` unchanged must come from the false branch of lastElem(other) != el[0]
				pred := phi.Block().Preds[1-i]
				iff, ok := pred.Instrs[len(pred.Instrs)-1].(*ssa.If)
				if !ok {
					continue
				}
				cmp, ok := iff.Cond.(*ssa.BinOp)
				if !ok || (cmp.Op != token.NEQ && cmp.Op != token.EQL) {
					continue
				}
				skipIdx := 1 // with !=, the false successor skips the append
				if cmp.Op == token.EQL {
					skipIdx = 0
				}
				if pred.Succs[skipIdx] != phi.Block() {
					continue
				}
				a, b := cmp.X, cmp.Y
				if isLastElemOf(a, other) && pe.point(b) == want || isLastElemOf(b, other) && pe.point(a) == want {
					return want
				}
			}
		}
	}
	return "?"
}

// isLastElemOf: v is s[len(s)-1]
func isLastElemOf(v, s ssa.Value) bool {
	u, ok := v.(*ssa.UnOp)
	if !ok || u.Op != token.MUL {
		return false
	}
	ia, ok := u.X.(*ssa.IndexAddr)
	if !ok || ia.X != s {
		return false
	}
	sub, ok := ia.Index.(*ssa.BinOp)
	if !ok || sub.Op != token.SUB {
		return false
	}
	c, ok := sub.Y.(*ssa.Const)
	if !ok || c.Value == nil {
		return false
	}
	if n, _ := constant.Int64Val(c.Value); n != 1 {
		return false
	}
	call, ok := sub.X.(*ssa.Call)
	if !ok {
		return false
	}
	b, ok := call.Call.Value.(*ssa.Builtin)
	return ok && b.Name() == "len" && len(call.Call.Args) == 1 && call.Call.Args[0] == s
}

// ---------- FUN-1 ----------

func init() {
	register(&Rule{
		ID: "FUN-1",
		Doc: "the funnel treats its two chains alike: in the geom function that works a double-ended queue from both ends, the case that extends the left chain and the case that extends the right chain are mirror images " +
			"(front operations <-> back operations, < <-> > on queue indices, clockwise <-> counter-clockwise), each case touches only its own end of the queue, and the wedge tests they call are mirror images too. " +
			"Sibling cross-check: if the two cases disagree, one of them is wrong, and corridors whose bends lie on that side get a path that is not the shortest or leaves the corridor",
		Floor:  2,
		Ctl:    []string{"internal__geom__fun1.go.txt"},
		MinCtl: 2,
		Run:    runFun1,
	})
}

var dequeMirror = map[string]string{
	"PushFront": "PushBack", "PushBack": "PushFront", "PopFront": "PopBack", "PopBack": "PopFront",
	"PeekFront": "PeekBack", "PeekBack": "PeekFront", "Front": "Back", "Back": "Front",
}

func dequeEnd(name string) string {
	switch {
	case strings.HasSuffix(name, "Front"):
		return "front"
	case strings.HasSuffix(name, "Back"):
		return "back"
	}
	return ""
}

type mirrorCmp struct {
	m       *Model
	info    *types.Info
	fd      *ast.FuncDecl
	lits    map[types.Object]*ast.FuncLit // closure-valued locals of the enclosing function
	bind    map[types.Object]types.Object
	rbind   map[types.Object]types.Object
	regions [][2]ast.Node
	done    map[[2]types.Object]bool
	why     string
	unsup   bool
}

func (c *mirrorCmp) fail(a ast.Node, format string, args ...any) bool {
	if c.why == "" {
		c.why = fmt.Sprintf(format, args...)
		if a != nil {
			c.why += " at " + c.m.Pos(a.Pos())
		}
	}
	return false
}

func (c *mirrorCmp) isDequeMethod(se *ast.SelectorExpr) bool {
	sel := c.info.Selections[se]
	if sel == nil || sel.Kind() != types.MethodVal {
		return false
	}
	return strings.HasPrefix(namedKey(derefType(sel.Recv())), "internal/collectors.Deque")
}

func (c *mirrorCmp) endIndexCall(e ast.Expr) bool {
	ce, ok := stripParens(e).(*ast.CallExpr)
	if !ok {
		return false
	}
	se, ok := ce.Fun.(*ast.SelectorExpr)
	return ok && c.isDequeMethod(se) && (se.Sel.Name == "Front" || se.Sel.Name == "Back") && len(ce.Args) == 0
}

func stripParens(e ast.Expr) ast.Expr {
	for {
		p, ok := e.(*ast.ParenExpr)
		if !ok {
			return e
		}
		e = p.X
	}
}

var flipCmp = map[token.Token]token.Token{token.LSS: token.GTR, token.GTR: token.LSS, token.LEQ: token.GEQ, token.GEQ: token.LEQ, token.EQL: token.EQL, token.NEQ: token.NEQ}

// canonical comparison: queue-index call on the left
func (c *mirrorCmp) canon(b *ast.BinaryExpr) (x, y ast.Expr, op token.Token, indexCmp bool) {
	x, y, op = stripParens(b.X), stripParens(b.Y), b.Op
	if _, isCmp := flipCmp[op]; !isCmp {
		return x, y, op, false
	}
	if c.endIndexCall(x) {
		return x, y, op, true
	}
	if c.endIndexCall(y) {
		return y, x, flipCmp[op], true
	}
	return x, y, op, false
}

func (c *mirrorCmp) local(o types.Object) bool {
	for _, rg := range c.regions {
		for _, n := range rg {
			if n != nil && n.Pos() <= o.Pos() && o.Pos() < n.End() {
				return true
			}
		}
	}
	return false
}

func (c *mirrorCmp) idents(a, b *ast.Ident) bool {
	oa, ob := c.info.ObjectOf(a), c.info.ObjectOf(b)
	if oa == nil || ob == nil {
		if oa == nil && ob == nil && a.Name == b.Name {
			return true
		}
		return c.fail(a, "%s does not correspond to %s", a.Name, b.Name)
	}
	if ca, ok := oa.(*types.Const); ok {
		cb, ok := ob.(*types.Const)
		if !ok {
			return c.fail(a, "%s does not correspond to %s", a.Name, b.Name)
		}
		// orientation constants: the mirror image of a turn is the opposite turn
		if ca.Val().Kind() == constant.Int && cb.Val().Kind() == constant.Int && ca.Pkg() == cb.Pkg() && shortPkg(ca.Pkg().Path()) == geomPkg && isOrientationConst(ca) && isOrientationConst(cb) {
			va, _ := constant.Int64Val(ca.Val())
			vb, _ := constant.Int64Val(cb.Val())
			if va == -vb {
				return true
			}
			return c.fail(a, "the turn %s should be mirrored by the opposite turn, not by %s", a.Name, b.Name)
		}
		if constant.Compare(ca.Val(), token.EQL, cb.Val()) {
			return true
		}
		return c.fail(a, "constant %s does not correspond to %s", a.Name, b.Name)
	}
	if c.local(oa) || c.local(ob) {
		if x, ok := c.bind[oa]; ok {
			if x == ob {
				return true
			}
			return c.fail(a, "local %s is used where the other side uses %s", a.Name, b.Name)
		}
		if _, ok := c.rbind[ob]; ok {
			return c.fail(a, "local %s is used where the other side uses %s", a.Name, b.Name)
		}
		if !types.Identical(oa.Type(), ob.Type()) {
			return c.fail(a, "locals %s and %s have different types", a.Name, b.Name)
		}
		c.bind[oa], c.rbind[ob] = ob, oa
		return true
	}
	if oa == ob {
		// a closure shared by both sides must be symmetric in itself only if it touches the queue; a shared value is fine
		return true
	}
	la, lb := c.lits[oa], c.lits[ob]
	if la != nil && lb != nil {
		k := [2]types.Object{oa, ob}
		if c.done[k] {
			return true
		}
		c.done[k] = true
		c.regions = append(c.regions, [2]ast.Node{la, lb})
		ok := c.node(la, lb)
		c.regions = c.regions[:len(c.regions)-1]
		return ok
	}
	return c.fail(a, "%s does not correspond to %s", a.Name, b.Name)
}

func isOrientationConst(k *types.Const) bool {
	v, ok := constant.Int64Val(k.Val())
	return ok && v >= -1 && v <= 1
}

func (c *mirrorCmp) exprs(a, b []ast.Expr) bool {
	if len(a) != len(b) {
		var n ast.Node
		if len(a) > 0 {
			n = a[0]
		}
		return c.fail(n, "different number of operands")
	}
	for i := range a {
		if !c.node(a[i], b[i]) {
			return false
		}
	}
	return true
}

func (c *mirrorCmp) stmts(a, b []ast.Stmt) bool {
	if len(a) != len(b) {
		var n ast.Node
		if len(a) > 0 {
			n = a[0]
		} else if len(b) > 0 {
			n = b[0]
		}
		return c.fail(n, "the two sides have a different number of statements (%d / %d)", len(a), len(b))
	}
	for i := range a {
		if !c.node(a[i], b[i]) {
			return false
		}
	}
	return true
}

func isNilNode(n ast.Node) bool {
	if n == nil {
		return true
	}
	switch x := n.(type) {
	case ast.Expr:
		return x == nil
	case ast.Stmt:
		return x == nil
	case *ast.BlockStmt:
		return x == nil
	case *ast.FieldList:
		return x == nil
	}
	return false
}

func (c *mirrorCmp) node(a, b ast.Node) bool {
	if ea, ok := a.(ast.Expr); ok && ea != nil {
		a = stripParens(ea)
	}
	if eb, ok := b.(ast.Expr); ok && eb != nil {
		b = stripParens(eb)
	}
	na, nb := isNilNode(a), isNilNode(b)
	if na || nb {
		if na && nb {
			return true
		}
		return c.fail(nil, "one side has a part the other side lacks")
	}
	switch x := a.(type) {
	case *ast.Ident:
		y, ok := b.(*ast.Ident)
		if !ok {
			return c.fail(a, "different shape")
		}
		return c.idents(x, y)
	case *ast.BasicLit:
		y, ok := b.(*ast.BasicLit)
		if !ok || x.Kind != y.Kind || x.Value != y.Value {
			return c.fail(a, "literal %s has no equal counterpart", x.Value)
		}
		return true
	case *ast.SelectorExpr:
		y, ok := b.(*ast.SelectorExpr)
		if !ok {
			return c.fail(a, "different shape")
		}
		if c.isDequeMethod(x) || c.isDequeMethod(y) {
			want := x.Sel.Name
			if mm, ok := dequeMirror[want]; ok {
				want = mm
			}
			if y.Sel.Name != want {
				return c.fail(a, "queue operation %s is mirrored by %s, expected %s", x.Sel.Name, y.Sel.Name, want)
			}
			return c.node(x.X, y.X)
		}
		if x.Sel.Name != y.Sel.Name {
			// two methods of one module type (the wedge tests as methods of a funnel struct): compared like a pair of closures
			fx, _ := c.info.Uses[x.Sel].(*types.Func)
			fy, _ := c.info.Uses[y.Sel].(*types.Func)
			if fx != nil && fy != nil && c.m.Decl[fx] != nil && c.m.Decl[fy] != nil && c.m.DeclPkg[fx] == c.m.DeclPkg[fy] {
				if !c.node(x.X, y.X) {
					return false
				}
				k := [2]types.Object{fx, fy}
				if c.done[k] {
					return true
				}
				c.done[k] = true
				dx, dy := c.m.Decl[fx], c.m.Decl[fy]
				c.regions = append(c.regions, [2]ast.Node{dx, dy})
				ok := true
				rx, ry := fieldNames(dx.Recv), fieldNames(dy.Recv)
				px, py := fieldNames(dx.Type.Params), fieldNames(dy.Type.Params)
				if len(rx) != len(ry) || len(px) != len(py) {
					ok = c.fail(a, "methods %s and %s have different shapes", x.Sel.Name, y.Sel.Name)
				}
				for i := 0; ok && i < len(rx); i++ {
					ok = c.idents(rx[i], ry[i])
				}
				for i := 0; ok && i < len(px); i++ {
					ok = c.idents(px[i], py[i])
				}
				ok = ok && c.node(dx.Body, dy.Body)
				c.regions = c.regions[:len(c.regions)-1]
				return ok
			}
			return c.fail(a, "selector %s does not correspond to %s", x.Sel.Name, y.Sel.Name)
		}
		return c.node(x.X, y.X)
	case *ast.CallExpr:
		y, ok := b.(*ast.CallExpr)
		if !ok {
			return c.fail(a, "different shape")
		}
		return c.node(x.Fun, y.Fun) && c.exprs(x.Args, y.Args)
	case *ast.BinaryExpr:
		y, ok := b.(*ast.BinaryExpr)
		if !ok {
			return c.fail(a, "different shape")
		}
		xx, xy, xop, xi := c.canon(x)
		yx, yy, yop, yi := c.canon(y)
		if xi != yi {
			return c.fail(a, "a comparison of queue indices has no counterpart")
		}
		want := xop
		if xi {
			want = flipCmp[xop]
		}
		if yop != want {
			return c.fail(a, "operator %s is mirrored by %s, expected %s", xop, yop, want)
		}
		return c.node(xx, yx) && c.node(xy, yy)
	case *ast.UnaryExpr:
		y, ok := b.(*ast.UnaryExpr)
		if !ok || x.Op != y.Op {
			return c.fail(a, "different shape")
		}
		return c.node(x.X, y.X)
	case *ast.IndexExpr:
		y, ok := b.(*ast.IndexExpr)
		if !ok {
			return c.fail(a, "different shape")
		}
		return c.node(x.X, y.X) && c.node(x.Index, y.Index)
	case *ast.StarExpr:
		y, ok := b.(*ast.StarExpr)
		if !ok {
			return c.fail(a, "different shape")
		}
		return c.node(x.X, y.X)
	case *ast.CompositeLit:
		y, ok := b.(*ast.CompositeLit)
		if !ok {
			return c.fail(a, "different shape")
		}
		if !types.Identical(c.info.TypeOf(x), c.info.TypeOf(y)) {
			return c.fail(a, "different literal types")
		}
		return c.exprs(x.Elts, y.Elts)
	case *ast.KeyValueExpr:
		y, ok := b.(*ast.KeyValueExpr)
		if !ok {
			return c.fail(a, "different shape")
		}
		return c.node(x.Key, y.Key) && c.node(x.Value, y.Value)
	case *ast.FuncLit:
		y, ok := b.(*ast.FuncLit)
		if !ok {
			return c.fail(a, "different shape")
		}
		pa, pb := fieldNames(x.Type.Params), fieldNames(y.Type.Params)
		if len(pa) != len(pb) {
			return c.fail(a, "closures with different parameter lists")
		}
		for i := range pa {
			if !c.idents(pa[i], pb[i]) {
				return false
			}
		}
		return c.node(x.Body, y.Body)
	case *ast.BlockStmt:
		y, ok := b.(*ast.BlockStmt)
		if !ok {
			return c.fail(a, "different shape")
		}
		return c.stmts(x.List, y.List)
	case *ast.ExprStmt:
		y, ok := b.(*ast.ExprStmt)
		if !ok {
			return c.fail(a, "different shape")
		}
		return c.node(x.X, y.X)
	case *ast.AssignStmt:
		y, ok := b.(*ast.AssignStmt)
		if !ok || x.Tok != y.Tok {
			return c.fail(a, "different shape")
		}
		return c.exprs(x.Rhs, y.Rhs) && c.exprs(x.Lhs, y.Lhs)
	case *ast.IncDecStmt:
		y, ok := b.(*ast.IncDecStmt)
		if !ok || x.Tok != y.Tok {
			return c.fail(a, "different shape")
		}
		return c.node(x.X, y.X)
	case *ast.ReturnStmt:
		y, ok := b.(*ast.ReturnStmt)
		if !ok {
			return c.fail(a, "different shape")
		}
		return c.exprs(x.Results, y.Results)
	case *ast.IfStmt:
		y, ok := b.(*ast.IfStmt)
		if !ok {
			return c.fail(a, "different shape")
		}
		return c.node(x.Init, y.Init) && c.node(x.Cond, y.Cond) && c.node(x.Body, y.Body) && c.node(x.Else, y.Else)
	case *ast.ForStmt:
		y, ok := b.(*ast.ForStmt)
		if !ok {
			return c.fail(a, "different shape")
		}
		return c.node(x.Init, y.Init) && c.node(x.Cond, y.Cond) && c.node(x.Post, y.Post) && c.node(x.Body, y.Body)
	case *ast.RangeStmt:
		y, ok := b.(*ast.RangeStmt)
		if !ok || x.Tok != y.Tok {
			return c.fail(a, "different shape")
		}
		return c.node(x.X, y.X) && c.node(x.Key, y.Key) && c.node(x.Value, y.Value) && c.node(x.Body, y.Body)
	case *ast.BranchStmt:
		y, ok := b.(*ast.BranchStmt)
		if !ok || x.Tok != y.Tok || (x.Label == nil) != (y.Label == nil) || (x.Label != nil && x.Label.Name != y.Label.Name) {
			return c.fail(a, "different shape")
		}
		return true
	case *ast.DeclStmt:
		y, ok := b.(*ast.DeclStmt)
		if !ok {
			return c.fail(a, "different shape")
		}
		gx, ok1 := x.Decl.(*ast.GenDecl)
		gy, ok2 := y.Decl.(*ast.GenDecl)
		if !ok1 || !ok2 || gx.Tok != gy.Tok || len(gx.Specs) != len(gy.Specs) {
			return c.fail(a, "different shape")
		}
		for i := range gx.Specs {
			vx, ok1 := gx.Specs[i].(*ast.ValueSpec)
			vy, ok2 := gy.Specs[i].(*ast.ValueSpec)
			if !ok1 || !ok2 || len(vx.Names) != len(vy.Names) {
				return c.fail(a, "different shape")
			}
			if !c.exprs(vx.Values, vy.Values) {
				return false
			}
			for j := range vx.Names {
				if !c.idents(vx.Names[j], vy.Names[j]) {
					return false
				}
			}
		}
		return true
	case *ast.CaseClause:
		y, ok := b.(*ast.CaseClause)
		if !ok {
			return c.fail(a, "different shape")
		}
		return c.exprs(x.List, y.List) && c.stmts(x.Body, y.Body)
	case *ast.SwitchStmt:
		y, ok := b.(*ast.SwitchStmt)
		if !ok {
			return c.fail(a, "different shape")
		}
		return c.node(x.Init, y.Init) && c.node(x.Tag, y.Tag) && c.node(x.Body, y.Body)
	}
	c.unsup = true
	return c.fail(a, "statement form %T is not modelled", a)
}

func fieldNames(fl *ast.FieldList) []*ast.Ident {
	var out []*ast.Ident
	if fl == nil {
		return out
	}
	for _, f := range fl.List {
		out = append(out, f.Names...)
	}
	return out
}

type funnelCase struct {
	conds []ast.Expr
	body  []ast.Stmt
	node  ast.Node
}

func runFun1(m *Model, r *RuleResult) {
	p := m.Pkg(geomPkg)
	if p == nil {
		r.undecided("package", "-", "package internal/geom", "not loaded")
		return
	}
	info := p.TypesInfo
	var decls []*ast.FuncDecl
	for fn, fd := range m.Decl {
		if m.DeclPkg[fn] == p && fd.Body != nil {
			decls = append(decls, fd)
		}
	}
	sort.Slice(decls, func(i, j int) bool { return decls[i].Pos() < decls[j].Pos() })
	for _, fd := range decls {
		c := &mirrorCmp{m: m, info: info, fd: fd, lits: map[types.Object]*ast.FuncLit{}, bind: map[types.Object]types.Object{}, rbind: map[types.Object]types.Object{}, done: map[[2]types.Object]bool{}}
		var endsAt func(n ast.Node, mutatorsOnly bool, depth int, out map[string]bool)
		endsAt = func(n ast.Node, mutatorsOnly bool, depth int, out map[string]bool) {
			if isNilNode(n) {
				return
			}
			ast.Inspect(n, func(x ast.Node) bool {
				if se, ok := x.(*ast.SelectorExpr); ok && c.isDequeMethod(se) {
					if e := dequeEnd(se.Sel.Name); e != "" {
						if !mutatorsOnly || strings.HasPrefix(se.Sel.Name, "Push") || strings.HasPrefix(se.Sel.Name, "Pop") {
							out[e] = true
						}
						if strings.HasPrefix(se.Sel.Name, "Pop") {
							out["pop"] = true
						}
					}
				}
				// the chain cases may be functions of their own (extendLeft / extendRight): look one call deep
				if ce, ok := x.(*ast.CallExpr); ok && depth < 1 {
					if fn, _ := calleeObj(info, ce).(*types.Func); fn != nil && m.DeclPkg[fn] == p && m.Decl[fn] != nil && m.Decl[fn].Body != nil && m.Decl[fn] != fd {
						endsAt(m.Decl[fn].Body, mutatorsOnly, depth+1, out)
					}
				}
				return true
			})
		}
		endsIn := func(n ast.Node, mutatorsOnly bool) map[string]bool {
			out := map[string]bool{}
			endsAt(n, mutatorsOnly, 0, out)
			delete(out, "pop")
			return out
		}
		popsIn := func(body []ast.Stmt) bool {
			out := map[string]bool{}
			for _, s := range body {
				endsAt(s, true, 0, out)
			}
			return out["pop"]
		}
		endsDirect := func(n ast.Node) map[string]bool {
			out := map[string]bool{}
			endsAt(n, true, 1, out)
			delete(out, "pop")
			return out
		}
		all := endsIn(fd.Body, true)
		if !all["front"] || !all["back"] {
			continue
		}
		ctl := m.IsPosctl(fd.Pos())
		key := "mirror-chains:" + astFuncKey(p, fd)
		pos := m.Pos(fd.Pos())
		// closure-valued locals
		ast.Inspect(fd.Body, func(n ast.Node) bool {
			if as, ok := n.(*ast.AssignStmt); ok && len(as.Lhs) == len(as.Rhs) {
				for i, l := range as.Lhs {
					if id, ok := l.(*ast.Ident); ok {
						if fl, ok := as.Rhs[i].(*ast.FuncLit); ok {
							if o := info.ObjectOf(id); o != nil {
								c.lits[o] = fl
							}
						}
					}
				}
			}
			return true
		})
		// case lists: tagless switches and if / else-if chains inside loops
		var groups [][]funnelCase
		ast.Inspect(fd.Body, func(n ast.Node) bool {
			switch x := n.(type) {
			case *ast.SwitchStmt:
				if x.Tag != nil {
					return true
				}
				var g []funnelCase
				for _, s := range x.Body.List {
					cc := s.(*ast.CaseClause)
					g = append(g, funnelCase{conds: cc.List, body: cc.Body, node: cc})
				}
				groups = append(groups, g)
			case *ast.IfStmt:
				var g []funnelCase
				cur := x
				for cur != nil {
					g = append(g, funnelCase{conds: []ast.Expr{cur.Cond}, body: cur.Body.List, node: cur.Body})
					switch e := cur.Else.(type) {
					case *ast.IfStmt:
						cur = e
					case *ast.BlockStmt:
						g = append(g, funnelCase{body: e.List, node: e})
						cur = nil
					default:
						cur = nil
					}
				}
				if len(g) >= 2 {
					groups = append(groups, g)
				}
			}
			return true
		})
		var front, back []funnelCase
		var mixed []string
		var wedges [][]funnelCase
		for _, g := range groups {
			var gf, gb []funnelCase
			nboth := 0
			for _, fc := range g {
				e := map[string]bool{}
				for _, s := range fc.body {
					for k := range endsIn(s, true) {
						e[k] = true
					}
				}
				if e["front"] && e["back"] && !popsIn(fc.body) {
					nboth++
				}
			}
			if nboth > 0 {
				wedges = append(wedges, g)
				continue
			}
			for _, fc := range g {
				e := map[string]bool{}
				for _, s := range fc.body {
					for k := range endsIn(s, true) {
						e[k] = true
					}
				}
				switch {
				case e["front"] && e["back"]:
					// a case that pushes on both ends (the initial wedge) is not a chain case; ignore unless it pops
				case e["front"]:
					gf = append(gf, fc)
				case e["back"]:
					gb = append(gb, fc)
				}
			}
			if len(gf) == 1 && len(gb) == 1 && popsIn(gf[0].body) && popsIn(gb[0].body) {
				front, back = append(front, gf[0]), append(back, gb[0])
			}
		}
		direct := endsDirect(fd.Body)
		if len(front) != 1 {
			switch {
			case len(wedges) > 0 || (direct["front"] && direct["back"] && len(front) == 0):
				// the funnel is opened here; its chain cases live in another function (benign AD2), or are missing altogether:
				// the wedge is judged here, the chain cases where they are (the anchor floor counts both)
				checkWedge(m, r, c, p, fd, wedges, nil, ctl)
			case direct["front"] && direct["back"]:
				r.add(Obligation{Key: key, Pos: pos, Desc: "the left-chain and right-chain cases of the funnel are mirror images", Verdict: "undecided",
					Detail: fmt.Sprintf("expected one pair of sibling cases that pop and push at opposite ends of the queue, found %d", len(front)), Control: ctl})
			}
			continue
		}
		fc, bc := front[0], back[0]
		if len(wedges) > 0 || (direct["front"] && direct["back"]) {
			checkWedge(m, r, c, p, fd, wedges, []funnelCase{fc, bc}, ctl)
		}
		// each case touches only its own end (queries included), conditions aside
		for _, side := range []struct {
			c    funnelCase
			want string
		}{{fc, "front"}, {bc, "back"}} {
			for _, s := range side.c.body {
				for e := range endsIn(s, false) {
					if e != side.want {
						mixed = append(mixed, fmt.Sprintf("the case at %s works the %s of the queue but also reads or changes its %s", m.Pos(side.c.node.Pos()), side.want, e))
					}
				}
			}
		}
		c.regions = [][2]ast.Node{{fc.node, bc.node}}
		ok := c.exprs(fc.conds, bc.conds) && c.stmts(fc.body, bc.body)
		switch {
		case ok && len(mixed) == 0:
			r.add(Obligation{Key: key, Pos: pos, Desc: fmt.Sprintf("the two chain cases (%s / %s) and %d pair(s) of wedge tests are mirror images; each case touches only its own end of the queue", m.Pos(fc.node.Pos()), m.Pos(bc.node.Pos()), len(c.done)), Verdict: "holds", Control: ctl})
		case !ok && c.unsup:
			r.add(Obligation{Key: key, Pos: pos, Desc: "the left-chain and right-chain cases of the funnel are mirror images", Verdict: "undecided", Detail: c.why, Control: ctl})
		default:
			d := append([]string{}, mixed...)
			if !ok {
				d = append(d, c.why)
			}
			r.add(Obligation{Key: key, Pos: pos, Desc: "the left-chain and right-chain cases of the funnel are mirror images", Verdict: "violation",
				Detail: strings.Join(uniq(d), "; ") + ": the two chains of the funnel are treated differently, so one of them is handled wrongly", Control: ctl})
		}
	}
}

// checkWedge: the initial wedge of the funnel. Which end point of the first crossed diagonal opens the left chain is a geometric fact
// about the start point; it takes an orientation test to know it (added after seeded change C19-initial-wedge-unoriented).
func checkWedge(m *Model, r *RuleResult, c *mirrorCmp, p *packages.Package, fd *ast.FuncDecl, wedges [][]funnelCase, chain []funnelCase, ctl bool) {
	info := c.info
	key := "initial-wedge:" + astFuncKey(p, fd)
	pos := m.Pos(fd.Pos())
	isOrientationCall := func(n ast.Node) bool {
		found := false
		ast.Inspect(n, func(x ast.Node) bool {
			ce, ok := x.(*ast.CallExpr)
			if !ok {
				return true
			}
			fn, _ := calleeObj(info, ce).(*types.Func)
			if fn == nil {
				return true
			}
			sg := fn.Type().(*types.Signature)
			if sg.Params().Len() == 3 && sg.Results().Len() == 1 && isGeomNamed(sg.Params().At(0).Type(), "P") && isGeomNamed(sg.Params().At(1).Type(), "P") && isGeomNamed(sg.Params().At(2).Type(), "P") {
				if b, ok := sg.Results().At(0).Type().Underlying().(*types.Basic); ok && b.Info()&types.IsInteger != 0 {
					found = true
				}
			}
			return true
		})
		return found
	}
	pushes := func(body []ast.Stmt) (front, back []string) {
		for _, s := range body {
			ast.Inspect(s, func(x ast.Node) bool {
				ce, ok := x.(*ast.CallExpr)
				if !ok {
					return true
				}
				se, ok := ce.Fun.(*ast.SelectorExpr)
				if !ok || !c.isDequeMethod(se) || len(ce.Args) != 1 {
					return true
				}
				switch se.Sel.Name {
				case "PushFront":
					front = append(front, types.ExprString(ce.Args[0]))
				case "PushBack":
					back = append(back, types.ExprString(ce.Args[0]))
				}
				return true
			})
		}
		return
	}
	var bad []string
	okWedge := 0
	for _, g := range wedges {
		if len(g) != 2 || len(g[0].conds) != 1 {
			bad = append(bad, "the wedge at "+m.Pos(g[0].node.Pos())+" is not a two-way choice")
			continue
		}
		// the condition may test a local that holds the result of the orientation predicate
		condOK := isOrientationCall(g[0].conds[0])
		if !condOK {
			ast.Inspect(g[0].conds[0], func(x ast.Node) bool {
				if id, ok := x.(*ast.Ident); ok {
					if o := info.ObjectOf(id); o != nil {
						ast.Inspect(fd.Body, func(y ast.Node) bool {
							if as, ok := y.(*ast.AssignStmt); ok && len(as.Lhs) == len(as.Rhs) {
								for i, l := range as.Lhs {
									if lid, ok := l.(*ast.Ident); ok && info.ObjectOf(lid) == o && isOrientationCall(as.Rhs[i]) {
										condOK = true
									}
								}
							}
							return true
						})
					}
				}
				return true
			})
		}
		f1, b1 := pushes(g[0].body)
		f2, b2 := pushes(g[1].body)
		swapped := len(f1) > 0 && strings.Join(f1, ",") == strings.Join(b2, ",") && strings.Join(b1, ",") == strings.Join(f2, ",")
		switch {
		case !condOK:
			bad = append(bad, "the choice at "+m.Pos(g[0].node.Pos())+" between the two ways of opening the funnel is not made by an orientation test")
		case !swapped:
			bad = append(bad, "the two ways of opening the funnel at "+m.Pos(g[0].node.Pos())+" are not each other's mirror image (front: "+strings.Join(f1, ",")+" / "+strings.Join(f2, ",")+")")
		default:
			okWedge++
		}
	}
	// pushes outside the wedge and the chain cases may only place the start point (a point parameter)
	inside := func(n ast.Node) bool {
		for _, g := range wedges {
			for _, fc := range g {
				if fc.node.Pos() <= n.Pos() && n.End() <= fc.node.End() {
					return true
				}
			}
		}
		for _, fc := range chain {
			if fc.node.Pos() <= n.Pos() && n.End() <= fc.node.End() {
				return true
			}
		}
		return false
	}
	params := map[types.Object]bool{}
	for _, id := range fieldNames(fd.Type.Params) {
		if o := info.ObjectOf(id); o != nil {
			params[o] = true
		}
	}
	ast.Inspect(fd.Body, func(x ast.Node) bool {
		ce, ok := x.(*ast.CallExpr)
		if !ok {
			return true
		}
		se, ok := ce.Fun.(*ast.SelectorExpr)
		if !ok || !c.isDequeMethod(se) || !strings.HasPrefix(se.Sel.Name, "Push") || len(ce.Args) != 1 || inside(ce) {
			return true
		}
		if id, ok := stripParens(ce.Args[0]).(*ast.Ident); ok && params[info.ObjectOf(id)] {
			return true
		}
		bad = append(bad, fmt.Sprintf("%s(%s) at %s puts a point on one chain of the funnel without an orientation test", se.Sel.Name, types.ExprString(ce.Args[0]), m.Pos(ce.Pos())))
		return true
	})
	switch {
	case len(bad) > 0:
		r.add(Obligation{Key: key, Pos: pos, Desc: "the funnel is opened according to an orientation test of the start point against the first diagonal", Verdict: "violation",
			Detail: strings.Join(uniq(bad), "; ") + ": for start points that see the first diagonal the other way round the two chains are swapped, and the path is neither shortest nor inside the corridor", Control: ctl})
	case okWedge == 0:
		r.add(Obligation{Key: key, Pos: pos, Desc: "the funnel is opened according to an orientation test of the start point against the first diagonal", Verdict: "undecided", Detail: "no two-way choice that pushes on both ends of the queue found", Control: ctl})
	default:
		r.add(Obligation{Key: key, Pos: pos, Desc: "the funnel is opened by a two-way choice under an orientation test whose branches exchange the two end points; nothing else but the start point is pushed outside the chain cases", Verdict: "holds", Control: ctl})
	}
}

func hasPop(body []ast.Stmt, c *mirrorCmp) bool {
	found := false
	for _, s := range body {
		ast.Inspect(s, func(x ast.Node) bool {
			if se, ok := x.(*ast.SelectorExpr); ok && c.isDequeMethod(se) && strings.HasPrefix(se.Sel.Name, "Pop") {
				found = true
			}
			return true
		})
	}
	return found
}

// ---------- ROOT-1 ----------

func init() {
	register(&Rule{
		ID: "ROOT-1",
		Doc: "a change of variable is undone on every path (contradiction rule): when a geom function returning []float64 corrects every element of its result by one loop-invariant offset (roots[i] -= s: the roots of the depressed polynomial shifted back), " +
			"every return that can be reached after the offset was computed passes that loop; a return that skips it hands out roots of the substituted polynomial, not of the one that was given, and the curve/barrier intersection test built on them misses crossings",
		Floor: 0, // contradiction rule: where the pattern does not occur there is nothing to be inconsistent; the positive control keeps it alive
		Ctl:   []string{"internal__geom__root1.go.txt"},
		Run:   runRoot1,
	})
}

func runRoot1(m *Model, r *RuleResult) {
	for _, f := range m.Src {
		if shortPkg(pkgPathOf(f)) != geomPkg || f.Parent() != nil || len(f.Blocks) == 0 || f.Signature.Results().Len() != 1 {
			continue
		}
		sl, ok := f.Signature.Results().At(0).Type().Underlying().(*types.Slice)
		if !ok || !isFloatType(sl.Elem()) {
			continue
		}
		loops := naturalLoops(f)
		n := 0
		eachInstr(f, func(in ssa.Instruction) {
			st, ok := in.(*ssa.Store)
			if !ok {
				return
			}
			ia, ok := st.Addr.(*ssa.IndexAddr)
			if !ok {
				return
			}
			bo, ok := st.Val.(*ssa.BinOp)
			if !ok || (bo.Op != token.SUB && bo.Op != token.ADD) {
				return
			}
			ld, ok := bo.X.(*ssa.UnOp)
			if !ok || ld.Op != token.MUL {
				return
			}
			if lia, ok := ld.X.(*ssa.IndexAddr); !ok || lia.X != ia.X || lia.Index != ia.Index { // go/ssa has no CSE: roots[i] is addressed twice
				return
			}
			ls := loopsContaining(loops, st.Block())
			if len(ls) == 0 {
				return
			}
			var outer *loopInfo
			for _, l := range ls {
				if outer == nil || len(l.Body) > len(outer.Body) {
					outer = l
				}
			}
			off, ok := bo.Y.(ssa.Instruction)
			if !ok || outer.Body[off.Block()] {
				return // the offset is not a loop-invariant computed value
			}
			// the corrected slice is what the function returns
			returned := false
			eachInstr(f, func(in2 ssa.Instruction) {
				if ret, ok := in2.(*ssa.Return); ok && len(ret.Results) == 1 && ret.Results[0] == ia.X {
					returned = true
				}
			})
			if !returned {
				return
			}
			n++
			key := fmt.Sprintf("shifted-back-on-every-path:%s#%d", funcKey(f), n)
			ctl := m.FuncIsPosctl(f)
			// returns reachable from the offset's definition without passing the loop head
			seen := map[*ssa.BasicBlock]bool{}
			queue := []*ssa.BasicBlock{off.Block()}
			esc := ""
			for len(queue) > 0 && esc == "" {
				b := queue[0]
				queue = queue[1:]
				if seen[b] || b == outer.Head {
					continue
				}
				seen[b] = true
				if ret, ok := b.Instrs[len(b.Instrs)-1].(*ssa.Return); ok {
					esc = m.Pos(ret.Pos())
				}
				queue = append(queue, b.Succs...)
			}
			if esc == "" {
				r.add(Obligation{Key: key, Pos: m.Pos(st.Pos()), Desc: "every return after the offset " + bo.Y.Name() + " was computed passes the loop that shifts the roots back", Verdict: "holds", Control: ctl})
			} else {
				r.add(Obligation{Key: key, Pos: m.Pos(st.Pos()), Desc: "every return after the offset was computed must pass the loop that shifts the roots back", Verdict: "violation",
					Detail: "the return at " + esc + " is reached without the correction applied at " + m.Pos(st.Pos()) + ": on that path the function returns roots of the substituted polynomial", Control: ctl})
			}
		})
	}
}

// ---------- AXIS-1 ----------

func init() {
	register(&Rule{
		ID: "AXIS-1",
		Doc: "bounding-box tests treat both axes alike (one-sided comparison rule): in package geom, a conjunction that tests a coordinate against the min/max of the same coordinate of two other points (is the point within the span of a segment) " +
			"contains, for every such test on X, the same test on Y and vice versa. A point that is collinear with a vertical triangle side lies within its X span wherever it is on that line; located in the wrong triangle, the funnel starts from the wrong place",
		Floor: 0, // contradiction rule: where the pattern does not occur there is nothing to be inconsistent; the positive control keeps it alive
		Ctl:   []string{"internal__geom__axis1.go.txt"},
		Run:   runAxis1,
	})
}

func runAxis1(m *Model, r *RuleResult) {
	p := m.Pkg(geomPkg)
	if p == nil {
		r.undecided("package", "-", "package internal/geom", "not loaded")
		return
	}
	info := p.TypesInfo
	var decls []*ast.FuncDecl
	for fn, fd := range m.Decl {
		if m.DeclPkg[fn] == p && fd.Body != nil {
			decls = append(decls, fd)
		}
	}
	sort.Slice(decls, func(i, j int) bool { return decls[i].Pos() < decls[j].Pos() })
	coordAxis := func(e ast.Expr) string {
		se, ok := stripParens(e).(*ast.SelectorExpr)
		if !ok {
			return ""
		}
		sel := info.Selections[se]
		if sel == nil || sel.Kind() != types.FieldVal || !isFloatType(sel.Type()) || !isGeomNamed(derefType(sel.Recv()), "P") {
			return ""
		}
		return sel.Obj().Name()
	}
	// spanTest: cmp(coordinate, min|max(coordinates...)) with all coordinates on one axis; returns axis and the axis-erased text
	spanTest := func(e ast.Expr) (string, string) {
		be, ok := stripParens(e).(*ast.BinaryExpr)
		if !ok {
			return "", ""
		}
		if _, isCmp := flipCmp[be.Op]; !isCmp {
			return "", ""
		}
		axis := ""
		hasMinMax := false
		okAll := true
		note := func(a string) {
			if a == "" {
				okAll = false
			} else if axis == "" {
				axis = a
			} else if axis != a {
				okAll = false
			}
		}
		for _, side := range []ast.Expr{be.X, be.Y} {
			side = stripParens(side)
			if ce, ok := side.(*ast.CallExpr); ok {
				if id, ok := ce.Fun.(*ast.Ident); ok {
					if b, ok := info.ObjectOf(id).(*types.Builtin); ok && (b.Name() == "min" || b.Name() == "max") {
						hasMinMax = true
						for _, a := range ce.Args {
							note(coordAxis(a))
						}
						continue
					}
				}
				okAll = false
				continue
			}
			note(coordAxis(side))
		}
		if !okAll || !hasMinMax || axis == "" {
			return "", ""
		}
		txt := types.ExprString(be)
		txt = strings.ReplaceAll(txt, "."+axis, ".#")
		return axis, txt
	}
	for _, fd := range decls {
		n := 0
		seen := map[ast.Expr]bool{}
		ast.Inspect(fd.Body, func(nd ast.Node) bool {
			be, ok := nd.(*ast.BinaryExpr)
			if !ok || be.Op != token.LAND || seen[be] {
				return true
			}
			// flatten the outermost conjunction
			var conj []ast.Expr
			var flat func(e ast.Expr)
			flat = func(e ast.Expr) {
				e = stripParens(e)
				if b, ok := e.(*ast.BinaryExpr); ok && b.Op == token.LAND {
					seen[b] = true
					flat(b.X)
					flat(b.Y)
					return
				}
				conj = append(conj, e)
			}
			flat(be)
			count := map[string]map[string]int{"X": {}, "Y": {}}
			any := false
			for _, c := range conj {
				if a, txt := spanTest(c); a == "X" || a == "Y" {
					count[a][txt]++
					any = true
				}
			}
			if !any {
				return true
			}
			n++
			key := fmt.Sprintf("span-test-both-axes:%s#%d", astFuncKey(p, fd), n)
			ctl := m.IsPosctl(fd.Pos())
			var bad []string
			for txt, k := range count["X"] {
				if count["Y"][txt] != k {
					bad = append(bad, strings.ReplaceAll(txt, ".#", ".X")+" has no counterpart on Y")
				}
			}
			for txt, k := range count["Y"] {
				if count["X"][txt] != k {
					bad = append(bad, strings.ReplaceAll(txt, ".#", ".Y")+" has no counterpart on X")
				}
			}
			sort.Strings(bad)
			if len(bad) == 0 {
				r.add(Obligation{Key: key, Pos: m.Pos(be.Pos()), Desc: fmt.Sprintf("%d span test(s) on X, the same on Y", len(count["X"])), Verdict: "holds", Control: ctl})
			} else {
				r.add(Obligation{Key: key, Pos: m.Pos(be.Pos()), Desc: "a span test on one axis has its counterpart on the other", Verdict: "violation",
					Detail: strings.Join(bad, "; ") + ": the point is tested against the segment's extent on one axis only, so every point on the line through an axis-parallel segment counts as lying on it", Control: ctl})
			}
			return true
		})
	}
}

// ---------- DEQ-1 ----------

func init() {
	register(&Rule{
		ID: "DEQ-1",
		Doc: "queue positions stay valid: the funnel keeps a raw position of the double-ended queue (the apex, taken from Front()/Back()) across pushes and pops and compares it with later positions, " +
			"so the queue must never move its items: the backing storage of collectors.Deque is assigned only when a queue is constructed (no reallocation, no re-centring copy), and the front and back positions move by exactly one per operation",
		Floor: 3,
		Ctl:   []string{"internal__collectors__deq1.go.txt"},
		Run:   runDeq1,
	})
}

func runDeq1(m *Model, r *RuleResult) {
	m.fxInit()
	isDequeRecv := func(t types.Type) bool {
		return strings.HasPrefix(namedKey(derefType(t)), "internal/collectors.Deque")
	}
	for _, f := range m.Src {
		if shortPkg(pkgPathOf(f)) != "internal/collectors" || len(f.Blocks) == 0 {
			continue
		}
		var bad []string
		nstores := 0
		eachInstr(f, func(in ssa.Instruction) {
			switch x := in.(type) {
			case *ssa.Store:
				fa, ok := x.Addr.(*ssa.FieldAddr)
				if !ok || !isDequeRecv(fa.X.Type()) {
					return
				}
				st := structOf(derefType(fa.X.Type()))
				if st == nil {
					return
				}
				fld := st.Field(fa.Field)
				nstores++
				if _, isSlice := fld.Type().Underlying().(*types.Slice); isSlice {
					if !isFreshObject(fa.X, 0) {
						bad = append(bad, "the backing storage ("+fld.Name()+") is replaced at "+m.Pos(in.Pos()))
					}
					return
				}
				if b, ok := fld.Type().Underlying().(*types.Basic); ok && b.Info()&types.IsInteger != 0 && !isFreshObject(fa.X, 0) {
					// position fields move by one
					okStep := false
					if bo, ok := x.Val.(*ssa.BinOp); ok && (bo.Op == token.ADD || bo.Op == token.SUB) {
						if c, ok := bo.Y.(*ssa.Const); ok && c.Value != nil && c.Int64() == 1 {
							if ld, ok := bo.X.(*ssa.UnOp); ok && ld.Op == token.MUL {
								if fa2, ok := ld.X.(*ssa.FieldAddr); ok && fa2.Field == fa.Field && fa2.X == fa.X {
									okStep = true
								}
							}
						}
					}
					if !okStep {
						bad = append(bad, "the position "+fld.Name()+" is set to "+x.Val.String()+" at "+m.Pos(in.Pos())+" (not a step of one)")
					}
				}
			case *ssa.Call:
				if b, ok := x.Call.Value.(*ssa.Builtin); ok && b.Name() == "copy" && len(x.Call.Args) == 2 {
					if ld, ok := x.Call.Args[0].(*ssa.UnOp); ok {
						if fa, ok := ld.X.(*ssa.FieldAddr); ok && isDequeRecv(fa.X.Type()) && !isFreshObject(fa.X, 0) {
							bad = append(bad, "items are copied within the backing storage at "+m.Pos(in.Pos()))
						}
					}
				}
			}
		})
		if nstores == 0 && len(bad) == 0 {
			continue
		}
		key := "stable-positions:" + funcKey(f)
		ctl := m.FuncIsPosctl(f)
		if len(bad) == 0 {
			r.add(Obligation{Key: key, Pos: m.Pos(f.Pos()), Desc: "stores into the queue: storage assigned at construction only, positions move by one", Verdict: "holds", Control: ctl})
		} else {
			r.add(Obligation{Key: key, Pos: m.Pos(f.Pos()), Desc: "the queue never moves its items", Verdict: "violation",
				Detail: strings.Join(uniq(bad), "; ") + ": positions handed out earlier by Front()/Back() (the funnel's apex) no longer name the same item, and the funnel picks the wrong orientation test", Control: ctl})
		}
	}
}
