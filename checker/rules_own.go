package main

// Engine E1: field ownership (OWN-1).

import (
	"fmt"
	"sort"
	"strings"

	"golang.org/x/tools/go/ssa"
)

func init() {
	register(&Rule{
		ID: "OWN-1",
		Doc: "field ownership by package (mutation, not construction of freshly allocated objects): Node.Layer only phase2; Node.LayerPos and element order of Layer.Nodes only phase3 (phase2/phase3 may build the slice); Node.X/Y and Layer.W/H only phase4; Node.W/H only option closures of package autog; " +
			"Edge.Points/ArrowHeadStart only phase5; Edge.IsReversed only internal/graph; Edge.From/To only internal/graph, phase3, phase5; Edge.IsInSpanningTree/CutValue only phase2; Node.IsVirtual, Node.ID, Edge.Delta, Edge.Weight only at construction; " +
			"adjacency lists and DGraph lists only by the packages that own graph surgery; pipeline packages never store into the public graph.Layout/Node/Edge (one obligation per written location and function)",
		Floor: 95,
		Ctl:   []string{"internal__phase5__own1.go.txt"},
		Run:   runOwn1,
	})
}

// location -> packages allowed to mutate it on objects they did not allocate themselves
var own1Table = map[string][]string{
	igNode + ".Layer":            {"internal/phase2"},
	igNode + ".LayerPos":         {"internal/phase3"},
	igLayer + ".Nodes[]":         {"internal/phase3"},
	igLayer + ".Nodes":           {"internal/phase2", "internal/phase3"},
	igLayer + ".Index":           {"internal/phase2"},
	igNode + ".X":                {"internal/phase4"},
	igNode + ".Y":                {"internal/phase4"},
	igNode + ".W":                {"autog"},
	igNode + ".H":                {"autog"},
	igNode + ".Size":             {},
	igLayer + ".W":               {"internal/phase4"},
	igLayer + ".H":               {"internal/phase4"},
	igLayer + ".X":               {},
	igLayer + ".Y":               {},
	igLayer + ".Size":            {},
	igEdge + ".Points":           {"internal/phase5"},
	igEdge + ".Points[]":         {"internal/phase5"},
	igEdge + ".ArrowHeadStart":   {"internal/phase5"},
	igEdge + ".IsReversed":       {"internal/graph"},
	igEdge + ".From":             {"internal/graph", "internal/phase3", "internal/phase5"},
	igEdge + ".To":               {"internal/graph", "internal/phase3", "internal/phase5"},
	igEdge + ".IsInSpanningTree": {"internal/phase2"},
	igEdge + ".CutValue":         {"internal/phase2"},
	igEdge + ".Delta":            {},
	igEdge + ".Weight":           {},
	igEdge + ".edge":             {},
	igNode + ".IsVirtual":        {},
	igNode + ".ID":               {},
	igNode + ".In":               {"internal/graph", "graph", "internal/processor/preprocessor", "internal/phase3", "internal/phase5", "internal/phase4"},
	igNode + ".Out":              {"internal/graph", "graph", "internal/processor/preprocessor", "internal/phase3", "internal/phase5", "internal/phase4"},
	igNode + ".In[]":             {"internal/phase3"},
	igNode + ".Out[]":            {},
	igDG + ".Nodes":              {"graph", "internal/phase3", "internal/phase4"},
	igDG + ".Nodes[]":            {},
	igDG + ".Edges":              {"graph", "internal/phase3", "internal/phase5", "internal/processor/preprocessor", "internal/phase4"},
	igDG + ".Edges[]":            {},
	igDG + ".Layers":             {"internal/phase2"},
	igDG + ".Layers[]":           {"internal/phase2"},
	pubNode + ".ID":              {"autog"},
	pubNode + ".X":               {"autog"},
	pubNode + ".Y":               {"autog"},
	pubNode + ".W":               {"autog"},
	pubNode + ".H":               {"autog"},
	pubNode + ".Size":            {"autog"},
	pubEdge + ".FromID":          {"autog"},
	pubEdge + ".ToID":            {"autog"},
	pubEdge + ".Points":          {"autog"},
	pubEdge + ".Points[]":        {"autog"},
	pubEdge + ".ArrowHeadStart":  {"autog"},
	pubLay + ".Nodes":            {"autog"},
	pubLay + ".Edges":            {"autog"},
	pubLay + ".Nodes[]":          {"autog"},
	pubLay + ".Edges[]":          {"autog"},
}

func runOwn1(m *Model, r *RuleResult) {
	m.fxInit()
	// the table names the self-loop pre-processor's package by its path on the reference tree; the package is whichever one holds
	// the pre-processor today (resolved by shape), so moving it (benign AB1: internal/processor/fixup) keeps its entry
	rolePkg := map[string]string{}
	if pre := m.anchorSelfLoopPre(); pre != nil {
		if sp := shortPkg(pkgPathOf(pre)); sp != "internal/processor/preprocessor" {
			rolePkg[sp] = "internal/processor/preprocessor"
		}
	}
	type agg struct {
		loc, fn, pkg string
		pos          string
		fresh, mut   int
		ctl          bool
		via          map[string]bool
	}
	byKey := map[string]*agg{}
	for _, f := range m.Src {
		pkg := shortPkg(pkgPathOf(f))
		for _, w := range m.effects[f].Writes {
			if _, ok := own1Table[w.Loc]; !ok {
				continue
			}
			k := w.Loc + "<-" + funcKey(f)
			a := byKey[k]
			if a == nil {
				a = &agg{loc: w.Loc, fn: funcKey(f), pkg: pkg, pos: m.Pos(w.Instr.Pos()), ctl: m.FuncIsPosctl(f), via: map[string]bool{}}
				byKey[k] = a
			}
			if w.Fresh {
				a.fresh++
			} else {
				a.mut++
			}
			if w.Via != "" {
				a.via[w.Via] = true
			}
		}
	}
	var keys []string
	for k := range byKey {
		keys = append(keys, k)
	}
	sort.Strings(keys)
	seenLoc := map[string]bool{}
	for _, k := range keys {
		a := byKey[k]
		seenLoc[a.loc] = true
		allowed := own1Table[a.loc]
		ok := a.mut == 0
		for _, p := range allowed {
			if p == a.pkg || p == rolePkg[a.pkg] {
				ok = true
			}
		}
		// a method of the type's own package that writes through its receiver / parameters (`func (l *Layer) FitHeight()`) acts for
		// whoever calls it: the write appears in every caller's summary (via the callee) and is judged there
		if !ok && a.pkg == "internal/graph" && len(a.via) == 0 {
			if callers, acts := own1ActsForCallers(m, a.fn, a.loc, 0); acts {
				var offenders []string
				for _, c := range callers {
					okC := false
					for _, p := range allowed {
						if p == c.pkg {
							okC = true
						}
					}
					if !okC {
						offenders = append(offenders, c.fn+" (package "+c.pkg+") at "+c.pos)
					}
				}
				if len(offenders) == 0 {
					r.add(Obligation{Key: "write:" + k, Pos: a.pos, Desc: fmt.Sprintf("%s written in %s through its receiver or parameters on behalf of its %d caller(s), all in packages that may mutate it", a.loc, a.fn, len(callers)), Verdict: "holds", Control: a.ctl})
				} else {
					sort.Strings(offenders)
					r.add(Obligation{Key: "write:" + k, Pos: a.pos, Desc: a.loc + " written in " + a.fn + " on behalf of its callers", Verdict: "violation",
						Detail: "field-ownership discipline of the pipeline broken: only " + strings.Join(allowed, ", ") + " may mutate it; it is mutated through " + a.fn + " by " + strings.Join(offenders, "; "), Control: a.ctl})
				}
				continue
			}
		}
		desc := fmt.Sprintf("%s written in %s (%d mutation(s), %d construction store(s))", a.loc, a.fn, a.mut, a.fresh)
		if len(a.via) > 0 {
			var v []string
			for x := range a.via {
				v = append(v, x)
			}
			sort.Strings(v)
			desc += " via " + strings.Join(v, ",")
		}
		if ok {
			r.add(Obligation{Key: "write:" + k, Pos: a.pos, Desc: desc, Verdict: "holds", Control: a.ctl})
		} else {
			who := "no package may mutate it after construction"
			if len(allowed) > 0 {
				who = "only " + strings.Join(allowed, ", ") + " may mutate it"
			}
			r.add(Obligation{Key: "write:" + k, Pos: a.pos, Desc: desc, Verdict: "violation",
				Detail: "field-ownership discipline of the pipeline broken: " + who + "; package " + a.pkg + " does", Control: a.ctl})
		}
	}
	r.stat("locations_with_writes", len(seenLoc))
	// NewEdge stores the constant Delta = 1 and takes weight/from/to from its parameters
	if ne := m.anchorNewEdge(); ne != nil {
		ok := false
		eachInstr(ne, func(in ssa.Instruction) {
			if st, isSt := in.(*ssa.Store); isSt {
				if fa, isFA := st.Addr.(*ssa.FieldAddr); isFA {
					_, steps := fieldChain(fa)
					if locOfSteps(steps) == igEdge+".Delta" {
						if c, isC := constInt(st.Val); isC && c == 1 {
							ok = true
						}
					}
				}
			}
		})
		if ok {
			r.holds("NewEdge:Delta=1", m.Pos(ne.Pos()), "NewEdge initialises the minimum length of every edge to the constant 1")
		} else {
			r.violation("NewEdge:Delta=1", m.Pos(ne.Pos()), "NewEdge must initialise Delta to the constant 1", "edges created by the graph source would not demand one layer of separation")
		}
	} else {
		r.undecided("NewEdge:Delta=1", "-", "constructor internal/graph.NewEdge", "anchor not found")
	}
}

// own1ActsForCallers: the function (by key) is a top-level function of internal/graph whose direct writes to loc all go through
// its receiver or a parameter: it acts for whoever calls it. Returns the callers outside internal/graph (callers inside it that
// act for their own callers are followed, depth <= 3).
type own1Caller struct{ fn, pkg, pos string }

func own1ActsForCallers(m *Model, fnKey, loc string, depth int) ([]own1Caller, bool) {
	var f *ssa.Function
	for _, g := range m.Src {
		if funcKey(g) == fnKey {
			f = g
		}
	}
	if f == nil || f.Parent() != nil || depth > 3 {
		return nil, false
	}
	if depth == 0 {
		for _, w := range m.effects[f].Writes {
			if w.Loc != loc || w.Via != "" {
				continue
			}
			rooted := false
			for _, o := range originsOf(w.Base, 0) {
				if o.Kind == "param" || o.Kind == "paramderef" {
					rooted = true
				} else if o.Kind == "fieldload" || o.Kind == "fieldaddr" {
					for _, o2 := range originsOf(o.Base, 0) {
						if o2.Kind == "param" {
							rooted = true
						}
					}
				}
			}
			if !rooted {
				return nil, false
			}
		}
	}
	var out []own1Caller
	n := 0
	for _, g := range m.Src {
		if g == f || !inModule(g) {
			continue
		}
		for _, site := range staticCalls(g, func(c *ssa.Function) bool { return c == f }) {
			n++
			top := g
			for top.Parent() != nil {
				top = top.Parent()
			}
			if shortPkg(pkgPathOf(g)) == "internal/graph" && top.Parent() == nil {
				if more, ok := own1ActsForCallers(m, funcKey(top), loc, depth+1); ok {
					out = append(out, more...)
					continue
				}
			}
			out = append(out, own1Caller{funcKey(g), shortPkg(pkgPathOf(g)), m.Pos(site.Pos())})
		}
	}
	// a method that is only ever called dynamically (through an interface or a method value) has unknown callers
	return out, n > 0
}
