package main

// Engine E1/E6: pairing rules (PAIR-1..4), FLOW-1, AFF-6 (SSA form), BEST-1, REC-1, CAP-1, BAL-1.

import (
	"fmt"
	"go/token"
	"go/types"
	"sort"
	"strings"

	"golang.org/x/tools/go/ssa"
)

func init() {
	register(&Rule{
		ID: "PAIR-1",
		Doc: "depth-first breaker: the recursive visitor of package phase1 keeps a stack set (a map field set to true for its node parameter before recursing and set to false for the same key before every return that follows); " +
			"edges are appended to the reversal list only under a positive lookup of that set keyed by the edge's To; the driver reverses exactly the elements of the collected list",
		Floor: 3,
		Ctl:   []string{"internal__phase1__pair1.go.txt"},
		Run:   runPair1,
	})
	register(&Rule{
		ID:    "PAIR-2",
		Doc:   "arrowhead flag: every store into Edge.ArrowHeadStart writes the un-negated value of IsReversed loaded from the same edge; in the merge step every appended route is preceded, on the same edge, by such a store (directly or inside the callee that builds the route)",
		Floor: 2,
		Ctl:   []string{"internal__phase5__pair2.go.txt"},
		Run:   runPair2,
	})
	register(&Rule{
		ID: "PAIR-3",
		Doc: "output mapping in Layout: output Node{ID: n.ID, Size: n.Size} with n the visited node; output Edge{FromID: e.From.ID, ToID: e.To.ID, Points: slices.Clone(e.Points), ArrowHeadStart: e.ArrowHeadStart} with e the visited edge and no field missing; " +
			"the node append is skipped only under n.IsVirtual && !includeVirtual; the edge append is unconditional in its loop",
		Floor: 10,
		Run:   runPair3,
	})
	register(&Rule{
		ID:    "PAIR-4",
		Doc:   "route ends are real nodes: the merge step builds a hybrid route only from an edge whose From is not virtual, and the chain-merging loop exits only when the edge's To is not virtual",
		Floor: 2,
		Run:   runPair4,
	})
	register(&Rule{
		ID:    "FLOW-1",
		Doc:   "component shift: the value added to the output node's X flows only into output Node.X, into element [0] of the cloned output points, and into its own update; its update is shift' = shift + (R + NodeSpacing) with R a max-reduction, started at 0, of n.X + n.W over the last node of each non-empty layer (AFF-6)",
		Floor: 4,
		Run:   runFlow1,
	})
	register(&Rule{
		ID: "BEST-1",
		Doc: "paired best-so-far: in the median run the crossing count and the saved positions returned are selected together (same phi structure), a new pair is taken only on the true edge of new < best, and the snapshot is cloned with no reordering call between counting and cloning; " +
			"the caller selects count and positions from the same run, the run with the smaller count; the value logged under \"crossings\" and the map restored into Node.LayerPos are that pair",
		Floor: 5,
		Ctl:   []string{"internal__phase3__best1.go.txt"},
		Run:   runBest1,
	})
	register(&Rule{
		ID:    "REC-1",
		Doc:   "recursion guards: every recursive function (static call from the function or a literal nested in it back to it) has a mark-and-test guard - a map marked for the parameter/argument before the recursive call and a lookup of the same map controlling that call (at the call site or as an early return at entry) - or is listed in the reviewed table with the reason it terminates",
		Floor: 10,
		Ctl:   []string{"internal__phase2__rec1.go.txt"},
		Run:   runRec1,
	})
	register(&Rule{
		ID:    "CAP-1",
		Doc:   "documented iteration caps: the loop around the network-simplex pivot (the call that modifies IsInSpanningTree and Node.Layer) has an exit comparing a counter incremented by 1 per iteration with a loop-invariant bound that depends on Params.NetworkSimplexThoroughness; the sweep loop of the median run is bounded by a value that depends on Params.WMedianMaxIter",
		Floor: 2,
		Ctl:   []string{"internal__phase2__cap1.go.txt"},
		Run:   runCap1,
	})
	register(&Rule{
		ID:    "BAL-1",
		Doc:   "vertical balancing moves only neutral nodes inside their feasible window: in the phase-2 function that stores Node.Layer under a comparison of the node's in- and out-degree, the stored layer is selected between L = max over in-edges of From.Layer + Delta and a counter running from L+1 while <= H, with H = min over out-edges of To.Layer - Delta",
		Floor: 4,
		Run:   runBal1,
	})
}

func mapOrigin(v ssa.Value) string {
	for _, o := range originsOf(v, 0) {
		switch o.Kind {
		case "fieldload", "fieldaddr":
			return "field:" + o.Loc
		case "param":
			return fmt.Sprintf("param:%d", o.Param)
		case "freevar":
			return fmt.Sprintf("freevar:%d", o.Param)
		}
	}
	return ""
}

func paramIndex(f *ssa.Function, v ssa.Value) int {
	for i, p := range f.Params {
		if p == v {
			return i
		}
	}
	return -1
}

func isConstBool(v ssa.Value, want bool) bool {
	c, ok := v.(*ssa.Const)
	if !ok || c.Value == nil {
		return false
	}
	return c.Value.String() == fmt.Sprint(want)
}

// ---------- PAIR-1 ----------

func runPair1(m *Model, r *RuleResult) {
	rev := m.anchorReverse()
	n := 0
	for _, f := range m.Src {
		if shortPkg(pkgPathOf(f)) != "internal/phase1" {
			continue
		}
		// recursive visitor with a map marked true for a parameter
		self := staticCalls(f, func(c *ssa.Function) bool { return c == f })
		if len(self) == 0 {
			if pair1Iterative(m, r, f, rev) {
				n++
			}
			continue
		}
		// candidate stack sets: maps with an update (param, true) ; visited-only maps have no false update
		type upd struct {
			mu   *ssa.MapUpdate
			orig string
			val  bool
		}
		var ups []upd
		eachInstr(f, func(in ssa.Instruction) {
			if mu, ok := in.(*ssa.MapUpdate); ok && paramIndex(f, mu.Key) >= 0 {
				if isConstBool(mu.Value, true) {
					ups = append(ups, upd{mu, mapOrigin(mu.Map), true})
				} else if isConstBool(mu.Value, false) {
					ups = append(ups, upd{mu, mapOrigin(mu.Map), false})
				}
			}
		})
		// does this visitor collect edges (append into a field slice)?
		var collect []*ssa.Store
		eachInstr(f, func(in ssa.Instruction) {
			if st, ok := in.(*ssa.Store); ok {
				if fa, ok := st.Addr.(*ssa.FieldAddr); ok {
					if call, ok := st.Val.(*ssa.Call); ok {
						if b, ok := call.Call.Value.(*ssa.Builtin); ok && b.Name() == "append" {
							_ = fa
							collect = append(collect, st)
						}
					}
				}
			}
		})
		if len(collect) == 0 {
			continue // not a collecting visitor (e.g. the acyclicity test)
		}
		n++
		ctl := m.FuncIsPosctl(f)
		key := "dfs-visitor:" + funcKey(f)
		pos := m.Pos(f.Pos())
		// stack set = map with a true update
		sets := map[string][]upd{}
		for _, u := range ups {
			sets[u.orig] = append(sets[u.orig], u)
		}
		// which set guards the collection?
		for _, st := range collect {
			guardSet := ""
			var guardKeyOK bool
			for _, d := range transitiveControlDeps(st.Block()) {
				lk, ok := d.If.Cond.(*ssa.Lookup)
				if !ok || d.Branch != 0 {
					continue
				}
				o := mapOrigin(lk.X)
				if _, ok := sets[o]; ok {
					guardSet = o
					// key = e.To of the appended edge
					guardKeyOK = isLoadOf(lk.Index, igEdge+".To")
				}
			}
			if guardSet == "" {
				r.add(Obligation{Key: key + ":collect-guard", Pos: m.Pos(st.Pos()), Desc: "back-edge collection must be guarded by the stack set", Verdict: "violation",
					Detail: "edges are collected without a positive lookup in a set maintained by the visitor: forward/cross edges get reversed too (reversed set no longer irredundant)", Control: ctl})
				continue
			}
			if !guardKeyOK {
				r.add(Obligation{Key: key + ":collect-guard", Pos: m.Pos(st.Pos()), Desc: "stack-set lookup must be keyed by the edge's To", Verdict: "violation", Detail: "lookup key is not e.To", Control: ctl})
				continue
			}
			// the guarding set must be cleared on exit: a false update for the same param, dominating every return reachable after the true update
			var setTrue, setFalse *ssa.MapUpdate
			for _, u := range sets[guardSet] {
				if u.val {
					setTrue = u.mu
				} else {
					setFalse = u.mu
				}
			}
			if setTrue == nil {
				r.add(Obligation{Key: key + ":collect-guard", Pos: m.Pos(st.Pos()), Desc: "stack set must be marked on entry", Verdict: "violation", Detail: "no `set[node] = true`", Control: ctl})
				continue
			}
			r.add(Obligation{Key: key + ":collect-guard", Pos: m.Pos(st.Pos()), Desc: "edges are collected only under a positive stack-set lookup keyed by e.To", Verdict: "holds", Control: ctl})
			okClear := setFalse != nil && setFalse.Key == setTrue.Key
			why := "the set tested for back edges is never cleared: it is the visited set, so cross and forward edges to finished nodes are reversed as well"
			if okClear {
				eachInstr(f, func(in ssa.Instruction) {
					if ret, ok := in.(*ssa.Return); ok && instrReaches(setTrue, ret) {
						if !instrDominates(setFalse, ret) {
							okClear = false
							why = "a return at " + m.Pos(ret.Pos()) + " leaves the node on the stack set"
						}
					}
				})
				for _, s := range self {
					if !instrDominates(setTrue, s) || !instrReaches(s, setFalse) {
						okClear = false
						why = "the node is not on the stack set during the recursive visit"
					}
				}
			}
			if okClear {
				r.add(Obligation{Key: key + ":stack-discipline", Pos: pos, Desc: "stack set is marked before recursing and cleared for the same node before every later return", Verdict: "holds", Control: ctl})
			} else {
				r.add(Obligation{Key: key + ":stack-discipline", Pos: pos, Desc: "stack set must be marked on entry and cleared on exit", Verdict: "violation", Detail: why, Control: ctl})
			}
			// driver: functions that reverse must take the edges from the collected field
			ai := classifyAddr(st.Addr)
			// ... and that field holds nothing but what the visitor collected: outside the visitor it is only reset (nil, an empty
			// or fresh slice) or narrowed from its own content
			if len(ai.Locs) > 0 {
				for _, g := range m.Src {
					if pkgPathOf(g) != pkgPathOf(f) || g == f || m.FuncIsPosctl(g) != ctl {
						continue
					}
					eachInstr(g, func(in ssa.Instruction) {
						st2, ok := in.(*ssa.Store)
						if !ok {
							return
						}
						fa2, ok := st2.Addr.(*ssa.FieldAddr)
						if !ok {
							return
						}
						if _, steps := fieldChain(fa2); locOfSteps(steps) != ai.Locs[0] {
							return
						}
						if collectedListValueOK(st2.Val, ai.Locs[0], 0) {
							return
						}
						r.add(Obligation{Key: "dfs-driver:" + funcKey(g) + ":collected-list-replaced", Pos: m.Pos(st2.Pos()), Desc: "the list of back edges holds only what the visitor collected", Verdict: "violation",
							Detail: "the collected list is overwritten with " + st2.Val.String() + ": edges that close no cycle on the search stack get reversed (the reversed set is no longer irredundant)", Control: ctl})
					})
				}
			}
			for _, g := range m.Src {
				if pkgPathOf(g) != pkgPathOf(f) || rev == nil {
					continue
				}
				calls := staticCalls(g, func(c *ssa.Function) bool { return c == f })
				if len(calls) == 0 || g == f {
					continue
				}
				for _, rc := range staticCalls(g, func(c *ssa.Function) bool { return c == rev }) {
					okSrc := false
					if u, ok := rc.Common().Args[0].(*ssa.UnOp); ok {
						if ia, ok := u.X.(*ssa.IndexAddr); ok {
							for _, o := range originsOf(ia.X, 0) {
								if len(ai.Locs) > 0 && o.Loc == ai.Locs[0] {
									okSrc = true
								}
							}
						}
					}
					dk := "dfs-driver:" + funcKey(g)
					if okSrc {
						r.add(Obligation{Key: dk, Pos: m.Pos(rc.Pos()), Desc: "the driver reverses exactly the collected back edges", Verdict: "holds", Control: m.FuncIsPosctl(g)})
					} else {
						r.add(Obligation{Key: dk, Pos: m.Pos(rc.Pos()), Desc: "the driver must reverse the collected list", Verdict: "violation", Detail: "Reverse is applied to something other than an element of the collected list", Control: m.FuncIsPosctl(g)})
					}
				}
			}
		}
	}
	if n == 0 {
		r.undecided("dfs-visitor", "-", "a collecting depth-first visitor must exist in package phase1", "none recognised")
	}
}

// pair1Iterative: the depth-first visitor written with an explicit stack. The set that classifies an edge as a back edge must
// mirror the stack: every push (the initial one included) comes with `set[x] = true` for the pushed node - directly or through
// a helper that marks its parameter - and every pop with `set[y] = false` for the node of the popped frame. Returns false when
// f is not such a visitor.
func pair1Iterative(m *Model, r *RuleResult, f *ssa.Function, rev *ssa.Function) bool {
	// collect store: append into a field slice
	var collect []*ssa.Store
	eachInstr(f, func(in ssa.Instruction) {
		if st, ok := in.(*ssa.Store); ok {
			if _, ok := st.Addr.(*ssa.FieldAddr); ok {
				if call, ok := st.Val.(*ssa.Call); ok {
					if b, ok := call.Call.Value.(*ssa.Builtin); ok && b.Name() == "append" {
						collect = append(collect, st)
					}
				}
			}
		}
	})
	if len(collect) == 0 {
		return false
	}
	// the explicit stack: a slice phi at a loop head with a pop edge x[:len(x)-1] and a push edge append(x, ...)
	var stack *ssa.Phi
	var pops []*ssa.Slice
	var pushes []*ssa.Call
	for _, l := range naturalLoops(f) {
		for _, in := range l.Head.Instrs {
			ph, ok := in.(*ssa.Phi)
			if !ok {
				break
			}
			if _, isSl := ph.Type().Underlying().(*types.Slice); !isSl {
				continue
			}
			var ps []*ssa.Slice
			var pu []*ssa.Call
			for _, e := range ph.Edges {
				switch x := e.(type) {
				case *ssa.Slice:
					if x.X == ssa.Value(ph) && x.Low == nil && x.High != nil {
						if bo, ok := x.High.(*ssa.BinOp); ok && bo.Op == token.SUB {
							if c, isC := constInt(bo.Y); isC && c == 1 {
								ps = append(ps, x)
							}
						}
					}
				case *ssa.Call:
					if b, ok := x.Call.Value.(*ssa.Builtin); ok && b.Name() == "append" && len(x.Call.Args) == 2 && x.Call.Args[0] == ssa.Value(ph) {
						pu = append(pu, x)
					}
				}
			}
			if len(ps) > 0 && len(pu) > 0 {
				stack, pops, pushes = ph, ps, pu
			}
		}
	}
	if stack == nil {
		return false
	}
	ctl := m.FuncIsPosctl(f)
	key := "dfs-visitor:" + funcKey(f)
	pos := m.Pos(f.Pos())
	// the guarding set
	guardSet := ""
	for _, st := range collect {
		gs, keyOK := "", false
		for _, d := range transitiveControlDeps(st.Block()) {
			lk, ok := d.If.Cond.(*ssa.Lookup)
			if !ok || d.Branch != 0 {
				continue
			}
			if o := mapOrigin(lk.X); o != "" {
				gs = o
				keyOK = isLoadOf(lk.Index, igEdge+".To")
			}
		}
		switch {
		case gs == "":
			r.add(Obligation{Key: key + ":collect-guard", Pos: m.Pos(st.Pos()), Desc: "back-edge collection must be guarded by the stack set", Verdict: "violation",
				Detail: "edges are collected without a positive lookup in a set maintained by the visitor: forward/cross edges get reversed too (reversed set no longer irredundant)", Control: ctl})
			return true
		case !keyOK:
			r.add(Obligation{Key: key + ":collect-guard", Pos: m.Pos(st.Pos()), Desc: "stack-set lookup must be keyed by the edge's To", Verdict: "violation", Detail: "lookup key is not e.To", Control: ctl})
			return true
		}
		guardSet = gs
		r.add(Obligation{Key: key + ":collect-guard", Pos: m.Pos(st.Pos()), Desc: "edges are collected only under a positive stack-set lookup keyed by e.To", Verdict: "holds", Control: ctl})
	}
	// marks of the set: blocks of f that set guardSet[x] = true, with x; helpers that mark their parameter
	markedIn := func(b *ssa.BasicBlock) []ssa.Value {
		var out []ssa.Value
		for _, in := range b.Instrs {
			switch x := in.(type) {
			case *ssa.MapUpdate:
				if mapOrigin(x.Map) == guardSet && isConstBool(x.Value, true) {
					out = append(out, x.Key)
				}
			case *ssa.Call:
				h := x.Call.StaticCallee()
				if h == nil || pkgPathOf(h) != pkgPathOf(f) {
					continue
				}
				eachInstr(h, func(in2 ssa.Instruction) {
					if mu, ok := in2.(*ssa.MapUpdate); ok && mapOrigin(mu.Map) == guardSet && isConstBool(mu.Value, true) {
						if pi := paramIndex(h, mu.Key); pi >= 0 && pi < len(x.Call.Args) {
							out = append(out, x.Call.Args[pi])
						}
					}
				})
			}
		}
		return out
	}
	// node pushed by a slice of a fresh array (variadic packing or slice literal): the *Node stored into it, directly or as a field of a frame
	pushedNodes := func(sl ssa.Value) []ssa.Value {
		var out []ssa.Value
		s2, ok := sl.(*ssa.Slice)
		if !ok {
			return nil
		}
		arr, ok := s2.X.(*ssa.Alloc)
		if !ok || arr.Referrers() == nil {
			return nil
		}
		var fromVal func(v ssa.Value, depth int)
		fromVal = func(v ssa.Value, depth int) {
			if depth > 3 {
				return
			}
			if namedKey(v.Type()) == igNode {
				if _, isPtr := v.Type().Underlying().(*types.Pointer); isPtr {
					out = append(out, v)
					return
				}
			}
			// a frame value loaded from a local composite literal
			if u, ok := v.(*ssa.UnOp); ok && u.Op == token.MUL {
				if al, ok := u.X.(*ssa.Alloc); ok && al.Referrers() != nil {
					for _, ref := range *al.Referrers() {
						if fa, ok := ref.(*ssa.FieldAddr); ok && fa.Referrers() != nil {
							for _, r2 := range *fa.Referrers() {
								if st, ok := r2.(*ssa.Store); ok && st.Addr == ssa.Value(fa) {
									fromVal(st.Val, depth+1)
								}
							}
						}
					}
				}
			}
			// a pointer to a fresh frame
			if al, ok := v.(*ssa.Alloc); ok && al.Referrers() != nil {
				for _, ref := range *al.Referrers() {
					if fa, ok := ref.(*ssa.FieldAddr); ok && fa.Referrers() != nil {
						for _, r2 := range *fa.Referrers() {
							if st, ok := r2.(*ssa.Store); ok && st.Addr == ssa.Value(fa) {
								fromVal(st.Val, depth+1)
							}
						}
					}
				}
			}
		}
		for _, ref := range *arr.Referrers() {
			if ia, ok := ref.(*ssa.IndexAddr); ok && ia.Referrers() != nil {
				for _, r2 := range *ia.Referrers() {
					if st, ok := r2.(*ssa.Store); ok && st.Addr == ssa.Value(ia) {
						fromVal(st.Val, 0)
					}
					// the frame literal built in place: &arr[0].node = x
					if fa, ok := r2.(*ssa.FieldAddr); ok && fa.Referrers() != nil {
						for _, r3 := range *fa.Referrers() {
							if st, ok := r3.(*ssa.Store); ok && st.Addr == ssa.Value(fa) {
								fromVal(st.Val, 1)
							}
						}
					}
				}
			}
		}
		return out
	}
	var bad []string
	checkPush := func(b *ssa.BasicBlock, sl ssa.Value, what string) {
		nodes := pushedNodes(sl)
		marks := markedIn(b)
		if len(nodes) == 0 {
			bad = append(bad, what+": the pushed node could not be identified")
			return
		}
		for _, nd := range nodes {
			ok := false
			for _, mk := range marks {
				if mk == nd || sameSSAExpr(mk, nd, 0) {
					ok = true
				}
			}
			if !ok {
				bad = append(bad, what+" is not accompanied by marking the pushed node in the stack set: edges into it are not recognised as back edges")
			}
		}
	}
	for _, pu := range pushes {
		checkPush(pu.Block(), pu.Call.Args[1], "the push at "+m.Pos(pu.Pos()))
	}
	for i, e := range stack.Edges {
		if sl, ok := e.(*ssa.Slice); ok {
			if _, isArr := sl.X.(*ssa.Alloc); isArr {
				checkPush(stack.Block().Preds[i], sl, "the initial push")
			}
		}
	}
	for _, pp := range pops {
		ok := false
		for _, in := range pp.Block().Instrs {
			mu, isMu := in.(*ssa.MapUpdate)
			if !isMu || mapOrigin(mu.Map) != guardSet || !isConstBool(mu.Value, false) {
				continue
			}
			// key: a node read from the top frame stack[len-1]
			v := mu.Key
			for depth := 0; depth < 4; depth++ {
				u, isU := v.(*ssa.UnOp)
				if !isU || u.Op != token.MUL {
					break
				}
				switch a := u.X.(type) {
				case *ssa.FieldAddr:
					v = a.X
					continue
				case *ssa.IndexAddr:
					if a.X == ssa.Value(stack) {
						ok = true
					}
				}
				break
			}
			if ia, isIA := v.(*ssa.IndexAddr); isIA && ia.X == ssa.Value(stack) {
				ok = true
			}
		}
		if !ok {
			bad = append(bad, "the pop at "+m.Pos(pp.Pos())+" does not clear the stack set for the node of the popped frame: the set degenerates into the visited set, so cross and forward edges to finished nodes are reversed as well")
		}
	}
	if len(bad) == 0 {
		r.add(Obligation{Key: key + ":stack-discipline", Pos: pos, Desc: "explicit stack: every push marks the pushed node in the stack set and every pop clears it for the popped node", Verdict: "holds", Control: ctl})
	} else {
		r.add(Obligation{Key: key + ":stack-discipline", Pos: pos, Desc: "the stack set must mirror the explicit stack", Verdict: "violation", Detail: strings.Join(uniq(bad), "; "), Control: ctl})
	}
	// driver: functions that reverse must take the edges from the collected field, which nothing else fills
	for _, st := range collect {
		ai := classifyAddr(st.Addr)
		if len(ai.Locs) == 0 || rev == nil {
			continue
		}
		for _, g := range m.Src {
			if pkgPathOf(g) != pkgPathOf(f) || g == f || m.FuncIsPosctl(g) != ctl {
				continue
			}
			eachInstr(g, func(in ssa.Instruction) {
				st2, ok := in.(*ssa.Store)
				if !ok {
					return
				}
				fa2, ok := st2.Addr.(*ssa.FieldAddr)
				if !ok {
					return
				}
				if _, steps := fieldChain(fa2); locOfSteps(steps) != ai.Locs[0] {
					return
				}
				if !collectedListValueOK(st2.Val, ai.Locs[0], 0) {
					r.add(Obligation{Key: "dfs-driver:" + funcKey(g) + ":collected-list-replaced", Pos: m.Pos(st2.Pos()), Desc: "the list of back edges holds only what the visitor collected", Verdict: "violation",
						Detail: "the collected list is overwritten with " + st2.Val.String(), Control: ctl})
				}
			})
			if len(staticCalls(g, func(c *ssa.Function) bool { return c == f })) == 0 {
				continue
			}
			for _, rc := range staticCalls(g, func(c *ssa.Function) bool { return c == rev }) {
				okSrc := false
				if u, ok := rc.Common().Args[0].(*ssa.UnOp); ok {
					if ia, ok := u.X.(*ssa.IndexAddr); ok {
						for _, o := range originsOf(ia.X, 0) {
							if o.Loc == ai.Locs[0] {
								okSrc = true
							}
						}
					}
				}
				dk := "dfs-driver:" + funcKey(g)
				if okSrc {
					r.add(Obligation{Key: dk, Pos: m.Pos(rc.Pos()), Desc: "the driver reverses exactly the collected back edges", Verdict: "holds", Control: m.FuncIsPosctl(g)})
				} else {
					r.add(Obligation{Key: dk, Pos: m.Pos(rc.Pos()), Desc: "the driver must reverse the collected list", Verdict: "violation", Detail: "Reverse is applied to something other than an element of the collected list", Control: m.FuncIsPosctl(g)})
				}
			}
		}
	}
	return true
}

// collectedListValueOK: nil, a fresh empty slice, or a value narrowed from the current content of the same field
func collectedListValueOK(v ssa.Value, loc string, depth int) bool {
	if depth > 6 {
		return false
	}
	switch x := v.(type) {
	case *ssa.Const:
		return x.IsNil()
	case *ssa.MakeSlice:
		return true
	case *ssa.Slice:
		if al, ok := x.X.(*ssa.Alloc); ok {
			// []T{} is a slice of a fresh zero-length array; a longer array holds elements from elsewhere (variadic packing included)
			if at, ok := derefType(al.Type()).Underlying().(*types.Array); ok && at.Len() == 0 {
				return true
			}
			return false
		}
		return collectedListValueOK(x.X, loc, depth+1)
	case *ssa.Phi:
		for _, e := range x.Edges {
			if !collectedListValueOK(e, loc, depth+1) {
				return false
			}
		}
		return true
	case *ssa.UnOp:
		if x.Op == token.MUL {
			if fa, ok := x.X.(*ssa.FieldAddr); ok {
				_, steps := fieldChain(fa)
				return locOfSteps(steps) == loc
			}
		}
	case *ssa.Call:
		if b, ok := x.Call.Value.(*ssa.Builtin); ok && b.Name() == "append" && len(x.Call.Args) == 2 {
			// append(list[:0], list...) and the like: both from the same field
			return collectedListValueOK(x.Call.Args[0], loc, depth+1) && collectedListValueOK(x.Call.Args[1], loc, depth+1)
		}
		if len(x.Call.Args) >= 1 {
			switch calleeFullName(&x.Call) {
			case "slices.Clip", "slices.Clone", "slices.DeleteFunc", "slices.Compact", "slices.CompactFunc", "slices.Grow":
				return collectedListValueOK(x.Call.Args[0], loc, depth+1)
			}
		}
	}
	return false
}

// ---------- PAIR-2 ----------

func runPair2(m *Model, r *RuleResult) {
	setsFlag := map[*ssa.Function]bool{} // functions that store ArrowHeadStart of their edge parameter on every path to return
	for _, f := range m.Src {
		eachInstr(f, func(in ssa.Instruction) {
			st, ok := in.(*ssa.Store)
			if !ok {
				return
			}
			fa, ok := st.Addr.(*ssa.FieldAddr)
			if !ok {
				return
			}
			base, steps := fieldChain(fa)
			if locOfSteps(steps) != igEdge+".ArrowHeadStart" {
				return
			}
			if isFreshObject(base, 0) {
				return
			}
			ctl := m.FuncIsPosctl(f)
			key := "flag-store:" + funcKey(f)
			okVal := false
			detail := "stored value is " + st.Val.String()
			if u, ok := st.Val.(*ssa.UnOp); ok && u.Op == token.MUL {
				if fa2, ok := u.X.(*ssa.FieldAddr); ok {
					b2, s2 := fieldChain(fa2)
					if locOfSteps(s2) == igEdge+".IsReversed" {
						if b2 == base {
							okVal = true
						} else {
							detail = "IsReversed is read from a different edge"
						}
					}
				}
			}
			if u, ok := st.Val.(*ssa.UnOp); ok && u.Op == token.NOT {
				detail = "the flag is the negation of IsReversed"
			}
			if okVal {
				r.add(Obligation{Key: key, Pos: m.Pos(st.Pos()), Desc: "ArrowHeadStart := IsReversed of the same edge", Verdict: "holds", Control: ctl})
				if paramIndex(f, base) >= 0 {
					allPaths := true
					eachInstr(f, func(in2 ssa.Instruction) {
						if ret, ok := in2.(*ssa.Return); ok && !instrDominates(st, ret) {
							allPaths = false
						}
					})
					if allPaths {
						setsFlag[f] = true
					}
				}
			} else {
				r.add(Obligation{Key: key, Pos: m.Pos(st.Pos()), Desc: "ArrowHeadStart must equal IsReversed of the same edge", Verdict: "violation",
					Detail: detail + ": after un-reversal the arrowhead would be drawn at the wrong end", Control: ctl})
			}
		})
	}
	// transitively: a function that hands its edge parameter to a flag-setting function on every path sets the flag too
	for changed := true; changed; {
		changed = false
		for _, f := range m.Src {
			if setsFlag[f] {
				continue
			}
			eachInstr(f, func(in ssa.Instruction) {
				ci, ok := in.(ssa.CallInstruction)
				if !ok || setsFlag[f] {
					return
				}
				c := ci.Common().StaticCallee()
				if c == nil || !setsFlag[c] {
					return
				}
				for _, a := range ci.Common().Args {
					if paramIndex(f, a) < 0 || namedKey(a.Type()) != igEdge {
						continue
					}
					all := true
					eachInstr(f, func(in2 ssa.Instruction) {
						if ret, ok := in2.(*ssa.Return); ok && !instrDominates(in, ret) {
							all = false
						}
					})
					if all {
						setsFlag[f] = true
						changed = true
					}
				}
			})
		}
	}
	// merge step: every appended route preceded by a flag store on the same edge
	for _, f := range m.Src {
		if shortPkg(pkgPathOf(f)) != "internal/phase5" {
			continue
		}
		res := f.Signature.Results()
		if res.Len() != 1 {
			continue
		}
		sl, ok := res.At(0).Type().Underlying().(*types.Slice)
		if !ok || namedKey(sl.Elem()) != "internal/phase5.routableEdge" {
			continue
		}
		// stores of the Edge field of routableEdge values being appended
		nApp := 0
		var bad []string
		eachInstr(f, func(in ssa.Instruction) {
			st, ok := in.(*ssa.Store)
			if !ok {
				return
			}
			fa, ok := st.Addr.(*ssa.FieldAddr)
			if !ok {
				return
			}
			_, steps := fieldChain(fa)
			if locOfSteps(steps) != "internal/phase5.routableEdge.Edge" {
				return
			}
			nApp++
			e := st.Val
			okFlag := false
			eachInstr(f, func(in2 ssa.Instruction) {
				if !instrDominates(in2, st) {
					return
				}
				switch x := in2.(type) {
				case *ssa.Store:
					if fa2, ok := x.Addr.(*ssa.FieldAddr); ok {
						b2, s2 := fieldChain(fa2)
						if locOfSteps(s2) == igEdge+".ArrowHeadStart" && b2 == e {
							okFlag = true
						}
					}
				case ssa.CallInstruction:
					if c := x.Common().StaticCallee(); c != nil && setsFlag[c] {
						for _, a := range x.Common().Args {
							if a == e {
								okFlag = true
							}
						}
					}
				}
			})
			if !okFlag {
				bad = append(bad, "route appended at "+m.Pos(st.Pos())+" without setting the edge's arrowhead flag")
			}
		})
		key := "merge-sets-flag:" + funcKey(f)
		ctl := m.FuncIsPosctl(f)
		if nApp == 0 {
			r.add(Obligation{Key: key, Pos: m.Pos(f.Pos()), Desc: "merge step builds routes", Verdict: "undecided", Detail: "no routableEdge construction recognised", Control: ctl})
		} else if len(bad) > 0 {
			r.add(Obligation{Key: key, Pos: m.Pos(f.Pos()), Desc: "every route must carry the arrowhead flag of its edge", Verdict: "violation", Detail: strings.Join(bad, "; "), Control: ctl})
		} else {
			r.add(Obligation{Key: key, Pos: m.Pos(f.Pos()), Desc: fmt.Sprintf("all %d route constructions are preceded by ArrowHeadStart := IsReversed on the same edge", nApp), Verdict: "holds", Control: ctl})
		}
	}
}

// ---------- PAIR-3 (SSA value flow over Layout and the helpers of its package) ----------

func runPair3(m *Model, r *RuleResult) {
	fam := m.layoutFamily()
	if len(fam) == 0 {
		r.undecided("anchor:Layout", "-", "autog.Layout", "not found")
		return
	}
	inFam := map[*ssa.Function]bool{}
	for _, f := range fam {
		inFam[f] = true
	}
	// resolve: a parameter of a helper stands for the argument at its (single) call site inside the family
	var resolve func(v ssa.Value, depth int) ssa.Value
	resolve = func(v ssa.Value, depth int) ssa.Value {
		par, ok := v.(*ssa.Parameter)
		if !ok || depth > 3 {
			return v
		}
		idx := paramIndex(par.Parent(), par)
		var up ssa.Value
		n := 0
		for _, f := range fam {
			for _, s := range staticCalls(f, func(c *ssa.Function) bool { return c == par.Parent() }) {
				if idx >= 0 && idx < len(s.Common().Args) {
					up = s.Common().Args[idx]
					n++
				}
			}
		}
		if n != 1 {
			return v
		}
		if ct, isCT := up.(*ssa.ChangeType); isCT {
			up = ct.X
		}
		return resolve(up, depth+1)
	}
	loadOf := func(v ssa.Value) (base ssa.Value, loc string, ok bool) {
		if ct, isCT := v.(*ssa.ChangeType); isCT {
			v = ct.X
		}
		u, isU := v.(*ssa.UnOp)
		if !isU || u.Op != token.MUL {
			return nil, "", false
		}
		fa, isFA := u.X.(*ssa.FieldAddr)
		if !isFA {
			return nil, "", false
		}
		b, steps := fieldChain(fa)
		return b, locOfSteps(steps), true
	}
	// output literals: field stores grouped by the struct being built
	type lit struct {
		base   ssa.Value
		fn     *ssa.Function
		kind   string
		stores map[string][]*ssa.Store
		first  *ssa.Store
	}
	lits := map[ssa.Value]*lit{}
	var order []*lit
	for _, f := range fam {
		eachInstr(f, func(in ssa.Instruction) {
			st, ok := in.(*ssa.Store)
			if !ok {
				return
			}
			fa, ok := st.Addr.(*ssa.FieldAddr)
			if !ok {
				return
			}
			base, steps := fieldChain(fa)
			loc := locOfSteps(steps)
			kind := ""
			switch {
			case strings.HasPrefix(loc, pubNode+"."):
				kind = pubNode
			case strings.HasPrefix(loc, pubEdge+"."):
				kind = pubEdge
			default:
				return
			}
			l := lits[base]
			if l == nil {
				l = &lit{base: base, fn: f, kind: kind, stores: map[string][]*ssa.Store{}, first: st}
				lits[base] = l
				order = append(order, l)
			}
			field := strings.TrimPrefix(loc, kind+".")
			l.stores[field] = append(l.stores[field], st)
		})
	}
	// element of the component's list, visited by a complete loop
	elementOf := func(v ssa.Value, fn *ssa.Function, wantLoc string) (ok bool, why string) {
		u, isU := v.(*ssa.UnOp)
		if !isU || u.Op != token.MUL {
			return false, "the source object is not an element of a list"
		}
		ia, isIA := u.X.(*ssa.IndexAddr)
		if !isIA {
			return false, "the source object is not an element of a list"
		}
		cont := resolve(ia.X, 0)
		if _, loc, isLd := loadOf(cont); !isLd || loc != wantLoc {
			return false, "the list that is scanned is not the component's " + strings.TrimPrefix(wantLoc, igDG+".")
		}
		loops := naturalLoops(fn)
		ls := loopsContaining(loops, u.Block())
		if len(ls) == 0 {
			return false, "the element is not visited by a loop"
		}
		if _, okScan, whyScan := fullScanLoop(ls[0], ia.X); !okScan {
			return false, "the loop does not visit every element: " + whyScan
		}
		for bb := range ls[0].Body {
			for _, s := range bb.Succs {
				if !ls[0].Body[s] && bb != ls[0].Head {
					return false, "the loop can be left early at " + m.Pos(bb.Instrs[len(bb.Instrs)-1].Pos())
				}
			}
		}
		return true, ""
	}
	nNode, nEdge := 0, 0
	for _, l := range order {
		pos := m.Pos(l.first.Pos())
		loops := naturalLoops(l.fn)
		switch l.kind {
		case pubNode:
			if len(l.stores["ID"]) == 0 {
				continue // not a construction (e.g. an update of an existing output node)
			}
			nNode++
			var nb ssa.Value
			okID, okSize := false, false
			if len(l.stores["ID"]) == 1 {
				if b, loc, ok := loadOf(l.stores["ID"][0].Val); ok && loc == igNode+".ID" {
					nb, okID = b, true
				}
			}
			if len(l.stores["Size"]) == 1 && nb != nil {
				if b, loc, ok := loadOf(l.stores["Size"][0].Val); ok && loc == igNode+".Size" && b == nb {
					okSize = true
				}
			}
			var extra []string
			for f := range l.stores {
				if f != "ID" && f != "Size" && f != "X" && f != "Size.X" {
					extra = append(extra, f)
				}
			}
			sort.Strings(extra)
			if okID && okSize && len(extra) == 0 {
				r.holds("out-node:ID", pos, "output node ID is the visited node's ID")
				r.holds("out-node:Size", pos, "output node Size (X, Y, W, H) is the visited node's Size")
			} else {
				r.violation("out-node:fields", pos, "output node must be {ID: n.ID, Size: n.Size} of one node", fmt.Sprintf("ID from a node's ID: %v, Size from the same node's Size: %v, other fields set: %v", okID, okSize, extra))
			}
			if nb == nil {
				r.undecided("out-node:loop", pos, "output nodes are built from the component's Nodes", "source node not identified")
				continue
			}
			if ok, why := elementOf(nb, l.fn, igDG+".Nodes"); ok {
				r.holds("out-node:loop", pos, "output nodes are collected by a complete loop over the component's Nodes")
			} else {
				r.violation("out-node:loop", pos, "output nodes are collected by a complete loop over the component's Nodes", why)
			}
			// filter: built exactly unless (virtual and virtual output not requested)
			var deps []string
			okFilter := true
			hasV, hasI := false, false
			isHead := map[*ssa.BasicBlock]bool{}
			for _, lp := range loops {
				isHead[lp.Head] = true
			}
			classify := func(c ssa.Value) string {
				if b, loc, ok := loadOf(c); ok && loc == igNode+".IsVirtual" && b == nb {
					return "V"
				}
				if _, loc, ok := loadOf(resolve(c, 0)); ok && strings.HasSuffix(loc, ".includeVirtual") {
					return "I"
				}
				return ""
			}
			var tests []*ssa.BasicBlock
			for _, d := range controlDeps(l.first.Block()) {
				if isHead[d.If.Block()] {
					continue
				}
				switch classify(d.If.Cond) {
				case "V":
					deps = append(deps, fmt.Sprintf("n.IsVirtual is %v", d.Branch == 0))
					if d.Branch == 1 {
						hasV = true
					} else {
						okFilter = false
					}
					tests = append(tests, d.If.Block())
				case "I":
					deps = append(deps, fmt.Sprintf("includeVirtual is %v", d.Branch == 0))
					if d.Branch == 0 {
						hasI = true
					} else {
						okFilter = false
					}
					tests = append(tests, d.If.Block())
				default:
					okFilter = false
					deps = append(deps, d.If.Cond.String()+" at "+m.Pos(d.If.Cond.Pos()))
				}
			}
			// the two tests themselves depend on nothing but each other
			for _, tb := range tests {
				for _, d := range controlDeps(tb) {
					if isHead[d.If.Block()] || classify(d.If.Cond) != "" {
						continue
					}
					okFilter = false
					deps = append(deps, "(the filter itself is evaluated only under "+d.If.Cond.String()+" at "+m.Pos(d.If.Cond.Pos())+")")
				}
			}
			if okFilter && hasV && hasI {
				r.holds("out-node:filter", pos, "a node is skipped exactly when it is virtual and virtual output was not requested")
			} else {
				r.violation("out-node:filter", pos, "a node may be skipped only under n.IsVirtual && !includeVirtual", fmt.Sprintf("the construction of the output node depends on: %v - real nodes dropped or helper nodes leaked", deps))
			}
		case pubEdge:
			if len(l.stores["FromID"]) == 0 && len(l.stores["ToID"]) == 0 {
				continue
			}
			nEdge++
			var eb ssa.Value
			same := true
			note := func(b ssa.Value) {
				if eb == nil {
					eb = b
				} else if eb != b {
					same = false
				}
			}
			okF := map[string]bool{}
			for field, end := range map[string]string{"FromID": "From", "ToID": "To"} {
				if len(l.stores[field]) != 1 {
					continue
				}
				if nbase, loc, ok := loadOf(l.stores[field][0].Val); ok && loc == igNode+".ID" {
					if ebase, loc2, ok2 := loadOf(nbase); ok2 && loc2 == igEdge+"."+end {
						note(ebase)
						okF[field] = true
					}
				}
			}
			if len(l.stores["ArrowHeadStart"]) == 1 {
				if ebase, loc, ok := loadOf(l.stores["ArrowHeadStart"][0].Val); ok && loc == igEdge+".ArrowHeadStart" {
					note(ebase)
					okF["ArrowHeadStart"] = true
				}
			}
			if len(l.stores["Points"]) == 1 {
				// a copy made by slices.Clone or by a helper of this package that receives e.Points
				if call, ok := l.stores["Points"][0].Val.(*ssa.Call); ok {
					cal := call.Call.StaticCallee()
					isClone := false
					if cal != nil {
						o := cal
						if cal.Origin() != nil {
							o = cal.Origin()
						}
						isClone = o.Pkg != nil && o.Pkg.Pkg.Path() == "slices" && o.Name() == "Clone"
					}
					// a same-package helper must hand the points on as a copy of the same length (checked by FLOW-1 for the
					// shift); library functions other than Clone (Compact, Delete, Reverse ...) change the list
					if isClone || (cal != nil && inFam[cal]) || (cal != nil && pkgPathOf(cal) == pkgPathOf(fam[0])) {
						for _, a := range call.Call.Args {
							if ebase, loc, ok := loadOf(a); ok && loc == igEdge+".Points" {
								note(ebase)
								okF["Points"] = true
							}
						}
					}
				}
			}
			want := map[string]string{"FromID": "From.ID", "ToID": "To.ID", "Points": "a copy of Points", "ArrowHeadStart": "ArrowHeadStart"}
			for _, k := range []string{"FromID", "ToID", "Points", "ArrowHeadStart"} {
				if okF[k] && same {
					r.holds("out-edge:"+k, pos, "output edge "+k+" <- e."+want[k]+" of the visited edge")
				} else {
					r.violation("out-edge:"+k, pos, "output edge "+k+" must be taken from e."+want[k], fmt.Sprintf("recognised: %v (single source edge: %v)", okF[k], same))
				}
			}
			var extra []string
			for f := range l.stores {
				if _, ok := want[f]; !ok {
					extra = append(extra, f)
				}
			}
			sort.Strings(extra)
			if len(extra) > 0 {
				r.violation("out-edge:extra", pos, "output edge literal has exactly the four mapped fields", fmt.Sprintf("also sets %v", extra))
			}
			if eb == nil {
				r.undecided("out-edge:loop", pos, "output edges are built from the component's Edges", "source edge not identified")
				continue
			}
			if ok, why := elementOf(eb, l.fn, igDG+".Edges"); ok {
				r.holds("out-edge:loop", pos, "output edges are collected by a complete loop over the component's Edges")
			} else {
				r.violation("out-edge:loop", pos, "output edges are collected by a complete loop over the component's Edges", why)
			}
			var deps []string
			for _, d := range iterationControlDeps(l.first.Block(), loops) {
				deps = append(deps, d.If.Cond.String()+" at "+m.Pos(d.If.Cond.Pos()))
			}
			if len(deps) == 0 {
				r.holds("out-edge:unconditional", pos, "every edge of the component is turned into an output edge, unconditionally")
			} else {
				r.violation("out-edge:unconditional", pos, "every edge of the component must be appended to the output", fmt.Sprintf("the construction of the output edge depends on %v", deps))
			}
		}
	}
	if nNode != 1 || nEdge != 1 {
		r.undecided("out-literals", "-", "Layout and its helpers build output nodes and output edges in one place each", fmt.Sprintf("found %d node and %d edge constructions", nNode, nEdge))
	}
}

// ---------- PAIR-4 ----------

func runPair4(m *Model, r *RuleResult) {
	rf := m.anchorChainMerge()
	mg := m.anchorMerge()
	if rf == nil || mg == nil {
		r.undecided("anchors", "-", "phase5.reduceForward / mergeLongEdges", "not found")
		return
	}
	isVirtOf := func(v ssa.Value, endpoint string) bool {
		// load Node.IsVirtual of (load Edge.<endpoint>)
		u, ok := v.(*ssa.UnOp)
		if !ok || u.Op != token.MUL {
			return false
		}
		fa, ok := u.X.(*ssa.FieldAddr)
		if !ok {
			return false
		}
		base, steps := fieldChain(fa)
		if locOfSteps(steps) != igNode+".IsVirtual" {
			return false
		}
		return isLoadOf(base, igEdge+"."+endpoint)
	}
	// reduceForward: loop whose header condition is e.To.IsVirtual; exits only through the header's false edge or panics
	okLoop := false
	why := "no loop with condition e.To.IsVirtual"
	for _, l := range naturalLoops(rf) {
		iff, ok := l.Head.Instrs[len(l.Head.Instrs)-1].(*ssa.If)
		if !ok || !isVirtOf(iff.Cond, "To") {
			continue
		}
		okLoop = true
		for b := range l.Body {
			for i, s := range b.Succs {
				if l.Body[s] {
					continue
				}
				if b == l.Head && i == 1 {
					continue
				}
				// exit elsewhere: allowed only into a panic block
				if _, isPanic := s.Instrs[len(s.Instrs)-1].(*ssa.Panic); !isPanic {
					okLoop = false
					why = "the chain loop can be left at " + m.Pos(b.Instrs[len(b.Instrs)-1].Pos()) + " while e.To is still a helper node"
				}
			}
		}
	}
	if okLoop {
		r.holds("chain-loop-exit", m.Pos(rf.Pos()), "the chain-merging loop exits only when e.To is a real node")
	} else {
		r.violation("chain-loop-exit", m.Pos(rf.Pos()), "the chain-merging loop must run until e.To is a real node", why+": a route would end at a helper node")
	}
	// mergeLongEdges: call of reduceForward control-dependent on !e.From.IsVirtual
	var reachesRF func(c *ssa.Function, depth int) bool
	reachesRF = func(c *ssa.Function, depth int) bool {
		if c == rf {
			return true
		}
		if depth > 3 || pkgPathOf(c) != pkgPathOf(mg) {
			return false
		}
		return len(staticCalls(c, func(c2 *ssa.Function) bool { return c2 != c && reachesRF(c2, depth+1) })) > 0
	}
	sites := staticCalls(mg, func(c *ssa.Function) bool { return reachesRF(c, 0) })
	if len(sites) == 0 {
		r.undecided("hybrid-start", m.Pos(mg.Pos()), "mergeLongEdges calls reduceForward", "no call found")
		return
	}
	for _, s := range sites {
		ok := false
		for _, d := range transitiveControlDeps(s.Block()) {
			if isVirtOf(d.If.Cond, "From") && d.Branch == 1 {
				ok = true
			}
			if u, isU := d.If.Cond.(*ssa.UnOp); isU && u.Op == token.NOT && isVirtOf(u.X, "From") && d.Branch == 0 {
				ok = true
			}
		}
		if ok {
			r.holds("hybrid-start", m.Pos(s.Pos()), "a chain is merged only starting from the edge whose From is a real node")
		} else {
			r.violation("hybrid-start", m.Pos(s.Pos()), "a chain must be merged starting from its real-node end", "reduceForward is called without the e.From.IsVirtual test: routes start at helper nodes and chains are merged twice")
		}
	}
}

// ---------- FLOW-1 / AFF-6 ----------

func runFlow1(m *Model, r *RuleResult) {
	layout := m.SSAFunc("autog", "Layout")
	if layout == nil {
		r.undecided("anchor:Layout", "-", "autog.Layout", "not found")
		return
	}
	var pkgFns []*ssa.Function
	for _, f := range m.Src {
		if pkgPathOf(f) == pkgPathOf(layout) && !m.FuncIsPosctl(f) {
			pkgFns = append(pkgFns, f)
		}
	}
	// shift := the value added to the output node's X (possibly inside a helper of the package)
	var shift ssa.Value
	var xStore *ssa.Store
	for _, f := range pkgFns {
		eachInstr(f, func(in ssa.Instruction) {
			st, ok := in.(*ssa.Store)
			if !ok {
				return
			}
			ai := classifyAddr(st.Addr)
			if len(ai.Locs) == 0 || ai.Locs[0] != pubNode+".X" {
				return
			}
			bo, ok := st.Val.(*ssa.BinOp)
			if !ok || bo.Op != token.ADD {
				return
			}
			if isLoadOf(bo.X, pubNode+".X") {
				shift, xStore = bo.Y, st
			} else if isLoadOf(bo.Y, pubNode+".X") {
				shift, xStore = bo.X, st
			}
		})
	}
	if shift == nil {
		r.violation("shift:applied-to-node-x", m.Pos(layout.Pos()), "the component shift is added to the output node's X", "no `m.X += shift` found: components would be drawn on top of each other")
		return
	}
	// resolve a helper's parameter to the caller's value
	for depth := 0; depth < 3; depth++ {
		par, ok := shift.(*ssa.Parameter)
		if !ok {
			break
		}
		idx := paramIndex(par.Parent(), par)
		var up ssa.Value
		for _, f := range pkgFns {
			for _, s := range staticCalls(f, func(c *ssa.Function) bool { return c == par.Parent() }) {
				if idx < len(s.Common().Args) {
					up = s.Common().Args[idx]
				}
			}
		}
		if up == nil {
			break
		}
		shift = up
	}
	r.holds("shift:applied-to-node-x", m.Pos(xStore.Pos()), "output node X = n.X + shift")
	// forward slice (through helpers of the package)
	var bad []string
	pointsX, pointsOther := 0, 0
	seen := map[ssa.Value]bool{}
	// walkPoint: a local [2]float64 whose coordinate k received the shifted value; follow the whole-array value into slice
	// elements, and those slices (through returns of package helpers) into the Points field of an output edge
	var walkSlice func(sv ssa.Value, k int64, depth int)
	walkSlice = func(sv ssa.Value, k int64, depth int) {
		if sv == nil || sv.Referrers() == nil || depth > 4 || seen[sv] {
			return
		}
		seen[sv] = true
		for _, ref := range *sv.Referrers() {
			switch y := ref.(type) {
			case *ssa.DebugRef, *ssa.IndexAddr:
			case *ssa.Phi:
				walkSlice(y, k, depth+1)
			case *ssa.Return:
				for _, f := range pkgFns {
					for _, site := range staticCalls(f, func(c *ssa.Function) bool { return c == y.Parent() }) {
						walkSlice(site.Value(), k, depth+1)
					}
				}
			case *ssa.Store:
				if y.Val != sv {
					continue
				}
				ai := classifyAddr(y.Addr)
				okPts := false
				for _, l := range ai.Locs {
					if strings.HasPrefix(l, pubEdge+".Points") {
						okPts = true
					}
				}
				switch {
				case okPts && k == 0:
					pointsX++
				case okPts:
					pointsOther++
					bad = append(bad, fmt.Sprintf("shift added to coordinate [%d] of a route point at %s (only x = [0] moves with the component)", k, m.Pos(y.Pos())))
				default:
					bad = append(bad, "a slice of shifted points is stored into "+strings.Join(ai.Locs, ",")+" at "+m.Pos(y.Pos()))
				}
			case ssa.CallInstruction:
				if b, isB := y.Common().Value.(*ssa.Builtin); isB && (b.Name() == "len" || b.Name() == "cap") {
					continue
				}
				bad = append(bad, "a slice of shifted points is passed to "+calleeFullName(y.Common())+" at "+m.Pos(ref.Pos()))
			default:
				bad = append(bad, fmt.Sprintf("a slice of shifted points is used by %T at %s", ref, m.Pos(ref.Pos())))
			}
		}
	}
	walkPoint := func(al *ssa.Alloc, k int64, at ssa.Instruction) {
		n := 0
		for _, ref := range *al.Referrers() {
			ld, ok := ref.(*ssa.UnOp)
			if !ok || ld.Op != token.MUL || ld.Referrers() == nil {
				continue
			}
			for _, r2 := range *ld.Referrers() {
				st, ok := r2.(*ssa.Store)
				if !ok || st.Val != ssa.Value(ld) {
					continue
				}
				ia, ok := st.Addr.(*ssa.IndexAddr)
				if !ok {
					bad = append(bad, "a shifted point is stored into something that is not a slice element at "+m.Pos(st.Pos()))
					continue
				}
				n++
				walkSlice(ia.X, k, 0)
			}
		}
		if n == 0 {
			bad = append(bad, "a shifted point built at "+m.Pos(at.Pos())+" is not stored into a slice of points")
		}
	}
	var walk func(v ssa.Value, isShiftItself bool)
	walk = func(v ssa.Value, direct bool) {
		if seen[v] || v.Referrers() == nil {
			return
		}
		seen[v] = true
		for _, ref := range *v.Referrers() {
			switch x := ref.(type) {
			case *ssa.DebugRef:
			case *ssa.BinOp:
				if x.Op == token.ADD {
					walk(x, false)
				} else {
					bad = append(bad, "shift used in "+x.Op.String()+" at "+m.Pos(x.Pos()))
				}
			case *ssa.Phi:
				walk(x, false)
			case *ssa.Store:
				if x.Val != v {
					continue
				}
				// coordinate k of a point built in a local array literal: follow the array into the slice it is stored in
				if ia, ok := x.Addr.(*ssa.IndexAddr); ok {
					if al, ok := ia.X.(*ssa.Alloc); ok {
						if _, isArr := al.Type().Underlying().(*types.Pointer).Elem().Underlying().(*types.Array); isArr {
							k, isC := constInt(ia.Index)
							if !isC {
								bad = append(bad, "shift stored at a non-constant coordinate of a point at "+m.Pos(x.Pos()))
								continue
							}
							walkPoint(al, k, x)
							continue
						}
					}
				}
				// coordinate k of an element of a local slice of points (a clone that is stored into the output edge later)
				if ia, ok := x.Addr.(*ssa.IndexAddr); ok {
					if ia2, ok := ia.X.(*ssa.IndexAddr); ok {
						if _, isCall := ia2.X.(*ssa.Call); isCall {
							if k, isC := constInt(ia.Index); isC {
								walkSlice(ia2.X, k, 0)
								continue
							}
						}
					}
				}
				ai := classifyAddr(x.Addr)
				switch {
				case len(ai.Locs) > 0 && ai.Locs[0] == pubNode+".X":
				case ai.Elem:
					// must be element [0] of an element of the output edge's Points
					ia, _ := x.Addr.(*ssa.IndexAddr)
					c, isC := constInt(ia.Index)
					okPts := false
					for _, l := range ai.Locs {
						if strings.HasPrefix(l, pubEdge+".Points") {
							okPts = true
						}
					}
					if okPts && isC && c == 0 {
						pointsX++
					} else if okPts {
						pointsOther++
						bad = append(bad, fmt.Sprintf("shift added to coordinate [%d] of a route point at %s (only x = [0] moves with the component)", c, m.Pos(x.Pos())))
					} else {
						bad = append(bad, "shift stored into "+strings.Join(ai.Locs, ",")+" at "+m.Pos(x.Pos()))
					}
				default:
					bad = append(bad, "shift stored into "+strings.Join(ai.Locs, ",")+" at "+m.Pos(x.Pos()))
				}
			case ssa.CallInstruction:
				c := x.Common().StaticCallee()
				if c != nil && pkgPathOf(c) == pkgPathOf(layout) && c.Blocks != nil {
					for i, a := range x.Common().Args {
						if a == v && i < len(c.Params) {
							walk(c.Params[i], false)
						}
					}
				} else {
					bad = append(bad, "shift passed to "+calleeFullName(x.Common())+" at "+m.Pos(ref.Pos()))
				}
			default:
				bad = append(bad, fmt.Sprintf("shift used by %T at %s", ref, m.Pos(ref.Pos())))
			}
		}
	}
	walk(shift, true)
	if pointsX > 0 {
		r.holds("shift:applied-to-point-x", m.Pos(xStore.Pos()), "every cloned route point gets x = p[0] + shift")
	} else {
		r.violation("shift:applied-to-point-x", m.Pos(xStore.Pos()), "route points must be shifted in x with their component", "no `Points[i][0] += shift` found: routes of later components stay at the first component's position")
	}
	if len(bad) == 0 {
		r.holds("shift:flows-nowhere-else", m.Pos(xStore.Pos()), "shift reaches only output x coordinates and its own update")
	} else {
		r.violation("shift:flows-nowhere-else", m.Pos(xStore.Pos()), "shift must reach only output x coordinates", strings.Join(bad, "; "))
	}
	// AFF-6 recurrence: shift = phi(0, shift + (R + NodeSpacing)) ; R = phi(0, max(R, n.X + n.W)) with n = Nodes[len-1]
	phi, ok := shift.(*ssa.Phi)
	okRec := false
	why := "shift is not a loop-carried value"
	if ok {
		why = "update is not shift + (rightmost + NodeSpacing)"
		for _, e := range phi.Edges {
			bo, isBin := e.(*ssa.BinOp)
			if !isBin || bo.Op != token.ADD {
				continue
			}
			var inc ssa.Value
			if bo.X == phi {
				inc = bo.Y
			} else if bo.Y == phi {
				inc = bo.X
			} else {
				continue
			}
			ib, isBin := inc.(*ssa.BinOp)
			if !isBin || ib.Op != token.ADD {
				continue
			}
			var rmost ssa.Value
			if isLoadOf(ib.Y, "autog.options.params.NodeSpacing") || isLoadOf(ib.Y, igPar+".NodeSpacing") {
				rmost = ib.X
			} else if isLoadOf(ib.X, "autog.options.params.NodeSpacing") || isLoadOf(ib.X, igPar+".NodeSpacing") {
				rmost = ib.Y
			}
			if rmost == nil {
				why = "the increment does not add Params.NodeSpacing"
				continue
			}
			// rmost: phi chain containing max(R, n.X + n.W)
			if rightmostReduction(rmost, map[ssa.Value]bool{}) {
				okRec = true
			} else {
				why = "the rightmost extent is not an unconditional max-reduction of n.X + n.W over the last node of every non-empty layer (a layer is skipped under a further condition, or the extent is not last.X + last.W)"
			}
		}
		z := false
		for _, e := range phi.Edges {
			if c, isC := e.(*ssa.Const); isC && c.Value != nil && c.Value.String() == "0" {
				z = true
				continue
			}
			// every way round the component loop must carry the update: an unchanged value (the phi itself, or a phi that merges
			// it with the update) means some components do not advance the shift
			if e == ssa.Value(phi) {
				okRec = false
				why = "the shift is advanced only under a condition: some components leave it unchanged and the next one is drawn on top of them"
			}
			if ph2, isPhi := e.(*ssa.Phi); isPhi {
				for _, e2 := range ph2.Edges {
					if e2 == ssa.Value(phi) {
						okRec = false
						why = "the shift is advanced only under a condition: some components leave it unchanged and the next one is drawn on top of them"
					}
				}
			}
		}
		if !z {
			okRec = false
			why = "shift does not start at 0"
		}
	}
	if okRec {
		r.holds("shift:recurrence", m.Pos(xStore.Pos()), "shift' = shift + max over layers of (last.X + last.W) + NodeSpacing, shift0 = 0")
	} else {
		r.violation("shift:recurrence", m.Pos(xStore.Pos()), "next component starts NodeSpacing right of the rightmost node edge of the previous one", why)
	}
}

// onlyEmptyLayerGuard: inside its loop, block b is control-dependent on nothing but the loop conditions and `len(x) == 0` tests.
func onlyEmptyLayerGuard(b *ssa.BasicBlock) (bool, string) {
	loops := naturalLoops(b.Parent())
	for _, d := range transitiveControlDeps(b) {
		// loop header tests are fine
		isHeader := false
		for _, l := range loops {
			if l.Head == d.If.Block() {
				isHeader = true
			}
		}
		if isHeader {
			continue
		}
		// only dependences inside the innermost loop containing b matter
		ls := loopsContaining(loops, b)
		if len(ls) == 0 || !ls[0].Body[d.If.Block()] {
			continue
		}
		if bo, ok := d.If.Cond.(*ssa.BinOp); ok && (bo.Op == token.EQL || bo.Op == token.NEQ || bo.Op == token.GTR) {
			if call, ok := bo.X.(*ssa.Call); ok {
				if bi, ok := call.Call.Value.(*ssa.Builtin); ok && bi.Name() == "len" {
					if c, isC := constInt(bo.Y); isC && c == 0 {
						continue
					}
				}
			}
		}
		return false, d.If.Cond.String()
	}
	return true, ""
}

func rightmostReduction(v ssa.Value, seen map[ssa.Value]bool) bool {
	if seen[v] {
		return false
	}
	seen[v] = true
	switch x := v.(type) {
	case *ssa.Phi:
		for _, e := range x.Edges {
			if rightmostReduction(e, seen) {
				return true
			}
		}
	case *ssa.Call:
		// a helper of the module returning the reduction
		if c := x.Call.StaticCallee(); c != nil && c.Blocks != nil && inModule(c) {
			n, ok := 0, true
			eachInstr(c, func(in ssa.Instruction) {
				if ret, isRet := in.(*ssa.Return); isRet && len(ret.Results) == 1 {
					n++
					if !rightmostReduction(ret.Results[0], seen) {
						ok = false
					}
				}
			})
			return n > 0 && ok
		}
		if minMaxKind(&x.Call) == "max" {
			for _, a := range x.Call.Args {
				bo, ok := a.(*ssa.BinOp)
				if !ok || bo.Op != token.ADD {
					continue
				}
				var xs, ws ssa.Value
				if isLoadOf(bo.X, igNode+".X") && isLoadOf(bo.Y, igNode+".W") {
					xs, ws = bo.X, bo.Y
				} else if isLoadOf(bo.Y, igNode+".X") && isLoadOf(bo.X, igNode+".W") {
					xs, ws = bo.Y, bo.X
				} else {
					continue
				}
				bx, _ := fieldChain(xs.(*ssa.UnOp).X)
				bw, _ := fieldChain(ws.(*ssa.UnOp).X)
				if bx != bw && !sameSSAExpr(bx, bw, 0) {
					continue
				}
				// node = Nodes[len(Nodes)-1]
				if u, ok := bx.(*ssa.UnOp); ok {
					if ia, ok := u.X.(*ssa.IndexAddr); ok {
						if ib, ok := ia.Index.(*ssa.BinOp); ok && ib.Op == token.SUB {
							if c, isC := constInt(ib.Y); isC && c == 1 {
								if call, ok := ib.X.(*ssa.Call); ok {
									if b2, ok := call.Call.Value.(*ssa.Builtin); ok && b2.Name() == "len" && (call.Call.Args[0] == ia.X || sameSSAExpr(call.Call.Args[0], ia.X, 0)) {
										if ok, _ := onlyEmptyLayerGuard(x.Block()); ok {
											return true
										}
									}
								}
							}
						}
					}
				}
			}
		}
	}
	return false
}

// ---------- BEST-1 ----------

func runBest1(m *Model, r *RuleResult) {
	m.fxInit()
	// median run: function of phase3 returning (int, map[*Node]int)
	var run *ssa.Function
	for _, f := range m.Src {
		if shortPkg(pkgPathOf(f)) != "internal/phase3" || f.Parent() != nil {
			continue
		}
		res := f.Signature.Results()
		if res.Len() == 2 {
			if b, ok := res.At(0).Type().Underlying().(*types.Basic); ok && b.Kind() == types.Int {
				if _, ok := res.At(1).Type().Underlying().(*types.Map); ok {
					if m.FuncIsPosctl(f) {
						checkBestRun(m, r, f)
						continue
					}
					run = f
				}
			}
		}
	}
	if run == nil {
		if best1StructMode(m, r) {
			return
		}
		r.undecided("median-run", "-", "a phase-3 function returning (crossings, positions)", "not found")
		return
	}
	checkBestRun(m, r, run)
	// caller
	for _, f := range m.Src {
		sites := staticCalls(f, func(c *ssa.Function) bool { return c == run })
		if len(sites) < 2 {
			continue
		}
		ctl := m.FuncIsPosctl(f)
		pos := m.Pos(f.Pos())
		key := "select:" + funcKey(f)
		// find the pair of phis selecting among extracts of the calls
		var cphi, pphi *ssa.Phi
		eachInstr(f, func(in ssa.Instruction) {
			phi, ok := in.(*ssa.Phi)
			if !ok {
				return
			}
			all := true
			idx := -1
			for _, e := range phi.Edges {
				ex, ok := e.(*ssa.Extract)
				if !ok {
					all = false
					break
				}
				if idx == -1 {
					idx = ex.Index
				} else if idx != ex.Index {
					all = false
				}
			}
			if !all {
				return
			}
			if idx == 0 {
				cphi = phi
			} else if idx == 1 {
				pphi = phi
			}
		})
		if cphi == nil || pphi == nil || cphi.Block() != pphi.Block() || len(cphi.Edges) != len(pphi.Edges) {
			r.add(Obligation{Key: key, Pos: pos, Desc: "the better of the seeded runs is selected", Verdict: "violation", Detail: "count and positions are not selected by a pair of phis over the runs' results", Control: ctl})
			continue
		}
		okPair, okMin := true, true
		why := ""
		for i := range cphi.Edges {
			ce := cphi.Edges[i].(*ssa.Extract)
			pe := pphi.Edges[i].(*ssa.Extract)
			if ce.Tuple != pe.Tuple {
				okPair = false
				why = "on one path the count comes from one run and the positions from the other"
			}
			// predecessor i must be reached when ce is the smaller count
			pred := cphi.Block().Preds[i]
			for len(pred.Preds) == 1 && len(pred.Instrs) == 1 {
				// empty forwarding block
				pp := pred.Preds[0]
				if iff, ok := pp.Instrs[len(pp.Instrs)-1].(*ssa.If); ok {
					bo, ok := iff.Cond.(*ssa.BinOp)
					if !ok {
						okMin = false
						why = "selection condition is not a comparison of the two counts"
						break
					}
					branch := 0
					if pp.Succs[1] == pred {
						branch = 1
					}
					// other count
					var other ssa.Value
					for j := range cphi.Edges {
						if j != i {
							other = cphi.Edges[j]
						}
					}
					// true when ce < other (strict or not)
					selectedIsSmaller := false
					switch {
					case (bo.Op == token.LSS || bo.Op == token.LEQ) && bo.X == ssa.Value(ce) && bo.Y == other && branch == 0,
						(bo.Op == token.GTR || bo.Op == token.GEQ) && bo.X == other && bo.Y == ssa.Value(ce) && branch == 0,
						(bo.Op == token.LSS || bo.Op == token.LEQ) && bo.X == other && bo.Y == ssa.Value(ce) && branch == 1,
						(bo.Op == token.GTR || bo.Op == token.GEQ) && bo.X == ssa.Value(ce) && bo.Y == other && branch == 1:
						selectedIsSmaller = true
					}
					if !selectedIsSmaller {
						okMin = false
						why = "the run with the larger crossing count is selected (" + bo.String() + ")"
					}
				}
				break
			}
		}
		if okPair && okMin {
			r.add(Obligation{Key: key, Pos: pos, Desc: "count and positions are selected from the same run, the one with fewer crossings", Verdict: "holds", Control: ctl})
		} else {
			r.add(Obligation{Key: key, Pos: pos, Desc: "count and positions must come from the same, better run", Verdict: "violation", Detail: why, Control: ctl})
		}
		// logged value and restored map
		logged, restored := false, false
		var strayLog, strayRestore []string
		eachInstr(f, func(in ssa.Instruction) {
			switch x := in.(type) {
			case ssa.CallInstruction:
				if c := x.Common().StaticCallee(); c != nil && c.Name() == "Log" && strings.HasSuffix(pkgPathOf(c), "/internal/monitor") {
					if k, ok := x.Common().Args[0].(*ssa.Const); ok && k.Value != nil && k.Value.String() == `"crossings"` {
						if mi, ok := x.Common().Args[1].(*ssa.MakeInterface); ok && mi.X == ssa.Value(cphi) {
							logged = true
						} else {
							strayLog = append(strayLog, m.Pos(in.Pos()))
						}
					}
				}
			case *ssa.Store:
				if fa, ok := x.Addr.(*ssa.FieldAddr); ok {
					_, steps := fieldChain(fa)
					if locOfSteps(steps) == igNode+".LayerPos" {
						if lk, ok := x.Val.(*ssa.Lookup); ok && lk.X == ssa.Value(pphi) {
							restored = true
						} else {
							strayRestore = append(strayRestore, m.Pos(in.Pos()))
						}
					}
				}
			}
		})
		if len(strayLog) > 0 {
			logged = false
		}
		if len(strayRestore) > 0 {
			restored = false
		}
		// every run result is used only through the selection (no path adopts one run without comparing it with the other)
		bypass := ""
		for _, s := range sites {
			v := s.Value()
			if v == nil || v.Referrers() == nil {
				continue
			}
			for _, ref := range *v.Referrers() {
				ex, ok := ref.(*ssa.Extract)
				if !ok {
					bypass = "a run result is used as a whole at " + m.Pos(ref.Pos())
					continue
				}
				inSel := false
				for _, e := range cphi.Edges {
					if e == ssa.Value(ex) {
						inSel = true
					}
				}
				for _, e := range pphi.Edges {
					if e == ssa.Value(ex) {
						inSel = true
					}
				}
				if !inSel {
					bypass = "the result of the run called at " + m.Pos(s.Pos()) + " does not take part in the selection"
				}
			}
		}
		if bypass == "" {
			r.add(Obligation{Key: key + ":no-bypass", Pos: pos, Desc: "every seeded run takes part in the selection", Verdict: "holds", Control: ctl})
		} else {
			r.add(Obligation{Key: key + ":no-bypass", Pos: pos, Desc: "every seeded run must take part in the selection", Verdict: "violation", Detail: bypass + ": an order is adopted without being compared with the other seeded run", Control: ctl})
		}
		if logged {
			r.add(Obligation{Key: key + ":logged", Pos: pos, Desc: "the count logged under \"crossings\" is the selected count", Verdict: "holds", Control: ctl})
		} else {
			r.add(Obligation{Key: key + ":logged", Pos: pos, Desc: "the count logged under \"crossings\" must be the selected count", Verdict: "violation", Detail: "a Log(\"crossings\", ...) does not receive the selected count " + strings.Join(strayLog, ","), Control: ctl})
		}
		// nothing re-orders after the restore: from the store that restores LayerPos onwards, the only modification of order
		// state (Node.LayerPos, the order of Layer.Nodes, the selected positions map) is the sort of each layer by LayerPos
		var restoreStores []ssa.Instruction
		eachInstr(f, func(in ssa.Instruction) {
			if st, ok := in.(*ssa.Store); ok {
				if fa, ok := st.Addr.(*ssa.FieldAddr); ok {
					_, steps := fieldChain(fa)
					if locOfSteps(steps) == igNode+".LayerPos" {
						restoreStores = append(restoreStores, in)
					}
				}
			}
		})
		var late []string
		if len(restoreStores) > 0 {
			after := map[*ssa.BasicBlock]bool{}
			for _, rs := range restoreStores {
				after[rs.Block()] = true
				for b := range blocksReachableFrom(rs.Block()) {
					after[b] = true
				}
			}
			eachInstr(f, func(in ssa.Instruction) {
				ci, ok := in.(ssa.CallInstruction)
				if !ok || !after[in.Block()] {
					return
				}
				if _, isB := ci.Common().Value.(*ssa.Builtin); isB {
					return
				}
				for _, cal := range m.Callees(ci) {
					if inModule(cal) {
						e := m.effects[cal]
						if e == nil {
							continue
						}
						if e.Mod[igNode+".LayerPos"] || e.Mod[igLayer+".Nodes[]"] || e.Mod[igLayer+".Nodes"] {
							late = append(late, funcKey(cal)+" at "+m.Pos(in.Pos()))
						}
						// the selected positions map handed to a callee that writes map cells
						for i, a := range ci.Common().Args {
							if (a == ssa.Value(pphi)) && e.ParamWrites[i]["map"] {
								late = append(late, funcKey(cal)+" at "+m.Pos(in.Pos())+" (updates the selected positions)")
							}
						}
						continue
					}
					name := calleeFullName(ci.Common())
					idx, isMut := extMutators[name]
					if !isMut || idx < 0 || idx >= len(ci.Common().Args) {
						continue
					}
					touchesOrder := false
					for _, o := range originsOf(ci.Common().Args[idx], 0) {
						if (o.Kind == "fieldload" || o.Kind == "fieldaddr") && o.Loc == igLayer+".Nodes" {
							touchesOrder = true
						}
					}
					if touchesOrder && !sortsByLayerPos(ci) {
						late = append(late, name+" at "+m.Pos(in.Pos())+" (not a sort by LayerPos)")
					}
				}
			})
		}
		if len(late) == 0 && len(restoreStores) > 0 {
			r.add(Obligation{Key: key + ":final", Pos: pos, Desc: "after the best positions are restored nothing re-orders the layers (only the sort of each layer by LayerPos follows)", Verdict: "holds", Control: ctl})
		} else if len(restoreStores) > 0 {
			r.add(Obligation{Key: key + ":final", Pos: pos, Desc: "the restored order must be the final order of the phase", Verdict: "violation",
				Detail: "order state is modified after the reported order was restored: " + strings.Join(uniq(late), "; ") + " - the drawing then shows another order than the one whose crossings were reported", Control: ctl})
		}
		if restored {
			r.add(Obligation{Key: key + ":restored", Pos: pos, Desc: "Node.LayerPos is restored from the selected positions", Verdict: "holds", Control: ctl})
		} else {
			r.add(Obligation{Key: key + ":restored", Pos: pos, Desc: "Node.LayerPos must be restored from the selected positions", Verdict: "violation", Detail: "Node.LayerPos is stored from something other than the selected map " + strings.Join(strayRestore, ","), Control: ctl})
		}
	}
}

// sortsByLayerPos: the call is sort.Slice / sort.SliceStable / slices.SortFunc / slices.SortStableFunc with a comparison
// closure that compares nothing but the LayerPos of two elements.
func sortsByLayerPos(ci ssa.CallInstruction) bool {
	args := ci.Common().Args
	if len(args) < 2 {
		return false
	}
	var fn *ssa.Function
	switch x := args[1].(type) {
	case *ssa.MakeClosure:
		fn, _ = x.Fn.(*ssa.Function)
	case *ssa.Function:
		fn = x
	}
	if fn == nil || len(fn.Blocks) == 0 {
		return false
	}
	ok := false
	for _, b := range fn.Blocks {
		ret, isRet := b.Instrs[len(b.Instrs)-1].(*ssa.Return)
		if !isRet || len(ret.Results) != 1 {
			continue
		}
		isPos := func(v ssa.Value) bool {
			u, isU := v.(*ssa.UnOp)
			if !isU || u.Op != token.MUL {
				return false
			}
			fa, isFA := u.X.(*ssa.FieldAddr)
			if !isFA {
				return false
			}
			_, steps := fieldChain(fa)
			return locOfSteps(steps) == igNode+".LayerPos"
		}
		switch x := ret.Results[0].(type) {
		case *ssa.BinOp:
			// a.LayerPos < b.LayerPos (bool form) or a.LayerPos - b.LayerPos (cmp form)
			if (x.Op == token.LSS || x.Op == token.SUB) && isPos(x.X) && isPos(x.Y) {
				ok = true
				continue
			}
			return false
		case *ssa.Call:
			// cmp.Compare(a.LayerPos, b.LayerPos)
			if c := x.Call.StaticCallee(); c != nil && c.Pkg != nil && c.Pkg.Pkg.Path() == "cmp" && len(x.Call.Args) == 2 && isPos(x.Call.Args[0]) && isPos(x.Call.Args[1]) {
				ok = true
				continue
			}
			if c := x.Call.StaticCallee(); c != nil && c.Origin() != nil && c.Origin().Pkg != nil && c.Origin().Pkg.Pkg.Path() == "cmp" && len(x.Call.Args) == 2 && isPos(x.Call.Args[0]) && isPos(x.Call.Args[1]) {
				ok = true
				continue
			}
			return false
		default:
			return false
		}
	}
	return ok
}

func checkBestRun(m *Model, r *RuleResult, f *ssa.Function) {
	ctl := m.FuncIsPosctl(f)
	key := "best-pair:" + funcKey(f)
	pos := m.Pos(f.Pos())
	var bad []string
	nbase := 0
	var pairUp func(c, p ssa.Value, seen map[[2]ssa.Value]bool)
	pairUp = func(c, p ssa.Value, seen map[[2]ssa.Value]bool) {
		k := [2]ssa.Value{c, p}
		if seen[k] {
			return
		}
		seen[k] = true
		cp, cok := c.(*ssa.Phi)
		pp, pok := p.(*ssa.Phi)
		if cok && pok && cp.Block() == pp.Block() && len(cp.Edges) == len(pp.Edges) {
			for i := range cp.Edges {
				ce, pe := cp.Edges[i], pp.Edges[i]
				// an update edge: count changes iff positions change
				cSame := ce == c || isPhiOfSameLoop(ce, cp)
				_ = cSame
				pairUp(ce, pe, seen)
			}
			return
		}
		if cok != pok {
			bad = append(bad, fmt.Sprintf("count %s and positions %s are merged at different points: one can be updated without the other", c.Name(), p.Name()))
			return
		}
		// base pair: count = call result, positions = Clone(...) taken with no reordering call in between
		cc, ok1 := c.(*ssa.Call)
		pc, ok2 := p.(*ssa.Call)
		if !ok1 || !ok2 {
			bad = append(bad, fmt.Sprintf("unrecognised sources: count %s, positions %s", c.String(), p.String()))
			return
		}
		nbase++
		if !instrDominates(cc, pc) {
			bad = append(bad, "positions are saved before the crossings they belong to are counted")
			return
		}
		// no call with order effects between cc and pc
		between := func(in ssa.Instruction) bool {
			return instrDominates(cc, in) && instrReaches(in, pc) && in != ssa.Instruction(cc) && in != ssa.Instruction(pc) && (in.Block() == cc.Block() || in.Block() == pc.Block())
		}
		eachInstr(f, func(in ssa.Instruction) {
			if ci, ok := in.(ssa.CallInstruction); ok && between(in) {
				for _, cal := range m.Callees(ci) {
					if e := m.effects[cal]; e != nil && (e.Mod[igNode+".LayerPos"] || e.Mod[igLayer+".Nodes[]"]) {
						bad = append(bad, "order is changed by "+funcKey(cal)+" between counting and saving")
					}
				}
			}
		})
		// a new pair taken inside the loop must sit on the true edge of new < best
		if len(loopsContaining(naturalLoops(f), pc.Block())) > 0 {
			ok := false
			for _, d := range controlDeps(pc.Block()) {
				if bo, isBin := d.If.Cond.(*ssa.BinOp); isBin {
					// new < best on the true edge; the same test spelled best > new, or as the false edge of new >= best / best <= new
					x, y, op := bo.X, bo.Y, bo.Op
					if y == ssa.Value(cc) {
						x, y = y, x
						op = map[token.Token]token.Token{token.LSS: token.GTR, token.GTR: token.LSS, token.LEQ: token.GEQ, token.GEQ: token.LEQ}[op]
					}
					if d.Branch == 1 {
						op = map[token.Token]token.Token{token.GEQ: token.LSS, token.LEQ: token.GTR}[op]
					}
					if _, isPhi := y.(*ssa.Phi); isPhi && x == ssa.Value(cc) && op == token.LSS {
						ok = true
					}
				}
			}
			if !ok {
				bad = append(bad, "a new best is taken without the strict test new < best (the order kept is not the best ever seen)")
			}
		}
	}
	nret := 0
	eachInstr(f, func(in ssa.Instruction) {
		if ret, ok := in.(*ssa.Return); ok && len(ret.Results) == 2 {
			nret++
			pairUp(ret.Results[0], ret.Results[1], map[[2]ssa.Value]bool{})
		}
	})
	if len(bad) == 0 && (nret == 0 || nbase == 0) {
		r.add(Obligation{Key: key, Pos: pos, Desc: "median run returns (count, positions)", Verdict: "undecided", Detail: "no (count, snapshot) pair recognised", Control: ctl})
		return
	}
	if len(bad) == 0 {
		r.add(Obligation{Key: key, Pos: pos, Desc: fmt.Sprintf("returned count and positions are always taken together (%d snapshot sites), new pairs only when strictly better", nbase), Verdict: "holds", Control: ctl})
	} else {
		sort.Strings(bad)
		r.add(Obligation{Key: key, Pos: pos, Desc: "returned count and positions must be taken together", Verdict: "violation", Detail: strings.Join(uniq(bad), "; ") + ": the reported crossing number is not that of the returned order", Control: ctl})
	}
}

func isPhiOfSameLoop(v ssa.Value, p *ssa.Phi) bool { return v == ssa.Value(p) }

func uniq(s []string) []string {
	var out []string
	for i, x := range s {
		if i == 0 || x != s[i-1] {
			out = append(out, x)
		}
	}
	return out
}

// ---------- REC-1 ----------

var rec1Table = map[string]string{
	"internal/phase2.followLongestPath":                       "memo written post-order; terminates because phase 1 leaves the graph acyclic (ORD-5/PAIR-1, re-checked by hasCycles)",
	"(*internal/phase2.networkSimplexProcessor).adjustLayers": "descends the rooted spanning tree by the lim numbering (strictly decreasing)",
	"internal/phase4.setColor":                                "walks an in-edge to a strictly lower layer (e.IsFlat() edges are skipped)",
	"internal/phase4.placeBlock":                              "fix-point on a flag: each repetition strictly increases a coordinate (PROG-1); an upper bound on the coordinates, hence convergence, is not decided statically",
	"internal/geom.FitSpline":                                 "recurses on strictly shorter sub-slices path[:k+1], path[k:] (AFF-9)",
	"(*internal/phase4.brandesKoepfPositioner).placeBlock":    "Brandes-Koepf place_block: guarded by the sentinel xcoord[v] undefined -> defined before recursing",
	"internal/geom.(Polygon).String":                          "not recursive on data",
}

// rec1Reviewed looks the function up in the reviewed table by package and bare name, so that turning a function into a
// method (or back) keeps its entry.
func rec1Reviewed(f *ssa.Function) string {
	if s := rec1Table[funcKey(f)]; s != "" {
		return s
	}
	bare := func(k string) string {
		// "(*pkg.T).name" / "pkg.(T).name" / "pkg.name" -> "pkg:name"
		name := k[strings.LastIndex(k, ".")+1:]
		pkg := strings.TrimLeft(k, "(*")
		if i := strings.Index(pkg, "."); i >= 0 {
			pkg = pkg[:i]
		}
		return pkg + ":" + name
	}
	want := shortPkg(pkgPathOf(f)) + ":" + f.Name()
	found, n := "", 0
	for k, v := range rec1Table {
		if bare(k) == want {
			found = v
			n++
		}
	}
	if n == 1 {
		return found
	}
	return "" // ambiguous bare name (two reviewed functions share it): only the exact key counts
}

// flagGuardedFixpoint: every recursive call of f is control-dependent on the true branch of a boolean phi that is fed by
// constants only (a "something changed" flag).
func flagGuardedFixpoint(f *ssa.Function) bool {
	self := staticCalls(f, func(c *ssa.Function) bool { return c == f })
	if len(self) == 0 {
		return false
	}
	for _, s := range self {
		ok := false
		for _, d := range controlDeps(s.Block()) {
			p, isPhi := d.If.Cond.(*ssa.Phi)
			if !isPhi || d.Branch != 0 {
				continue
			}
			if b, isB := p.Type().Underlying().(*types.Basic); !isB || b.Kind() != types.Bool {
				continue
			}
			onlyConst := true
			seen := map[*ssa.Phi]bool{}
			var walk func(p *ssa.Phi)
			walk = func(p *ssa.Phi) {
				if seen[p] {
					return
				}
				seen[p] = true
				for _, e := range p.Edges {
					switch x := e.(type) {
					case *ssa.Const:
					case *ssa.Phi:
						walk(x)
					default:
						onlyConst = false
					}
				}
			}
			walk(p)
			if onlyConst {
				ok = true
			}
		}
		if !ok {
			return false
		}
	}
	return true
}

// memoDescentAlongOutEdges: f belongs to the layering phase, tests a memo map keyed by its node parameter at entry (early
// return), writes that map for the same key, and recurses only to the far end of an element of the node's Out list.
func memoDescentAlongOutEdges(f *ssa.Function) bool {
	if shortPkg(pkgPathOf(f)) != "internal/phase2" {
		return false
	}
	self := staticCalls(f, func(c *ssa.Function) bool { return c == f })
	if len(self) == 0 {
		return false
	}
	// node parameter
	ni := -1
	for i, p := range f.Params {
		if namedKey(p.Type()) == igNode {
			ni = i
			break
		}
	}
	if ni < 0 {
		return false
	}
	n := ssa.Value(f.Params[ni])
	// memo test at entry
	memo := ""
	eachInstr(f, func(in ssa.Instruction) {
		iff, ok := in.(*ssa.If)
		if !ok {
			return
		}
		var lk *ssa.Lookup
		switch c := iff.Cond.(type) {
		case *ssa.BinOp:
			if l, ok := c.X.(*ssa.Lookup); ok {
				if _, isC := c.Y.(*ssa.Const); isC {
					lk = l
				}
			}
		default:
			if mp, k, ok := membershipTest(iff.Cond); ok && k == n {
				memo = mapOriginFamily(mp, f, f)
			}
		}
		if lk == nil || lk.Index != n {
			return
		}
		for _, s := range iff.Block().Succs {
			if _, isRet := s.Instrs[len(s.Instrs)-1].(*ssa.Return); isRet {
				memo = mapOriginFamily(lk.X, f, f)
			}
		}
	})
	if memo == "" {
		return false
	}
	written := false
	eachInstr(f, func(in ssa.Instruction) {
		if mu, ok := in.(*ssa.MapUpdate); ok && mu.Key == n && mapOriginFamily(mu.Map, f, f) == memo {
			written = true
		}
	})
	if !written {
		return false
	}
	isOutElem := func(v ssa.Value) bool {
		u, ok := v.(*ssa.UnOp)
		if !ok || u.Op != token.MUL {
			return false
		}
		ia, ok := u.X.(*ssa.IndexAddr)
		if !ok {
			return false
		}
		ld, ok := ia.X.(*ssa.UnOp)
		if !ok || ld.Op != token.MUL {
			return false
		}
		fa, ok := ld.X.(*ssa.FieldAddr)
		if !ok {
			return false
		}
		base, steps := fieldChain(fa)
		return base == n && locOfSteps(steps) == igNode+".Out"
	}
	for _, s := range self {
		args := s.Common().Args
		if ni >= len(args) {
			return false
		}
		ok := false
		switch a := args[ni].(type) {
		case *ssa.Call:
			// e.ConnectedNode(n) / a helper taking the edge
			for _, x := range a.Call.Args {
				if isOutElem(x) {
					ok = true
				}
			}
		case *ssa.UnOp:
			if fa, isFA := a.X.(*ssa.FieldAddr); isFA && a.Op == token.MUL {
				base, steps := fieldChain(fa)
				if locOfSteps(steps) == igEdge+".To" && isOutElem(base) {
					ok = true
				}
			}
		}
		if !ok {
			return false
		}
	}
	return true
}

// subSliceRecursion: every recursive call of f passes, for one slice parameter p of f, a slice expression p[lo:hi] with at
// least one bound given.
func subSliceRecursion(f *ssa.Function) bool {
	self := staticCalls(f, func(c *ssa.Function) bool { return c == f })
	if len(self) == 0 {
		return false
	}
	for i, p := range f.Params {
		if _, ok := p.Type().Underlying().(*types.Slice); !ok {
			continue
		}
		all := true
		for _, s := range self {
			args := s.Common().Args
			if i >= len(args) {
				all = false
				break
			}
			sl, ok := args[i].(*ssa.Slice)
			if !ok || sl.X != ssa.Value(p) || (sl.Low == nil && sl.High == nil) {
				all = false
			}
		}
		if all {
			return true
		}
	}
	return false
}

func runRec1(m *Model, r *RuleResult) {
	// nesting: literal -> top function
	top := func(f *ssa.Function) *ssa.Function {
		for f.Parent() != nil {
			f = f.Parent()
		}
		return f
	}
	family := map[*ssa.Function][]*ssa.Function{}
	for _, f := range m.Src {
		t := top(f)
		family[t] = append(family[t], f)
	}
	var tops []*ssa.Function
	for t := range family {
		tops = append(tops, t)
	}
	sort.Slice(tops, func(i, j int) bool { return funcKey(tops[i]) < funcKey(tops[j]) })
	for _, t := range tops {
		if !inModule(t) {
			continue
		}
		// recursive call sites: static calls to t from t or its literals
		type site struct {
			in ssa.CallInstruction
			fn *ssa.Function
		}
		var sites []site
		for _, f := range family[t] {
			for _, s := range staticCalls(f, func(c *ssa.Function) bool { return c == t }) {
				sites = append(sites, site{s, f})
			}
		}
		if len(sites) == 0 {
			continue
		}
		ctl := m.FuncIsPosctl(t)
		key := "recursive:" + funcKey(t)
		pos := m.Pos(t.Pos())
		// mark sets: map updates in the family keyed by a parameter of t (or by the argument at the site)
		type mark struct {
			orig  string
			key   ssa.Value
			in    *ssa.MapUpdate
			fn    *ssa.Function
			param int
		}
		var marks []mark
		for _, f := range family[t] {
			eachInstr(f, func(in ssa.Instruction) {
				if mu, ok := in.(*ssa.MapUpdate); ok {
					marks = append(marks, mark{mapOriginFamily(mu.Map, f, t), mu.Key, mu, f, paramIndex(t, mu.Key)})
				}
			})
		}
		// entry guard: lookup of M keyed by param controlling an early return, with a mark M[param] dominating all recursive sites of t's own body
		guarded := false
		how := ""
		eachInstr(t, func(in ssa.Instruction) {
			iff0, ok := in.(*ssa.If)
			if !ok {
				return
			}
			lkX, lkIndex, ok := membershipTest(iff0.Cond)
			if !ok || paramIndex(t, lkIndex) < 0 {
				return
			}
			o := mapOriginFamily(lkX, t, t)
			// controls an early return?
			early := false
			for _, s := range iff0.Block().Succs {
				if len(s.Instrs) > 0 {
					if _, isRet := s.Instrs[len(s.Instrs)-1].(*ssa.Return); isRet && len(s.Instrs) <= 2 {
						early = true
					}
				}
			}
			if !early {
				return
			}
			for _, mk := range marks {
				if mk.orig == o && mk.fn == t && mk.key == lkIndex {
					dom := true
					for _, s := range sites {
						if s.fn == t && !instrDominates(mk.in, s.in) {
							dom = false
						}
					}
					if dom {
						guarded = true
						how = "entry test on " + o + " with the mark set before recursing"
					}
				}
			}
		})
		if !guarded {
			// entry guard through a test-and-mark helper: `if !visit(n, seen) { return }` where the helper reports false for a
			// marked key and otherwise marks it and reports true
			eachInstr(t, func(in ssa.Instruction) {
				iff0, ok := in.(*ssa.If)
				if !ok || guarded {
					return
				}
				c := iff0.Cond
				neg := false
				if u, isU := c.(*ssa.UnOp); isU && u.Op == token.NOT {
					c, neg = u.X, true
				}
				call, ok := c.(*ssa.Call)
				if !ok || call.Call.StaticCallee() == nil || !inModule(call.Call.StaticCallee()) {
					return
				}
				_, ki, ok := testAndMarkHelper(call.Call.StaticCallee())
				if !ok {
					return
				}
				args := call.Call.Args
				if ki >= len(args) || paramIndex(t, args[ki]) < 0 {
					return
				}
				// the branch taken when the helper says "already marked" (false) returns at once
				falseSucc := iff0.Block().Succs[1]
				if neg {
					falseSucc = iff0.Block().Succs[0]
				}
				if len(falseSucc.Instrs) == 0 || len(falseSucc.Instrs) > 2 {
					return
				}
				if _, isRet := falseSucc.Instrs[len(falseSucc.Instrs)-1].(*ssa.Return); !isRet {
					return
				}
				dom := true
				for _, s := range sites {
					if s.fn == t && !instrDominates(call, s.in) {
						dom = false
					}
				}
				if dom {
					guarded = true
					how = "entry test through the test-and-mark helper " + call.Call.StaticCallee().Name() + " (false for a marked key, otherwise marks it) before recursing"
				}
			})
		}
		if !guarded {
			// site guards: every recursive site controlled by a lookup of M keyed by (a value feeding) the argument, M marked before the call
			all := true
			for _, s := range sites {
				ok := false
				for _, d := range transitiveControlDeps(s.in.Block()) {
					lkX, lkIndex, isTest := membershipTest(d.If.Cond)
					if !isTest {
						continue
					}
					o := mapOriginFamily(lkX, s.fn, t)
					for _, mk := range marks {
						if mk.orig != o {
							continue
						}
						// mark in the same function dominating the site with the same key, or mark at entry of t keyed by the param
						if mk.fn == s.fn && mk.key == lkIndex && instrDominates(mk.in, s.in) {
							ok = true
						}
						if mk.fn == t && mk.param >= 0 {
							// lookup key must be the argument passed for that parameter
							args := s.in.Common().Args
							if mk.param < len(args) && args[mk.param] == lkIndex {
								okDom := true
								for _, s2 := range sites {
									if s2.fn == t && !instrDominates(mk.in, s2.in) {
										okDom = false
									}
								}
								if okDom {
									ok = true
								}
							}
						}
					}
				}
				if !ok {
					all = false
				}
			}
			if all {
				guarded = true
				how = "every recursive call is controlled by a lookup in a set that is marked before the call"
			}
		}
		switch {
		case guarded:
			r.add(Obligation{Key: key, Pos: pos, Desc: "recursion has a mark-and-test guard: " + how, Verdict: "holds", Control: ctl})
		case flagGuardedFixpoint(t) && !ctl:
			r.add(Obligation{Key: key, Pos: pos, Desc: "fix-point on a flag: the only recursive calls are taken when a boolean flag was set during this run of the body; each repetition strictly increases a coordinate (PROG-1); an upper bound on the coordinates, hence convergence, is not decided statically", Verdict: "holds"})
			r.stat("flag_fixpoints", 1)
		case memoDescentAlongOutEdges(t) && !ctl:
			r.add(Obligation{Key: key, Pos: pos, Desc: "memoised descent of the layering phase: the result for the node parameter is looked up at entry (early return) and stored in the same map afterwards, and every recursive call goes to the other end of an edge taken from the node's Out list; it terminates because phase 1 leaves the graph acyclic (ORD-5/PAIR-1/ACYC-1, re-checked by hasCycles) - acyclicity itself is not decided here", Verdict: "holds"})
			r.stat("memo_descents", 1)
		case subSliceRecursion(t) && !ctl:
			r.add(Obligation{Key: key, Pos: pos, Desc: "divide and conquer: every recursive call receives a proper sub-slice expression (p[:i] / p[j:]) of the function's own slice parameter; AFF-9 decides that the two halves are path[:k+1] and path[k:]; that 0 < k < len-1 (strictly shorter halves) is a run-time fact of the error maximum and is not decided", Verdict: "holds"})
			r.stat("subslice_recursions", 1)
		case rec1Reviewed(t) != "" && !ctl:
			r.add(Obligation{Key: key, Pos: pos, Desc: "recursion without a mark-and-test guard; reviewed: " + rec1Reviewed(t), Verdict: "holds"})
			r.stat("table_entries_used", 1)
		default:
			r.add(Obligation{Key: key, Pos: pos, Desc: "recursive function without a mark-and-test guard", Verdict: "violation",
				Detail: "no set is marked for the visited element before recursing and tested at the call or at entry: on any cycle of the traversed structure the recursion never ends (stack overflow aborts the process)", Control: ctl})
		}
	}
}

// testAndMarkHelper: h(…, k, …, M, …) bool returns the constant false exactly on the branch where M[k] is set, and on every
// other path marks M[k] before returning the constant true. mi / ki are the parameter positions of the map and the key.
func testAndMarkHelper(h *ssa.Function) (mi, ki int, ok bool) {
	if h == nil || len(h.Blocks) == 0 || h.Signature.Results().Len() != 1 {
		return 0, 0, false
	}
	var test *ssa.If
	var mp, key ssa.Value
	eachInstr(h, func(in ssa.Instruction) {
		if iff, isIf := in.(*ssa.If); isIf && test == nil {
			if m2, k2, isT := membershipTest(iff.Cond); isT && paramIndex(h, k2) >= 0 {
				test, mp, key = iff, m2, k2
			}
		}
	})
	if test == nil {
		return 0, 0, false
	}
	// polarity: which successor is the "member" branch
	c := test.Cond
	neg := false
	for {
		u, isU := c.(*ssa.UnOp)
		if !isU || u.Op != token.NOT {
			break
		}
		c, neg = u.X, !neg
	}
	member := test.Block().Succs[0]
	if neg {
		member = test.Block().Succs[1]
	}
	var mark *ssa.MapUpdate
	eachInstr(h, func(in ssa.Instruction) {
		if mu, isMu := in.(*ssa.MapUpdate); isMu && mu.Key == key && sameMapValue(mu.Map, mp) && isConstBoolValue(mu.Value, true) {
			mark = mu
		}
	})
	if mark == nil {
		return 0, 0, false
	}
	okRets, nTrue, nFalse := true, 0, 0
	eachInstr(h, func(in ssa.Instruction) {
		ret, isRet := in.(*ssa.Return)
		if !isRet {
			return
		}
		switch {
		case len(ret.Results) == 1 && isConstBool(ret.Results[0], false):
			nFalse++
			if !(ret.Block() == member || member.Dominates(ret.Block())) {
				okRets = false
			}
		case len(ret.Results) == 1 && isConstBool(ret.Results[0], true):
			nTrue++
			if !instrDominates(mark, ret) {
				okRets = false
			}
		default:
			okRets = false
		}
	})
	if !okRets || nTrue == 0 || nFalse == 0 {
		return 0, 0, false
	}
	mi = paramIndex(h, mp)
	if mi < 0 {
		mi = 0 // a field of the receiver
	}
	return mi, paramIndex(h, key), true
}

// membershipTest recognises a set-membership test in a branch condition (negation stripped): m[k] on a bool-valued map,
// the ok of `_, ok := m[k]`, or a call of a one-line accessor that returns one of those for its own parameters.
func membershipTest(c ssa.Value) (mp, key ssa.Value, ok bool) {
	for {
		u, isU := c.(*ssa.UnOp)
		if !isU || u.Op != token.NOT {
			break
		}
		c = u.X
	}
	switch x := c.(type) {
	case *ssa.Lookup:
		if !x.CommaOk {
			return x.X, x.Index, true
		}
	case *ssa.Extract:
		if lk, isLk := x.Tuple.(*ssa.Lookup); isLk && lk.CommaOk && x.Index == 1 {
			return lk.X, lk.Index, true
		}
	case *ssa.Call:
		cal := x.Call.StaticCallee()
		if cal == nil || len(cal.Blocks) != 1 {
			return nil, nil, false
		}
		ret, isRet := cal.Blocks[0].Instrs[len(cal.Blocks[0].Instrs)-1].(*ssa.Return)
		if !isRet || len(ret.Results) != 1 {
			return nil, nil, false
		}
		m2, k2, ok2 := membershipTest(ret.Results[0])
		if !ok2 {
			return nil, nil, false
		}
		mi, ki := -1, -1
		for i, p := range cal.Params {
			if ssa.Value(p) == m2 {
				mi = i
			}
			if ssa.Value(p) == k2 {
				ki = i
			}
		}
		if mi < 0 || ki < 0 || mi >= len(x.Call.Args) || ki >= len(x.Call.Args) {
			return nil, nil, false
		}
		return x.Call.Args[mi], x.Call.Args[ki], true
	}
	return nil, nil, false
}

// mapOriginFamily names a map value so that the same map seen from a function and from its nested literals compares equal.
func mapOriginFamily(v ssa.Value, f, top *ssa.Function) string {
	for _, o := range originsOf(v, 0) {
		switch o.Kind {
		case "fieldload", "fieldaddr":
			return "field:" + o.Loc
		case "param":
			if f == top {
				return "toplocal:" + f.Params[o.Param].Name()
			}
			return fmt.Sprintf("%s:param:%d", funcKey(f), o.Param)
		case "freevar":
			return "toplocal:" + f.FreeVars[o.Param].Name()
		}
	}
	if mk, ok := v.(*ssa.MakeMap); ok {
		return "toplocal:" + mk.Name()
	}
	return ""
}

// ---------- CAP-1 ----------

// dependsOnLoc: the value's backward slice (through arithmetic, conversions, phis, pure library calls, struct fields field-based, parameters) reaches a load of loc.
func (m *Model) dependsOnLoc(v ssa.Value, loc string, seen map[ssa.Value]bool, depth int) bool {
	if depth > 14 || seen[v] {
		return false
	}
	seen[v] = true
	switch x := v.(type) {
	case *ssa.BinOp:
		return m.dependsOnLoc(x.X, loc, seen, depth+1) || m.dependsOnLoc(x.Y, loc, seen, depth+1)
	case *ssa.Convert:
		return m.dependsOnLoc(x.X, loc, seen, depth+1)
	case *ssa.ChangeType:
		return m.dependsOnLoc(x.X, loc, seen, depth+1)
	case *ssa.Phi:
		for _, e := range x.Edges {
			if m.dependsOnLoc(e, loc, seen, depth+1) {
				return true
			}
		}
	case *ssa.Call:
		for _, a := range x.Call.Args {
			if m.dependsOnLoc(a, loc, seen, depth+1) {
				return true
			}
		}
	case *ssa.Field:
		_, steps := fieldChain(x)
		l := locOfSteps(steps)
		if l == loc {
			return true
		}
		return m.storedIntoDependsOn(l, loc, seen, depth) || m.dependsOnLoc(x.X, loc, seen, depth+1)
	case *ssa.UnOp:
		if x.Op == token.MUL {
			if fa, ok := x.X.(*ssa.FieldAddr); ok {
				base, steps := fieldChain(fa)
				l := locOfSteps(steps)
				if l == loc {
					return true
				}
				if m.storedIntoDependsOn(l, loc, seen, depth) {
					return true
				}
				// struct passed by value: base is an Alloc/param holding a struct
				return m.dependsOnLoc(base, loc, seen, depth+1)
			}
			if al, ok := x.X.(*ssa.Alloc); ok {
				for _, ref := range *al.Referrers() {
					if st, ok := ref.(*ssa.Store); ok && st.Addr == al && m.dependsOnLoc(st.Val, loc, seen, depth+1) {
						return true
					}
				}
			}
			return false
		}
		return m.dependsOnLoc(x.X, loc, seen, depth+1)
	case *ssa.Alloc:
		for _, ref := range *x.Referrers() {
			if st, ok := ref.(*ssa.Store); ok && st.Addr == x && m.dependsOnLoc(st.Val, loc, seen, depth+1) {
				return true
			}
		}
	case *ssa.Parameter:
		fn := x.Parent()
		idx := paramIndex(fn, x)
		for _, f := range m.Funcs {
			found := false
			eachInstr(f, func(in ssa.Instruction) {
				if found {
					return
				}
				if ci, ok := in.(ssa.CallInstruction); ok {
					for _, cal := range m.Callees(ci) {
						if cal == fn {
							args := ci.Common().Args
							if ci.Common().IsInvoke() {
								args = append([]ssa.Value{ci.Common().Value}, args...)
							}
							if idx < len(args) && m.dependsOnLoc(args[idx], loc, seen, depth+1) {
								found = true
							}
						}
					}
				}
			})
			if found {
				return true
			}
		}
	}
	return false
}

func (m *Model) storedIntoDependsOn(field, loc string, seen map[ssa.Value]bool, depth int) bool {
	m.fxInit()
	for _, f := range m.Funcs {
		for _, w := range m.effects[f].Writes {
			if w.Loc == field && w.Val != nil && m.dependsOnLoc(w.Val, loc, seen, depth+1) {
				return true
			}
		}
	}
	return false
}

func runCap1(m *Model, r *RuleResult) {
	m.fxInit()
	checkLoopCap := func(f *ssa.Function, l *loopInfo, loc, key, what string) {
		ctl := m.FuncIsPosctl(f)
		ok := false
		why := "no exit compares an incrementing counter with a bound"
		for b := range l.Body {
			iff, isIf := b.Instrs[len(b.Instrs)-1].(*ssa.If)
			if !isIf {
				continue
			}
			exits := !l.Body[b.Succs[0]] || !l.Body[b.Succs[1]]
			if !exits {
				continue
			}
			bo, isBin := iff.Cond.(*ssa.BinOp)
			if !isBin {
				continue
			}
			var ctr, bound ssa.Value
			switch bo.Op {
			case token.GEQ, token.GTR, token.LSS, token.LEQ:
				ctr, bound = bo.X, bo.Y
			default:
				continue
			}
			// rotated loops (range over an integer) test the incremented counter: phi + 1 < bound
			if cb, ok := ctr.(*ssa.BinOp); ok && cb.Op == token.ADD {
				if c, isC := constInt(cb.Y); isC && c == 1 {
					ctr = cb.X
				}
			}
			phi, isPhi := ctr.(*ssa.Phi)
			if !isPhi || !l.Body[phi.Block()] {
				continue
			}
			inc := false
			for _, e := range phi.Edges {
				if eb, ok := e.(*ssa.BinOp); ok && eb.Op == token.ADD && eb.X == ssa.Value(phi) {
					if c, isC := constInt(eb.Y); isC && c == 1 {
						// the increment must execute on every iteration: its block dominates the latch (is in every path back to the head)
						inc = true
					}
				}
			}
			if !inc {
				why = "the compared counter is not incremented by 1 each iteration"
				continue
			}
			// bound loop-invariant: defined outside the loop or a load of an unmodified field
			if bi, ok := bound.(ssa.Instruction); ok && l.Body[bi.Block()] {
				if u, isU := bound.(*ssa.UnOp); !(isU && u.Op == token.MUL) {
					why = "the bound is recomputed inside the loop"
					continue
				}
			}
			if !m.dependsOnLoc(bound, loc, map[ssa.Value]bool{}, 0) {
				why = "the bound does not depend on " + loc
				continue
			}
			ok = true
		}
		if ok {
			r.add(Obligation{Key: key, Pos: m.Pos(l.Head.Instrs[0].Pos()), Desc: what + " is capped by a counter compared with a bound derived from " + strings.TrimPrefix(loc, "internal/graph."), Verdict: "holds", Control: ctl})
		} else {
			r.add(Obligation{Key: key, Pos: m.Pos(l.Head.Instrs[0].Pos()), Desc: what + " must be capped by the documented iteration budget", Verdict: "violation",
				Detail: why + ": the loop's termination then rests on the heuristic alone", Control: ctl})
		}
	}
	nPivot, nSweep := 0, 0
	for _, f := range m.Src {
		loops := naturalLoops(f)
		if len(loops) == 0 {
			continue
		}
		eachInstr(f, func(in ssa.Instruction) {
			ci, ok := in.(ssa.CallInstruction)
			if !ok {
				return
			}
			for _, cal := range m.Callees(ci) {
				e := m.effects[cal]
				if e == nil {
					continue
				}
				ls := loopsContaining(loops, in.Block())
				if len(ls) == 0 {
					continue
				}
				// pivot: modifies IsInSpanningTree and Node.Layer (exchange), called directly in a loop of a phase-2 function
				if shortPkg(pkgPathOf(f)) == "internal/phase2" && e.Mod[igEdge+".IsInSpanningTree"] && e.Mod[igNode+".Layer"] && e.Mod[igEdge+".CutValue"] {
					// exclude the tree-construction loop (feasibleTree calls tightTree which sets IsInSpanningTree but not CutValue)
					nPivot++
					checkLoopCap(f, ls[0], igPar+".NetworkSimplexThoroughness", "pivot-loop:"+funcKey(f), "the network-simplex pivot loop")
				}
			}
		})
	}
	// sweep loop: in the phase-3 median run (function returning (int, map)), the loop containing calls that reorder layers
	for _, f := range m.Src {
		if shortPkg(pkgPathOf(f)) != "internal/phase3" || f.Parent() != nil {
			continue
		}
		res := f.Signature.Results()
		isRun := false
		if res.Len() == 2 {
			_, isRun = res.At(1).Type().Underlying().(*types.Map)
		} else if res.Len() == 1 {
			// the record spelling: one struct with an int and a map field
			if st, ok := res.At(0).Type().Underlying().(*types.Struct); ok && st.NumFields() == 2 {
				for i := 0; i < 2; i++ {
					if _, ok := st.Field(i).Type().Underlying().(*types.Map); ok {
						isRun = true
					}
				}
			}
		}
		if !isRun {
			continue
		}
		loops := naturalLoops(f)
		done := map[*loopInfo]bool{}
		eachInstr(f, func(in ssa.Instruction) {
			ci, ok := in.(ssa.CallInstruction)
			if !ok {
				return
			}
			for _, cal := range m.Callees(ci) {
				e := m.effects[cal]
				if e == nil || !e.Mod[igLayer+".Nodes[]"] || !inModule(cal) {
					continue
				}
				ls := loopsContaining(loops, in.Block())
				if len(ls) == 0 {
					continue
				}
				outer := ls[len(ls)-1]
				if done[outer] {
					continue
				}
				// skip the initial sort loop (calls sort.Slice, not a module function): cal is in module here
				done[outer] = true
				nSweep++
				checkLoopCap(f, outer, igPar+".WMedianMaxIter", "sweep-loop:"+funcKey(f), "the weighted-median sweep loop")
			}
		})
	}
	if nPivot == 0 {
		r.undecided("pivot-loop", "-", "a loop around the network-simplex pivot must exist", "not found")
	}
	if nSweep == 0 {
		r.undecided("sweep-loop", "-", "a sweep loop in the median run must exist", "not found")
	}
}

// ---------- BAL-1 ----------

func runBal1(m *Model, r *RuleResult) {
	n := 0
	for _, f := range m.Src {
		if shortPkg(pkgPathOf(f)) != "internal/phase2" {
			continue
		}
		eachInstr(f, func(in ssa.Instruction) {
			st, ok := in.(*ssa.Store)
			if !ok {
				return
			}
			fa, ok := st.Addr.(*ssa.FieldAddr)
			if !ok {
				return
			}
			node, steps := fieldChain(fa)
			if locOfSteps(steps) != igNode+".Layer" {
				return
			}
			// control-dependent on Indeg(node) == Outdeg(node)?
			degGuard := false
			for _, d := range transitiveControlDeps(st.Block()) {
				bo, ok := d.If.Cond.(*ssa.BinOp)
				if !ok || !((bo.Op == token.EQL && d.Branch == 0) || (bo.Op == token.NEQ && d.Branch == 1)) {
					continue
				}
				if a, b := degreeOperand(bo.X, node), degreeOperand(bo.Y, node); a != "" && b != "" && a != b {
					degGuard = true
				}
			}
			if !degGuard {
				return
			}
			n++
			key := "balance:" + funcKey(f)
			pos := m.Pos(st.Pos())
			ctl := m.FuncIsPosctl(f)
			r.add(Obligation{Key: key + ":neutral-only", Pos: pos, Desc: "only nodes with equal in- and out-degree are moved (total edge length unchanged)", Verdict: "holds", Control: ctl})
			// window: low = max-reduction of From.Layer + Delta over node.In, high = min-reduction of To.Layer - Delta over
			// node.Out - computed inside the loop that moves the nodes (so that it reflects earlier moves), in this function
			// or in a helper of the package called there with the node
			var low, high ssa.Value
			floops := naturalLoops(f)
			var moving *loopInfo
			if ls := loopsContaining(floops, st.Block()); len(ls) > 0 {
				moving = ls[len(ls)-1]
			}
			stale := ""
			// reductionsIn: the max / min reduction calls of function g over the In / Out list of node value nd
			reductionsIn := func(g *ssa.Function, nd ssa.Value) (lo, hi *ssa.Call) {
				eachInstr(g, func(in2 ssa.Instruction) {
					call, ok := in2.(*ssa.Call)
					if !ok {
						return
					}
					mk := minMaxKind(&call.Call)
					if mk == "" {
						return
					}
					for _, a := range call.Call.Args {
						bo, ok := a.(*ssa.BinOp)
						if !ok {
							continue
						}
						// bo.X = load Layer of (load <endpoint> of e), e an element of nd.<list>
						edgeOf := func(v ssa.Value, endpoint, list string) bool {
							u, ok := v.(*ssa.UnOp)
							if !ok || u.Op != token.MUL {
								return false
							}
							fa2, ok := u.X.(*ssa.FieldAddr)
							if !ok {
								return false
							}
							b2, s2 := fieldChain(fa2)
							if locOfSteps(s2) != igNode+".Layer" {
								return false
							}
							eu, ok := b2.(*ssa.UnOp)
							if !ok || eu.Op != token.MUL {
								return false
							}
							efa, ok := eu.X.(*ssa.FieldAddr)
							if !ok {
								return false
							}
							ev, es := fieldChain(efa)
							if locOfSteps(es) != igEdge+"."+endpoint {
								return false
							}
							// ev = *(&(nd.<list>)[i])
							el, ok := ev.(*ssa.UnOp)
							if !ok || el.Op != token.MUL {
								return false
							}
							ia, ok := el.X.(*ssa.IndexAddr)
							if !ok {
								return false
							}
							ll, ok := ia.X.(*ssa.UnOp)
							if !ok || ll.Op != token.MUL {
								return false
							}
							lfa, ok := ll.X.(*ssa.FieldAddr)
							if !ok {
								return false
							}
							lb, lsx := fieldChain(lfa)
							return locOfSteps(lsx) == igNode+"."+list && (lb == nd || sameSSAExpr(lb, nd, 0))
						}
						if mk == "max" && bo.Op == token.ADD && edgeOf(bo.X, "From", "In") && isLoadOf(bo.Y, igEdge+".Delta") {
							lo = call
						}
						if mk == "min" && bo.Op == token.SUB && edgeOf(bo.X, "To", "Out") && isLoadOf(bo.Y, igEdge+".Delta") {
							hi = call
						}
					}
				})
				return
			}
			if lo, hi := reductionsIn(f, node); lo != nil || hi != nil {
				if lo != nil {
					low = lo
					if moving != nil && !moving.Body[lo.Block()] {
						stale = "the lower bound is computed at " + m.Pos(lo.Pos()) + ", before the loop that moves the nodes"
					}
				}
				if hi != nil {
					high = hi
					if moving != nil && !moving.Body[hi.Block()] {
						stale = "the upper bound is computed at " + m.Pos(hi.Pos()) + ", before the loop that moves the nodes"
					}
				}
			}
			if low == nil || high == nil {
				// a helper of the package, called with the node inside the moving loop, that returns the two reductions
				eachInstr(f, func(in2 ssa.Instruction) {
					call, ok := in2.(*ssa.Call)
					if !ok || call.Call.StaticCallee() == nil || pkgPathOf(call.Call.StaticCallee()) != pkgPathOf(f) || call.Referrers() == nil {
						return
					}
					h := call.Call.StaticCallee()
					pi := -1
					for i, a := range call.Call.Args {
						if a == node && i < len(h.Params) {
							pi = i
						}
					}
					if pi < 0 || len(h.Blocks) == 0 {
						return
					}
					lo, hi := reductionsIn(h, h.Params[pi])
					if lo == nil && hi == nil {
						return
					}
					// which result carries which reduction
					for _, ref := range *call.Referrers() {
						ex, ok := ref.(*ssa.Extract)
						if !ok {
							continue
						}
						eachInstr(h, func(in3 ssa.Instruction) {
							ret, ok := in3.(*ssa.Return)
							if !ok || ex.Index >= len(ret.Results) {
								return
							}
							rv := ret.Results[ex.Index]
							carries := func(target *ssa.Call) bool {
								if target == nil {
									return false
								}
								seen := map[ssa.Value]bool{}
								var walk func(x ssa.Value) bool
								walk = func(x ssa.Value) bool {
									if x == ssa.Value(target) {
										return true
									}
									if seen[x] {
										return false
									}
									seen[x] = true
									if p, ok := x.(*ssa.Phi); ok {
										for _, e := range p.Edges {
											if walk(e) {
												return true
											}
										}
									}
									return false
								}
								return walk(rv)
							}
							if carries(lo) && low == nil {
								low = ex
							}
							if carries(hi) && high == nil {
								high = ex
							}
						})
					}
					if moving != nil && !moving.Body[call.Block()] {
						stale = "the window is computed at " + m.Pos(call.Pos()) + ", before the loop that moves the nodes"
					}
				})
			}
			if stale != "" {
				r.add(Obligation{Key: key + ":fresh-window", Pos: pos, Desc: "the window of a node must be computed from the current layers of its neighbours", Verdict: "violation",
					Detail: stale + ": once a node has moved, the windows of its neighbours no longer reflect it, and two adjacent nodes can pass each other (flat or upward edge)", Control: ctl})
			} else if low != nil && high != nil {
				r.add(Obligation{Key: key + ":fresh-window", Pos: pos, Desc: "the window is computed inside the loop that moves the nodes, from the node's own In / Out lists", Verdict: "holds", Control: ctl})
			}
			if low != nil {
				r.add(Obligation{Key: key + ":lower-bound", Pos: pos, Desc: "lower end of the window is the max over in-edges of From.Layer + Delta", Verdict: "holds", Control: ctl})
			} else {
				r.add(Obligation{Key: key + ":lower-bound", Pos: pos, Desc: "lower end of the window must be max over in-edges of From.Layer + Delta", Verdict: "violation", Detail: "reduction not found: a node can be moved above one of its predecessors (edge pointing upward)", Control: ctl})
			}
			if high != nil {
				r.add(Obligation{Key: key + ":upper-bound", Pos: pos, Desc: "upper end of the window is the min over out-edges of To.Layer - Delta", Verdict: "holds", Control: ctl})
			} else {
				r.add(Obligation{Key: key + ":upper-bound", Pos: pos, Desc: "upper end of the window must be min over out-edges of To.Layer - Delta", Verdict: "violation", Detail: "reduction not found: a node can be moved below one of its successors", Control: ctl})
			}
			// stored value: phi over {low-chain, counter}; counter bounded by <= high-chain
			okSel := false
			why := "the stored layer is not selected between the lower bound and a counter bounded by the upper bound"
			if low != nil && high != nil {
				reaches := func(v ssa.Value, target ssa.Value) bool {
					seen := map[ssa.Value]bool{}
					var walk func(x ssa.Value) bool
					walk = func(x ssa.Value) bool {
						if x == target {
							return true
						}
						if seen[x] {
							return false
						}
						seen[x] = true
						if p, ok := x.(*ssa.Phi); ok {
							for _, e := range p.Edges {
								if walk(e) {
									return true
								}
							}
						}
						return false
					}
					return walk(v)
				}
				// collect non-phi leaves of the stored value
				leaves := map[ssa.Value]bool{}
				seen := map[ssa.Value]bool{}
				var walk func(x ssa.Value)
				walk = func(x ssa.Value) {
					if seen[x] {
						return
					}
					seen[x] = true
					if p, ok := x.(*ssa.Phi); ok {
						// a counter phi (has an edge phi+1) is a leaf
						isCtr := false
						for _, e := range p.Edges {
							if eb, ok := e.(*ssa.BinOp); ok && eb.Op == token.ADD && eb.X == ssa.Value(p) {
								isCtr = true
							}
						}
						if isCtr {
							leaves[x] = true
							return
						}
						for _, e := range p.Edges {
							walk(e)
						}
						return
					}
					leaves[x] = true
				}
				walk(st.Val)
				okSel = true
				for lf := range leaves {
					switch x := lf.(type) {
					case *ssa.Call:
						if ssa.Value(x) != low && !selectsWithin(x, low, high) {
							okSel = false
							why = "the stored layer can be " + x.String()
						}
					case *ssa.Extract:
						if ssa.Value(x) != low {
							okSel = false
							why = "the stored layer can be " + x.String()
						}
					case *ssa.Const:
						// initial value of the lower bound (0)
						if c, ok := constInt(x); !ok || c != 0 {
							okSel = false
						}
					case *ssa.Phi:
						// counter: init = lowchain + 1, loop condition ctr <= highchain
						initOK, condOK := false, false
						for _, e := range x.Edges {
							if eb, ok := e.(*ssa.BinOp); ok && eb.Op == token.ADD && eb.X != ssa.Value(x) {
								if c, isC := constInt(eb.Y); isC && c == 1 && (reaches(eb.X, low) || eb.X == low) {
									initOK = true
								}
							}
						}
						if refs := x.Referrers(); refs != nil {
							for _, ref := range *refs {
								if bo, ok := ref.(*ssa.BinOp); ok && bo.Op == token.LEQ && bo.X == ssa.Value(x) && (reaches(bo.Y, high) || bo.Y == high) {
									condOK = true
								}
							}
						}
						if !initOK || !condOK {
							okSel = false
							why = fmt.Sprintf("candidate counter: starts above the lower bound: %v, bounded by the upper bound: %v", initOK, condOK)
						}
					default:
						okSel = false
						why = "the stored layer can be " + lf.String()
					}
				}
			}
			if okSel {
				r.add(Obligation{Key: key + ":window", Pos: pos, Desc: "the new layer is the lower bound or a counter in (low, high]", Verdict: "holds", Control: ctl})
			} else {
				r.add(Obligation{Key: key + ":window", Pos: pos, Desc: "the new layer must lie in the feasible window [low, high]", Verdict: "violation", Detail: why, Control: ctl})
			}
		})
	}
	if n == 0 {
		r.undecided("balance", "-", "a degree-guarded store to Node.Layer (vertical balancing) must exist in phase 2", "not found: balancing would move non-neutral nodes, lengthening edges")
	}
}

// ---------- BEST-1, record spelling: the run returns one struct {crossings int; positions map} ----------

// best1StructMode decides BEST-1 when count and positions travel together in a record. The pairing is then by construction
// as long as the record is only ever replaced as a whole; the clauses are the same as in the two-value spelling.
func best1StructMode(m *Model, r *RuleResult) bool {
	m.fxInit()
	recFields := func(t types.Type) (ci, pi int, ok bool) {
		st, isS := t.Underlying().(*types.Struct)
		if !isS || st.NumFields() != 2 {
			return 0, 0, false
		}
		ci, pi = -1, -1
		for i := 0; i < 2; i++ {
			switch u := st.Field(i).Type().Underlying().(type) {
			case *types.Basic:
				if u.Kind() == types.Int {
					ci = i
				}
			case *types.Map:
				pi = i
			}
		}
		return ci, pi, ci >= 0 && pi >= 0
	}
	var run *ssa.Function
	for _, f := range m.Src {
		if shortPkg(pkgPathOf(f)) != "internal/phase3" || f.Parent() != nil || m.FuncIsPosctl(f) || f.Signature.Results().Len() != 1 || f.Signature.Recv() != nil {
			continue
		}
		if _, _, ok := recFields(f.Signature.Results().At(0).Type()); ok && len(f.Params) >= 1 && namedKey(f.Params[0].Type()) == igDG {
			run = f
		}
	}
	if run == nil {
		return false
	}
	ci, pi, _ := recFields(run.Signature.Results().At(0).Type())
	rpos := m.Pos(run.Pos())
	rkey := "best-pair:" + funcKey(run)
	// the record variable that is returned
	var best *ssa.Alloc
	okRet := true
	eachInstr(run, func(in ssa.Instruction) {
		ret, ok := in.(*ssa.Return)
		if !ok {
			return
		}
		u, isU := ret.Results[0].(*ssa.UnOp)
		if !isU || u.Op != token.MUL {
			okRet = false
			return
		}
		al, isA := u.X.(*ssa.Alloc)
		if !isA || (best != nil && best != al) {
			okRet = false
			return
		}
		best = al
	})
	var bad []string
	if best == nil || !okRet {
		bad = append(bad, "the run does not return one record variable on all paths")
	} else {
		loops := naturalLoops(run)
		nUpd := 0
		// update events: a whole-record store, or (the builder's direct spelling of `best = T{x, y}`) one store per field
		// in the same block
		type event struct {
			at        ssa.Instruction
			cnt, posv ssa.Value
		}
		var events []event
		perBlock := map[*ssa.BasicBlock]*event{}
		for _, ref := range *best.Referrers() {
			switch x := ref.(type) {
			case *ssa.FieldAddr:
				for _, r2 := range *x.Referrers() {
					st, ok := r2.(*ssa.Store)
					if !ok || st.Addr != ssa.Value(x) {
						continue
					}
					ev := perBlock[st.Block()]
					if ev == nil {
						ev = &event{at: st}
						perBlock[st.Block()] = ev
					}
					if x.Field == ci {
						ev.cnt = st.Val
					}
					if x.Field == pi {
						ev.posv = st.Val
					}
				}
			case *ssa.Store:
				if x.Addr != ssa.Value(best) {
					continue
				}
				ev := event{at: x}
				if ld, ok := x.Val.(*ssa.UnOp); ok && ld.Op == token.MUL {
					if lit, ok := ld.X.(*ssa.Alloc); ok {
						for _, lr := range *lit.Referrers() {
							fa, ok := lr.(*ssa.FieldAddr)
							if !ok {
								continue
							}
							for _, r3 := range *fa.Referrers() {
								if st, ok := r3.(*ssa.Store); ok && st.Addr == ssa.Value(fa) {
									if fa.Field == ci {
										ev.cnt = st.Val
									}
									if fa.Field == pi {
										ev.posv = st.Val
									}
								}
							}
						}
					}
				}
				events = append(events, ev)
			}
		}
		for _, ev := range perBlock {
			events = append(events, *ev)
		}
		for _, ev := range events {
			nUpd++
			if ev.cnt == nil || ev.posv == nil {
				bad = append(bad, "the best-so-far record is not replaced as a whole at "+m.Pos(ev.at.Pos())+" (count and positions no longer belong together)")
				continue
			}
			pv := ev.posv
			if ct, ok := pv.(*ssa.ChangeType); ok {
				pv = ct.X
			}
			isCloneCall := func(v ssa.Value) bool {
				call, ok := v.(*ssa.Call)
				if !ok || call.Call.StaticCallee() == nil {
					return false
				}
				c := call.Call.StaticCallee()
				if c.Origin() != nil {
					c = c.Origin()
				}
				return c.Name() == "Clone"
			}
			if !isCloneCall(pv) {
				bad = append(bad, "the positions stored at "+m.Pos(ev.at.Pos())+" are not a fresh copy (Clone): "+pv.String())
			}
			if len(loopsContaining(loops, ev.at.Block())) == 0 {
				continue // the initial record, before the sweeps
			}
			improved := false
			for _, d := range iterationControlDeps(ev.at.Block(), loops) {
				bo, ok := d.If.Cond.(*ssa.BinOp)
				if !ok {
					continue
				}
				isBestCount := func(v ssa.Value) bool {
					u, ok := v.(*ssa.UnOp)
					if !ok || u.Op != token.MUL {
						return false
					}
					fa, ok := u.X.(*ssa.FieldAddr)
					return ok && fa.X == ssa.Value(best) && fa.Field == ci
				}
				if (bo.Op == token.LSS && bo.X == ev.cnt && isBestCount(bo.Y) && d.Branch == 0) || (bo.Op == token.GTR && bo.Y == ev.cnt && isBestCount(bo.X) && d.Branch == 0) {
					improved = true
				}
			}
			if !improved {
				bad = append(bad, "the record is replaced at "+m.Pos(ev.at.Pos())+" without the new count being strictly smaller than the best so far")
			}
		}
		if nUpd < 2 {
			bad = append(bad, "no improvement step found")
		}
	}
	if len(bad) == 0 {
		r.holds(rkey, rpos, "the best-so-far record is only replaced as a whole, by {new count, fresh copy of the positions}, and only when the new count is strictly smaller")
	} else {
		r.violation(rkey, rpos, "count and positions of the best order must be updated together, on strict improvement only", strings.Join(uniq(bad), "; "))
	}
	// caller
	for _, f := range m.Src {
		sites := staticCalls(f, func(c *ssa.Function) bool { return c == run })
		if len(sites) < 2 {
			continue
		}
		ctl := m.FuncIsPosctl(f)
		pos := m.Pos(f.Pos())
		key := "select:" + funcKey(f)
		// the run results: the call values themselves (records are SSA values), or local variables they are stored into
		runVal := map[ssa.Value]bool{}
		for _, sc := range sites {
			v := sc.Value()
			if v == nil || v.Referrers() == nil {
				continue
			}
			runVal[v] = true
		}
		src := func(v ssa.Value) ssa.Value {
			// the run result that v denotes: the call value, or a load of a variable holding only that call value
			if runVal[v] {
				return v
			}
			if ld, ok := v.(*ssa.UnOp); ok && ld.Op == token.MUL {
				if al, ok := ld.X.(*ssa.Alloc); ok {
					var only ssa.Value
					n := 0
					for _, ref := range *al.Referrers() {
						if st, ok := ref.(*ssa.Store); ok && st.Addr == ssa.Value(al) {
							n++
							only = st.Val
						}
					}
					if n == 1 && runVal[only] {
						return only
					}
				}
			}
			return nil
		}
		// the selected record: a variable that receives run results
		var sel *ssa.Alloc
		var selStores []*ssa.Store
		eachInstr(f, func(in ssa.Instruction) {
			st, ok := in.(*ssa.Store)
			if !ok {
				return
			}
			al, ok := st.Addr.(*ssa.Alloc)
			if !ok || src(st.Val) == nil {
				return
			}
			// a variable that holds a single run result is not the selection
			n := 0
			for _, ref := range *al.Referrers() {
				if s2, ok := ref.(*ssa.Store); ok && s2.Addr == ssa.Value(al) {
					n++
				}
			}
			if n < 2 {
				return
			}
			if sel == nil || sel == al {
				sel = al
				selStores = append(selStores, st)
			}
		})
		countOf := func(v ssa.Value) ssa.Value {
			// the run result whose count v is: <run>.crossings, or a run record itself
			if fl, ok := v.(*ssa.Field); ok && fl.Field == ci {
				return src(fl.X)
			}
			if u, ok := v.(*ssa.UnOp); ok && u.Op == token.MUL {
				if fa, ok := u.X.(*ssa.FieldAddr); ok && fa.Field == ci {
					if al, ok := fa.X.(*ssa.Alloc); ok {
						// load of the variable's field: same as loading the variable
						for _, ref := range *al.Referrers() {
							if ld, ok := ref.(*ssa.UnOp); ok && ld.Op == token.MUL && ld.X == ssa.Value(al) {
								if r0 := src(ld); r0 != nil {
									return r0
								}
							}
						}
						var only ssa.Value
						n := 0
						for _, ref := range *al.Referrers() {
							if st, ok := ref.(*ssa.Store); ok && st.Addr == ssa.Value(al) {
								n++
								only = st.Val
							}
						}
						if n == 1 && runVal[only] {
							return only
						}
					}
				}
			}
			return src(v)
		}
		okSel := sel != nil && len(selStores) == 2 && len(runVal) == 2
		why := "no record variable that receives one of the two run results was found"
		if okSel {
			// the default (unconditional) store and the conditional one
			for _, st := range selStores {
				sv := src(st.Val)
				deps := transitiveControlDeps(st.Block())
				isDefault := false
				for _, other := range selStores {
					if other != st && instrDominates(st, other) {
						isDefault = true // the default choice, overwritten under the comparison
					}
				}
				if isDefault {
					continue
				}
				good := false
				for _, d := range deps {
					var a, b ssa.Value
					strict := false
					switch c := d.If.Cond.(type) {
					case *ssa.BinOp:
						if c.Op == token.LSS || c.Op == token.LEQ {
							a, b = countOf(c.X), countOf(c.Y)
							strict = true
						} else if c.Op == token.GTR || c.Op == token.GEQ {
							a, b = countOf(c.Y), countOf(c.X)
							strict = true
						}
					case *ssa.Call:
						// one-line accessor: recv.count < other.count
						cal := c.Call.StaticCallee()
						if cal != nil && len(cal.Blocks) == 1 && len(c.Call.Args) == 2 && len(cal.Params) == 2 {
							if ret, ok := cal.Blocks[0].Instrs[len(cal.Blocks[0].Instrs)-1].(*ssa.Return); ok && len(ret.Results) == 1 {
								if bo, ok := ret.Results[0].(*ssa.BinOp); ok && (bo.Op == token.LSS || bo.Op == token.LEQ) {
									fieldOfParam := func(v ssa.Value) int {
										if fl, ok := v.(*ssa.Field); ok && fl.Field == ci {
											for i, p := range cal.Params {
												if fl.X == ssa.Value(p) {
													return i
												}
											}
										}
										if u, ok := v.(*ssa.UnOp); ok && u.Op == token.MUL {
											if fa, ok := u.X.(*ssa.FieldAddr); ok && fa.Field == ci {
												// a spilled value parameter
												if al, ok := fa.X.(*ssa.Alloc); ok {
													for _, ref := range *al.Referrers() {
														if st, ok := ref.(*ssa.Store); ok && st.Addr == ssa.Value(al) {
															for i, p := range cal.Params {
																if st.Val == ssa.Value(p) {
																	return i
																}
															}
														}
													}
												}
												for i, p := range cal.Params {
													if fa.X == ssa.Value(p) {
														return i
													}
												}
											}
										}
										return -1
									}
									i, j := fieldOfParam(bo.X), fieldOfParam(bo.Y)
									if i >= 0 && j >= 0 {
										a, b = countOf(c.Call.Args[i]), countOf(c.Call.Args[j])
										strict = true
									}
								}
							}
						}
					}
					// a < b (or <=) holds on branch 0: the store must take a; on branch 1 it must take b
					if strict && a != nil && b != nil && a != b {
						if (d.Branch == 0 && sv == a) || (d.Branch == 1 && sv == b) {
							good = true
						}
					}
				}
				if !good {
					okSel = false
					why = "the run stored at " + m.Pos(st.Pos()) + " is not selected because its count is the smaller one"
				}
			}
		}
		if okSel {
			r.add(Obligation{Key: key, Pos: pos, Desc: "one record (count and positions together) is selected from the two runs, the one with fewer crossings", Verdict: "holds", Control: ctl})
		} else {
			r.add(Obligation{Key: key, Pos: pos, Desc: "count and positions must come from the same, better run", Verdict: "violation", Detail: why, Control: ctl})
			continue
		}
		// no bypass: the run results are only used by the selection and by its comparison
		bypass := ""
		var checkUses func(v ssa.Value, depth int)
		checkUses = func(v ssa.Value, depth int) {
			if v.Referrers() == nil || depth > 3 {
				return
			}
			for _, ref := range *v.Referrers() {
				switch x := ref.(type) {
				case *ssa.DebugRef:
				case *ssa.Store:
					if al, ok := x.Addr.(*ssa.Alloc); ok && x.Val == v {
						if al == sel {
							continue
						}
						// a variable holding this run result: its uses count as uses of the result
						for _, r2 := range *al.Referrers() {
							switch y := r2.(type) {
							case *ssa.UnOp:
								checkUses(y, depth+1)
							case *ssa.FieldAddr:
								if y.Field != ci {
									bypass = "the positions of one run are read directly at " + m.Pos(y.Pos())
								}
							}
						}
						continue
					}
					bypass = "a run result is stored away at " + m.Pos(x.Pos())
				case *ssa.Field:
					if x.Field != ci {
						bypass = "the positions of one run are read directly at " + m.Pos(x.Pos())
					}
				case ssa.CallInstruction, *ssa.BinOp:
				default:
					bypass = fmt.Sprintf("a run result is used by %T at %s", ref, m.Pos(ref.Pos()))
				}
			}
		}
		for v := range runVal {
			checkUses(v, 0)
		}
		if bypass == "" {
			r.add(Obligation{Key: key + ":no-bypass", Pos: pos, Desc: "every seeded run takes part in the selection", Verdict: "holds", Control: ctl})
		} else {
			r.add(Obligation{Key: key + ":no-bypass", Pos: pos, Desc: "every seeded run must take part in the selection", Verdict: "violation", Detail: bypass, Control: ctl})
		}
		// logged value and restored map come from the selected record
		isSelField := func(v ssa.Value, field int) bool {
			u, ok := v.(*ssa.UnOp)
			if !ok || u.Op != token.MUL {
				return false
			}
			fa, ok := u.X.(*ssa.FieldAddr)
			return ok && fa.X == ssa.Value(sel) && fa.Field == field
		}
		logged, strayLog := false, ""
		var restoreAt ssa.Instruction
		restored, strayRestore := false, ""
		eachInstr(f, func(in ssa.Instruction) {
			switch x := in.(type) {
			case ssa.CallInstruction:
				c := x.Common().StaticCallee()
				if c != nil && c.Name() == "Log" && strings.HasSuffix(pkgPathOf(c), "/internal/monitor") {
					if k, ok := x.Common().Args[0].(*ssa.Const); ok && k.Value != nil && k.Value.String() == `"crossings"` {
						if mi, ok := x.Common().Args[1].(*ssa.MakeInterface); ok && isSelField(mi.X, ci) {
							logged = true
						} else {
							strayLog = m.Pos(in.Pos())
						}
					}
					return
				}
				// a helper of the package that restores LayerPos from its map parameter
				if c != nil && pkgPathOf(c) == pkgPathOf(f) && c != run && m.effects[c] != nil && m.effects[c].Mod[igNode+".LayerPos"] {
					okArg := false
					for i, a := range x.Common().Args {
						if isSelField(a, pi) && i < len(c.Params) {
							// in the helper every store of LayerPos is a lookup in that parameter
							all, n := true, 0
							eachInstr(c, func(in2 ssa.Instruction) {
								if st, ok := in2.(*ssa.Store); ok {
									if fa, ok := st.Addr.(*ssa.FieldAddr); ok {
										_, steps := fieldChain(fa)
										if locOfSteps(steps) == igNode+".LayerPos" {
											n++
											if lk, ok := st.Val.(*ssa.Lookup); !ok || lk.X != ssa.Value(c.Params[i]) {
												all = false
											}
										}
									}
								}
							})
							okArg = all && n > 0
						}
					}
					if okArg {
						restored = true
						restoreAt = in
					} else if instrReaches(sites[len(sites)-1], in) {
						strayRestore = funcKey(c) + " at " + m.Pos(in.Pos())
					}
				}
			case *ssa.Store:
				if fa, ok := x.Addr.(*ssa.FieldAddr); ok {
					_, steps := fieldChain(fa)
					if locOfSteps(steps) == igNode+".LayerPos" {
						if lk, ok := x.Val.(*ssa.Lookup); ok && isSelField(lk.X, pi) {
							restored = true
							restoreAt = in
						} else {
							strayRestore = m.Pos(in.Pos())
						}
					}
				}
			}
		})
		if logged && strayLog == "" {
			r.add(Obligation{Key: key + ":logged", Pos: pos, Desc: "the count logged under \"crossings\" is the selected record's count", Verdict: "holds", Control: ctl})
		} else {
			r.add(Obligation{Key: key + ":logged", Pos: pos, Desc: "the count logged under \"crossings\" must be the selected count", Verdict: "violation", Detail: "a Log(\"crossings\", ...) does not receive the selected record's count " + strayLog, Control: ctl})
		}
		if restored && strayRestore == "" {
			r.add(Obligation{Key: key + ":restored", Pos: pos, Desc: "Node.LayerPos is restored from the selected record's positions", Verdict: "holds", Control: ctl})
		} else {
			r.add(Obligation{Key: key + ":restored", Pos: pos, Desc: "Node.LayerPos must be restored from the selected positions", Verdict: "violation", Detail: "order state is written from something other than the selected record's positions " + strayRestore, Control: ctl})
		}
		// final order: nothing re-orders after the restore
		if restoreAt != nil {
			after := map[*ssa.BasicBlock]bool{}
			for b := range blocksReachableFrom(restoreAt.Block()) {
				after[b] = true
			}
			var late []string
			eachInstr(f, func(in ssa.Instruction) {
				ci2, ok := in.(ssa.CallInstruction)
				if !ok || in == restoreAt {
					return
				}
				later := after[in.Block()] || (in.Block() == restoreAt.Block() && instrIndex(in) > instrIndex(restoreAt))
				if !later {
					return
				}
				for _, cal := range m.Callees(ci2) {
					if !inModule(cal) {
						continue
					}
					if e := m.effects[cal]; e != nil && (e.Mod[igNode+".LayerPos"] || e.Mod[igLayer+".Nodes[]"] || e.Mod[igLayer+".Nodes"]) {
						late = append(late, funcKey(cal)+" at "+m.Pos(in.Pos()))
					}
				}
			})
			if len(late) == 0 {
				r.add(Obligation{Key: key + ":final", Pos: pos, Desc: "after the best positions are restored nothing re-orders the layers", Verdict: "holds", Control: ctl})
			} else {
				r.add(Obligation{Key: key + ":final", Pos: pos, Desc: "the restored order must be the final order of the phase", Verdict: "violation", Detail: "order state is modified after the reported order was restored: " + strings.Join(uniq(late), "; "), Control: ctl})
			}
		}
	}
	return true
}

// selectsWithin: call is a module helper handed the window [low, high] that returns its lower-bound parameter or a counter that starts one
// above it and is bounded by its upper-bound parameter (the "least crowded layer in the window" scan extracted into a function).
func selectsWithin(call *ssa.Call, low, high ssa.Value) bool {
	c := call.Call.StaticCallee()
	if c == nil || !inModule(c) || len(c.Blocks) == 0 || c.Signature.Results().Len() != 1 {
		return false
	}
	var pl, ph *ssa.Parameter
	for i, a := range call.Call.Args {
		if i >= len(c.Params) {
			break
		}
		if a == low {
			pl = c.Params[i]
		}
		if a == high {
			ph = c.Params[i]
		}
	}
	if pl == nil || ph == nil {
		return false
	}
	ok, n := true, 0
	eachInstr(c, func(in ssa.Instruction) {
		ret, isRet := in.(*ssa.Return)
		if !isRet || len(ret.Results) != 1 {
			return
		}
		n++
		seen := map[ssa.Value]bool{}
		var walk func(x ssa.Value)
		walk = func(x ssa.Value) {
			if seen[x] {
				return
			}
			seen[x] = true
			switch y := x.(type) {
			case *ssa.Parameter:
				if y != pl {
					ok = false
				}
			case *ssa.Phi:
				isCtr := false
				for _, e := range y.Edges {
					if eb, isBin := e.(*ssa.BinOp); isBin && eb.Op == token.ADD && eb.X == ssa.Value(y) {
						isCtr = true
					}
				}
				if !isCtr {
					for _, e := range y.Edges {
						walk(e)
					}
					return
				}
				initOK, condOK := false, false
				for _, e := range y.Edges {
					if eb, isBin := e.(*ssa.BinOp); isBin && eb.Op == token.ADD && eb.X == ssa.Value(pl) {
						if k, isC := constInt(eb.Y); isC && k == 1 {
							initOK = true
						}
					}
				}
				if refs := y.Referrers(); refs != nil {
					for _, ref := range *refs {
						if bo, isBin := ref.(*ssa.BinOp); isBin && bo.Op == token.LEQ && bo.X == ssa.Value(y) && bo.Y == ssa.Value(ph) {
							condOK = true
						}
					}
				}
				if !initOK || !condOK {
					ok = false
				}
			default:
				ok = false
			}
		}
		walk(ret.Results[0])
	})
	return ok && n > 0
}
