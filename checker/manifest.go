package main

import (
	"bufio"
	"encoding/json"
	"fmt"
	"os"
	"path/filepath"
	"sort"
	"strings"
)

// reasons for properties that are not claimed (kept current with props.go)
var naReasons = map[string]string{}

func writeManifest(verifDir string) error {
	f, err := os.Open(filepath.Join(verifDir, "properties.jsonl"))
	if err != nil {
		return err
	}
	defer f.Close()
	var ids []string
	sc := bufio.NewScanner(f)
	sc.Buffer(make([]byte, 1<<20), 1<<20)
	for sc.Scan() {
		var p struct {
			ID string `json:"id"`
		}
		if json.Unmarshal(sc.Bytes(), &p) == nil && p.ID != "" {
			ids = append(ids, p.ID)
		}
	}
	sort.Strings(ids)
	env := "cd /verif/checker && GOFLAGS=-mod=mod GOPROXY=off GOSUMDB=off GOTOOLCHAIN=local GOWORK=off go build -o /verif/bin/autogverif ."
	man := map[string]any{
		"version":   1,
		"setup_cmd": env,
		"hooks": map[string]any{
			"guard":            "verif",
			"enable":           "none needed: static analysis reads /repo's working tree through go/packages; no instrumentation is compiled into nulab/autog",
			"baseline_off_cmd": "cd /repo && GOFLAGS=-mod=mod GOPROXY=off GOSUMDB=off go test -vet=off -count=1 ./...",
			"source_commits":   []string{},
			"add_only":         true,
		},
		"engines": []map[string]any{
			{"name": "autogverif", "path": "/verif/checker", "serves_properties": claimedIDs(), "kind_free_text": "repository-specific static analyser: go/packages + go/types + go/ssa + VTA call graph; typed-AST classifiers, SSA dataflow/dominance/control-dependence rules, effect summaries, symbolic affine executor, dimension inference"},
		},
		"notes": "Every check is `./run.sh <id> <tier>`: it (re)builds the checker if needed, loads /repo's current working tree, evaluates the property's rules, prints VIOLATION / KNOWN-FINDING lines and rewrites evidence/<id>.json. Nothing from nulab/autog is executed. Genuine defects found by the rules were repaired by `fix:` commits in /repo and are listed as `fixed:` in known_findings.txt.",
	}
	var checks []map[string]any
	na := []map[string]any{}
	for _, id := range ids {
		p := properties[id]
		if p == nil {
			reason := naReasons[id]
			if reason == "" {
				reason = "no static rule built for this property yet"
			}
			na = append(na, map[string]any{"property_id": id, "reason": reason})
			continue
		}
		checks = append(checks, map[string]any{
			"property_id":         id,
			"quick_cmd":           "./run.sh " + id + " quick",
			"thorough_cmd":        "./run.sh " + id + " thorough",
			"evidence_file":       "/verif/evidence/" + id + ".json",
			"replay_cmd_template": "./bin/autogverif explain -f {path}",
			"engine":              "autogverif",
			"level_claimed": map[string]any{
				"category":   "other",
				"text":       p.Kind + ": " + p.Explanation,
				"design_ref": "DESIGN.md §5 " + id,
			},
			"level_note": "Trusted base: go/types, go/ssa and the VTA call graph of x/tools v0.29.0, the rule implementations, the stdlib allow-list. Assumes: " + strings.Join(p.Assumptions, "; ") + ". Rules: " + strings.Join(p.Rules, ", ") + ".",
			"technique":  "static analysis: " + p.Technique(),
		})
	}
	man["checks"] = checks
	man["not_applicable"] = na
	b, _ := json.MarshalIndent(man, "", " ")
	return os.WriteFile(filepath.Join(verifDir, "MANIFEST.json"), append(b, '\n'), 0o644)
}

func claimedIDs() []string {
	var ids []string
	for id := range properties {
		ids = append(ids, id)
	}
	sort.Strings(ids)
	return ids
}

func (p *Property) Technique() string {
	if p.Tech != "" {
		return p.Tech
	}
	return fmt.Sprintf("%d repository-specific rules over typed AST / SSA / call graph", len(p.Rules))
}
