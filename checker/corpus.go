package main

// Thorough tier: re-analyse the committed corpus of seeded changes (must be reported) and behaviour-preserving patches (must stay
// silent) against the property's rules. Each patch is applied to a scratch COPY of /repo's current working tree (outside /repo and
// /verif, removed afterwards). Informational: recorded in the evidence, never changes the exit code.

import (
	"encoding/json"
	"os"
	"os/exec"
	"path/filepath"
	"sort"
	"strings"
	"sync"
)

type corpusResult struct {
	Name     string   `json:"name"`
	Kind     string   `json:"kind"`   // seeded | benign
	Status   string   `json:"status"` // reported | missed | silent | false-alarm | patch-does-not-apply | error
	Reported []string `json:"reported,omitempty"`
}

func copyTree(src, dst string) error {
	return filepath.Walk(src, func(p string, info os.FileInfo, err error) error {
		if err != nil {
			return err
		}
		rel, _ := filepath.Rel(src, p)
		if rel == ".git" || strings.HasPrefix(rel, ".git"+string(filepath.Separator)) {
			if info.IsDir() {
				return filepath.SkipDir
			}
			return nil
		}
		t := filepath.Join(dst, rel)
		if info.IsDir() {
			return os.MkdirAll(t, 0o755)
		}
		b, err := os.ReadFile(p)
		if err != nil {
			return err
		}
		return os.WriteFile(t, b, 0o644)
	})
}

// corpusOne is run in a sub-process: applies the patch to a scratch copy and runs the given rules.
func corpusOne(verifDir, repoDir, patch, kind string, ruleIDs []string) corpusResult {
	res := corpusResult{Name: strings.TrimSuffix(filepath.Base(filepath.Dir(patch)), "/"), Kind: kind}
	if kind == "benign" {
		res.Name = strings.TrimSuffix(filepath.Base(patch), ".diff")
	}
	tmp, err := os.MkdirTemp("", "autogverif-corpus-")
	if err != nil {
		res.Status = "error"
		return res
	}
	defer os.RemoveAll(tmp)
	if err := copyTree(repoDir, tmp); err != nil {
		res.Status = "error"
		return res
	}
	cmd := exec.Command("git", "apply", "--whitespace=nowarn", patch)
	cmd.Dir = tmp
	if err := cmd.Run(); err != nil {
		res.Status = "patch-does-not-apply"
		return res
	}
	m, err := Load(LoadOpts{RepoDir: tmp})
	if err != nil {
		res.Status = "error"
		res.Reported = []string{err.Error()}
		return res
	}
	known, _ := readKnown(filepath.Join(verifDir, "known_findings.txt"))
	for _, rid := range ruleIDs {
		r := rules[rid]
		if r == nil {
			continue
		}
		rr := &RuleResult{Rule: rid}
		func() {
			defer func() {
				if p := recover(); p != nil {
					rr.undecided("checker-panic", "-", "panic", "")
				}
			}()
			r.Run(m, rr)
		}()
		real := 0
		for _, o := range rr.Obligations {
			if o.Control || strings.Contains(o.Key, "zzVerifPosctl") {
				continue
			}
			real++
			if o.Verdict != "holds" {
				// a recorded known finding is not news on a patched copy of the tree either
				isKnown := false
				for _, k := range known {
					if k.Kind == "known" && k.Rule == rid && k.Key == o.Key {
						isKnown = true
					}
				}
				if !isKnown {
					res.Reported = append(res.Reported, rid+"["+o.Key+"]")
				}
			}
		}
		if real < r.Floor {
			res.Reported = append(res.Reported, rid+"[anchor-floor]")
		}
	}
	sort.Strings(res.Reported)
	switch {
	case kind == "seeded" && len(res.Reported) > 0:
		res.Status = "reported"
	case kind == "seeded":
		res.Status = "missed"
	case len(res.Reported) > 0:
		res.Status = "false-alarm"
	default:
		res.Status = "silent"
	}
	return res
}

func corpusAll(verifDir, repoDir string, prop *Property) map[string]any {
	type job struct{ patch, kind string }
	var jobs []job
	dirs, _ := filepath.Glob(filepath.Join(verifDir, "seeded", "*", "meta.json"))
	sort.Strings(dirs)
	for _, mf := range dirs {
		b, err := os.ReadFile(mf)
		if err != nil {
			continue
		}
		var meta struct {
			Breaks string `json:"breaks_property"`
		}
		if json.Unmarshal(b, &meta) != nil || meta.Breaks != prop.ID {
			continue
		}
		jobs = append(jobs, job{filepath.Join(filepath.Dir(mf), "patch.diff"), "seeded"})
	}
	bens, _ := filepath.Glob(filepath.Join(verifDir, "benign", "*.diff"))
	sort.Strings(bens)
	for _, b := range bens {
		jobs = append(jobs, job{b, "benign"})
	}
	out := make([]corpusResult, len(jobs))
	exe, _ := os.Executable()
	var wg sync.WaitGroup
	sem := make(chan struct{}, 8)
	for i, j := range jobs {
		wg.Add(1)
		sem <- struct{}{}
		go func(i int, j job) {
			defer wg.Done()
			defer func() { <-sem }()
			cmd := exec.Command(exe, "corpus-one", "-f", j.patch, "-name", j.kind, "-r", strings.Join(prop.Rules, ","), "-repo", repoDir, "-verif", verifDir)
			b, err := cmd.Output()
			var r corpusResult
			if err != nil || json.Unmarshal(b, &r) != nil {
				r = corpusResult{Name: j.patch, Kind: j.kind, Status: "error"}
			}
			out[i] = r
		}(i, j)
	}
	wg.Wait()
	cnt := map[string]int{}
	var problems []string
	for _, r := range out {
		cnt[r.Kind+":"+r.Status]++
		if r.Status == "missed" || r.Status == "false-alarm" || r.Status == "error" {
			problems = append(problems, r.Name+": "+r.Status+" "+strings.Join(r.Reported, ","))
		}
	}
	return map[string]any{"entries": len(out), "counts": cnt, "problems": problems, "results": out,
		"note": "seeded changes written against this property must be reported by its rules; behaviour-preserving patches must stay silent; a patch that no longer applies to the current tree is skipped"}
}
