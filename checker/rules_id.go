package main

// Engine E2 (taint): ID-1 — node identifiers are opaque.

import (
	"fmt"
	"go/token"
	"go/types"
	"sort"
	"strings"

	"golang.org/x/tools/go/ssa"
)

func init() {
	register(&Rule{
		ID: "ID-1",
		Doc: "parametricity of node IDs: every value derived from a node identifier (loads of ig.Node.ID, graph.Node.ID, graph.Edge.FromID/ToID, strings read from the EdgeSlice; propagated through phi, concatenation, boxing, calls/returns, closures, local cells and any field it is stored in) " +
			"is only copied into another ID field, concatenated, logged (monitor.Log, fmt inside String/SVG, strings.Builder), used as lookup key of the caller's own map captured by an exported option constructor, or as key of the de-duplication map local to a Source.Populate implementation; " +
			"comparison, switch, any other map key, indexing, slicing, len, range, conversion to bytes/runes and any other library call are violations",
		Floor: 12,
		Ctl:   []string{"internal__phase3__id1.go.txt"},
		Run:   runID1,
	})
}

var idFieldLocs = map[string]bool{
	igNode + ".ID": true, pubNode + ".ID": true, pubEdge + ".FromID": true, pubEdge + ".ToID": true,
}

func runID1(m *Model, r *RuleResult) {
	tainted := map[ssa.Value]bool{}
	taintedFields := map[string]bool{}
	taintedCells := map[ssa.Value]bool{}
	var work []ssa.Value
	add := func(v ssa.Value) {
		if v != nil && !tainted[v] {
			tainted[v] = true
			work = append(work, v)
		}
	}
	isIDLoc := func(l string) bool { return idFieldLocs[l] || taintedFields[l] }

	// callers index (VTA + static)
	callers := map[*ssa.Function][]ssa.CallInstruction{}
	for _, f := range m.Funcs {
		eachInstr(f, func(in ssa.Instruction) {
			if ci, ok := in.(ssa.CallInstruction); ok {
				for _, c := range m.Callees(ci) {
					callers[c] = append(callers[c], ci)
				}
			}
		})
	}

	seed := func() {
		for _, f := range m.Funcs {
			pub := shortPkg(pkgPathOf(f)) == "graph"
			eachInstr(f, func(in ssa.Instruction) {
				switch x := in.(type) {
				case *ssa.UnOp:
					if x.Op != token.MUL {
						return
					}
					switch a := x.X.(type) {
					case *ssa.FieldAddr:
						_, steps := fieldChain(a)
						if isIDLoc(locOfSteps(steps)) {
							add(x)
						}
					case *ssa.IndexAddr:
						// strings read from the caller's edge list inside package graph
						if pub {
							if b, ok := x.Type().Underlying().(*types.Basic); ok && b.Kind() == types.String {
								add(x)
							}
						}
					}
				case *ssa.Field:
					_, steps := fieldChain(x)
					if isIDLoc(locOfSteps(steps)) {
						add(x)
					}
				}
			})
		}
	}
	seed()

	type finding struct {
		key, pos, msg string
		ctl           bool
	}
	findings := map[string]finding{}
	allowed := map[string]int{}
	skipped := map[string]bool{}
	lreach := m.LayoutReach()
	report := func(in ssa.Instruction, what, msg string) {
		fn := in.Parent()
		if !lreach[fn] && !m.FuncIsPosctl(fn) {
			// not part of any Layout run (a query helper on the result type, a conversion utility): outside the property
			skipped[funcKey(fn)] = true
			return
		}
		k := "id-use:" + funcKey(fn) + ":" + what
		if _, ok := findings[k]; !ok {
			findings[k] = finding{k, m.Pos(in.Pos()), msg, m.FuncIsPosctl(fn)}
		}
	}
	allow := func(in ssa.Instruction, what string) {
		allowed[funcKey(in.Parent())+":"+what]++
	}

	var taintCell func(cell ssa.Value)
	taintCell = func(cell ssa.Value) {
		if taintedCells[cell] || cell.Referrers() == nil {
			return
		}
		taintedCells[cell] = true
		for _, ref := range *cell.Referrers() {
			switch y := ref.(type) {
			case *ssa.UnOp:
				if y.Op == token.MUL {
					add(y)
				}
			case *ssa.MakeClosure:
				fn := y.Fn.(*ssa.Function)
				for i, b := range y.Bindings {
					if b == cell {
						taintCell(fn.FreeVars[i])
					}
				}
			}
		}
	}

	// isLocalDedupMap: a map created in this function family (the function or the closures nested in it, sharing the
	// variable's cell) and used only through lookups/updates/len (never ranged, never escaping)
	var mapOnlyKeyed func(v ssa.Value, depth int) bool
	var cellOnlyKeyed func(cell ssa.Value, depth int) bool
	mapOnlyKeyed = func(v ssa.Value, depth int) bool {
		if v.Referrers() == nil || depth > 6 {
			return false
		}
		for _, ref := range *v.Referrers() {
			switch y := ref.(type) {
			case *ssa.Lookup, *ssa.MapUpdate, *ssa.DebugRef:
			case *ssa.Store:
				if y.Val != v || !cellOnlyKeyed(y.Addr, depth+1) {
					return false
				}
			case ssa.CallInstruction:
				if b, ok := y.Common().Value.(*ssa.Builtin); !ok || b.Name() != "len" {
					return false
				}
			default:
				return false
			}
		}
		return true
	}
	cellSeen := map[ssa.Value]bool{}
	cellOnlyKeyed = func(cell ssa.Value, depth int) bool {
		if depth > 6 {
			return false
		}
		switch cell.(type) {
		case *ssa.Alloc, *ssa.FreeVar:
		default:
			return false
		}
		if cellSeen[cell] {
			return true
		}
		cellSeen[cell] = true
		defer delete(cellSeen, cell)
		if cell.Referrers() == nil {
			return false
		}
		for _, ref := range *cell.Referrers() {
			switch y := ref.(type) {
			case *ssa.DebugRef:
			case *ssa.Store:
				if y.Addr != cell {
					return false
				}
				if _, isMk := y.Val.(*ssa.MakeMap); !isMk || !mapOnlyKeyed(y.Val, depth+1) {
					return false
				}
			case *ssa.UnOp:
				if y.Op != token.MUL || !mapOnlyKeyed(y, depth+1) {
					return false
				}
			case *ssa.MakeClosure:
				fn := y.Fn.(*ssa.Function)
				for i, b := range y.Bindings {
					if b == cell && !cellOnlyKeyed(fn.FreeVars[i], depth+1) {
						return false
					}
				}
			default:
				return false
			}
		}
		return true
	}
	isLocalDedupMap := func(mv ssa.Value) bool {
		switch x := mv.(type) {
		case *ssa.MakeMap:
			return mapOnlyKeyed(x, 0)
		case *ssa.UnOp:
			if x.Op != token.MUL {
				return false
			}
			switch cell := x.X.(type) {
			case *ssa.Alloc:
				return cellOnlyKeyed(cell, 0)
			case *ssa.FreeVar:
				// the cell in the enclosing function that this free variable is bound to
				fn := cell.Parent()
				idx := -1
				for i, fv := range fn.FreeVars {
					if fv == cell {
						idx = i
					}
				}
				ok := false
				if outer := fn.Parent(); outer != nil && idx >= 0 {
					eachInstr(outer, func(in ssa.Instruction) {
						if mc, isMC := in.(*ssa.MakeClosure); isMC && mc.Fn == fn && idx < len(mc.Bindings) {
							ok = cellOnlyKeyed(mc.Bindings[idx], 0)
						}
					})
				}
				return ok
			}
		}
		return false
	}
	// inPopulate: the instruction belongs to a Source.Populate implementation or to a closure nested in one
	inPopulate := func(in ssa.Instruction) bool {
		f := in.Parent()
		for f.Parent() != nil {
			f = f.Parent()
		}
		return f.Name() == "Populate" && f.Signature.Recv() != nil
	}
	// isCallerOwnMap: the map is a free variable (or a cell) bound from a parameter of an exported constructor of package autog
	var isCallerOwnMap func(mv ssa.Value, depth int) bool
	isCallerOwnMap = func(mv ssa.Value, depth int) bool {
		if depth > 10 {
			return false
		}
		switch x := mv.(type) {
		case *ssa.Parameter:
			fn := x.Parent()
			// the receiver of a Source.Populate implementation is the caller's own data, too
			if fn.Parent() == nil && fn.Name() == "Populate" && fn.Signature.Recv() != nil && len(fn.Params) > 0 && fn.Params[0] == x && shortPkg(pkgPathOf(fn)) == "graph" {
				return true
			}
			if fn.Parent() == nil && fn.Object() != nil && fn.Object().Exported() && pkgPathOf(fn) == modPath {
				return true
			}
			// a parameter of an unexported helper of package autog: the caller's own map when every call site passes one
			if fn.Parent() == nil && pkgPathOf(fn) == modPath && fn.Object() != nil && !fn.Object().Exported() {
				pi := paramIndex(fn, x)
				n, all := 0, true
				for _, g := range m.Src {
					if pkgPathOf(g) != modPath {
						continue
					}
					for _, cs := range staticCalls(g, func(c *ssa.Function) bool { return c == fn }) {
						n++
						if pi < 0 || pi >= len(cs.Common().Args) || !isCallerOwnMap(cs.Common().Args[pi], depth+1) {
							all = false
						}
					}
				}
				return n > 0 && all
			}
			return false
		case *ssa.FreeVar:
			fn := x.Parent()
			idx := -1
			for i, fv := range fn.FreeVars {
				if fv == x {
					idx = i
				}
			}
			outer := fn.Parent()
			ok := false
			eachInstr(outer, func(in ssa.Instruction) {
				if mc, isMC := in.(*ssa.MakeClosure); isMC && mc.Fn == fn && idx < len(mc.Bindings) {
					if isCallerOwnMap(mc.Bindings[idx], depth+1) {
						ok = true
					}
				}
			})
			return ok
		case *ssa.UnOp:
			if x.Op == token.MUL {
				return isCallerOwnMap(x.X, depth+1)
			}
		case *ssa.Alloc:
			// captured variable cell: every store into it must be a caller-own map
			n := 0
			for _, ref := range *x.Referrers() {
				if st, ok := ref.(*ssa.Store); ok && st.Addr == x {
					n++
					if !isCallerOwnMap(st.Val, depth+1) {
						return false
					}
				}
			}
			return n > 0
		}
		return false
	}

	sinkCallOK := func(c *ssa.CallCommon, site ssa.Instruction) (ok bool, taintResult bool) {
		if cal := c.StaticCallee(); cal != nil {
			pp := pkgPathOf(cal)
			if pp == modPath+"/internal/monitor" && cal.Name() == "Log" {
				return true, false
			}
			_, full := extFuncName(cal)
			switch {
			case strings.HasPrefix(full, "fmt."):
				n := site.Parent().Name()
				if n == "String" || n == "SVG" {
					return true, true
				}
				// the text of a panic message, built with fmt.Sprintf / Errorf: a diagnostic (benign AA4: assertion helpers)
				if ci, isCI := site.(ssa.CallInstruction); isCI && onlyFeedsPanic(ci.Value()) {
					return true, false
				}
				return false, false
			case strings.HasPrefix(full, "(*strings.Builder).Write"):
				return true, false
			}
		}
		return false, false
	}

	for len(work) > 0 {
		v := work[len(work)-1]
		work = work[:len(work)-1]
		refs := v.Referrers()
		if refs == nil {
			continue
		}
		for _, ref := range *refs {
			switch in := ref.(type) {
			case *ssa.DebugRef:
			case *ssa.BinOp:
				if in.Op == token.ADD {
					add(in)
					allow(in, "concat")
				} else {
					report(in, "compare("+in.Op.String()+")", "an identifier is compared ("+in.Op.String()+"): a decision depends on the name of a node")
				}
			case *ssa.Phi:
				add(in)
			case *ssa.ChangeType:
				add(in)
			case *ssa.MakeInterface:
				add(in)
			case *ssa.ChangeInterface:
				add(in)
			case *ssa.TypeAssert:
				add(in)
			case *ssa.Extract:
				add(in)
			case *ssa.Convert:
				report(in, "convert", "an identifier is converted to "+in.Type().String()+" (its bytes/runes become data)")
			case *ssa.Store:
				if in.Val != v {
					continue
				}
				switch a := in.Addr.(type) {
				case *ssa.FieldAddr:
					_, steps := fieldChain(a)
					loc := locOfSteps(steps)
					if idFieldLocs[loc] {
						allow(in, "copy-to-"+loc)
						continue
					}
					if !taintedFields[loc] {
						taintedFields[loc] = true
						seed()
					}
				case *ssa.Alloc:
					taintCell(a)
				case *ssa.IndexAddr:
					// variadic packing: element of a fresh array whose slice is passed to exactly one call
					if arr, ok := a.X.(*ssa.Alloc); ok {
						okAll := true
						n := 0
						for _, r2 := range *arr.Referrers() {
							if sl, ok := r2.(*ssa.Slice); ok {
								for _, r3 := range *sl.Referrers() {
									if ci, ok := r3.(ssa.CallInstruction); ok {
										n++
										good, tr := sinkCallOK(ci.Common(), ci)
										if !good {
											okAll = false
											report(ci, "vararg:"+calleeFullName(ci.Common()), "an identifier is passed (variadic) to "+calleeFullName(ci.Common()))
										} else {
											allow(in, "log")
											if tr && ci.Value() != nil {
												add(ci.Value())
											}
										}
									} else if _, ok := r3.(*ssa.DebugRef); !ok {
										okAll = false
									}
								}
							}
						}
						if okAll && n > 0 {
							continue
						}
						if n == 0 {
							report(in, "store-elem", "an identifier is stored into an array/slice element")
						}
						continue
					}
					report(in, "store-elem", "an identifier is stored into a slice element (escapes the copy-only discipline)")
				default:
					// store through a pointer (captured variable / result parameter)
					if fv, ok := in.Addr.(*ssa.FreeVar); ok {
						taintCell(fv)
						continue
					}
					report(in, "store-deref", fmt.Sprintf("an identifier is stored through %T", in.Addr))
				}
			case *ssa.MapUpdate:
				if in.Key == v {
					if isLocalDedupMap(in.Map) && inPopulate(in) {
						allow(in, "dedup-key")
						continue
					}
					if isSourceNodeTable(in.Map, in) {
						allow(in, "dedup-key")
						continue
					}
					report(in, "mapkey:"+in.Map.Type().String(), "an identifier is used as a map key (update): distinct nodes whose names collide with helper names are merged")
				} else if in.Value == v {
					report(in, "mapvalue", "an identifier is stored as a map value")
				}
			case *ssa.Lookup:
				if in.Index == v {
					if isLocalDedupMap(in.X) && inPopulate(in) {
						allow(in, "dedup-key")
						continue
					}
					if isSourceNodeTable(in.X, in) {
						allow(in, "dedup-key")
						continue
					}
					if isCallerOwnMap(in.X, 0) {
						allow(in, "caller-map-lookup")
						continue
					}
					report(in, "mapkey:"+in.X.Type().String(), "an identifier is used as a map key (lookup): distinct nodes whose names collide with helper names are confused")
				} else if in.X == v {
					report(in, "index", "an identifier is indexed")
				}
			case *ssa.Index, *ssa.IndexAddr, *ssa.Slice, *ssa.Range:
				report(in, "index", "an identifier is indexed, sliced or ranged")
			case *ssa.Return:
				for _, ci := range callers[in.Parent()] {
					if cv := ci.Value(); cv != nil {
						// multi-result: conservative, taint the tuple (Extract propagates)
						add(cv)
					}
				}
			case *ssa.MakeClosure:
				fn := in.Fn.(*ssa.Function)
				for i, b := range in.Bindings {
					if b == v {
						add(fn.FreeVars[i])
					}
				}
			case ssa.CallInstruction:
				com := in.Common()
				if bi, ok := com.Value.(*ssa.Builtin); ok {
					report(in, "builtin:"+bi.Name(), "builtin "+bi.Name()+" applied to an identifier")
					continue
				}
				if good, tr := sinkCallOK(com, in); good {
					allow(in, "log")
					if tr && in.Value() != nil {
						add(in.Value())
					}
					continue
				}
				cals := m.Callees(in)
				args := com.Args
				if com.IsInvoke() {
					args = append([]ssa.Value{com.Value}, args...)
				}
				bound := false
				for _, cal := range cals {
					if inModule(cal) && cal.Blocks != nil {
						for i, a := range args {
							if a == v && i < len(cal.Params) {
								add(cal.Params[i])
								bound = true
							}
						}
					} else {
						_, full := extFuncName(cal)
						report(in, "extcall:"+full, "an identifier is passed to library function "+full)
						bound = true
					}
				}
				if !bound {
					report(in, "dyncall", "an identifier is passed to an unresolved dynamic call")
				}
			case *ssa.Panic:
				// the text of a panic message: a diagnostic, like a log line (whether it panics does not depend on the name)
				allow(in, "panic-message")
			case *ssa.If:
				report(in, "branch", "an identifier-derived value is branched on")
			default:
				report(ref, fmt.Sprintf("use:%T", ref), fmt.Sprintf("unclassified use %T of an identifier", ref))
			}
		}
	}

	var keys []string
	for k := range allowed {
		keys = append(keys, k)
	}
	sort.Strings(keys)
	for _, k := range keys {
		r.add(Obligation{Key: "id-copy:" + k, Desc: fmt.Sprintf("identifier only copied/logged (%d site(s))", allowed[k]), Verdict: "holds", Control: strings.Contains(k, "zzVerifPosctl")})
	}
	keys = keys[:0]
	for k := range findings {
		keys = append(keys, k)
	}
	sort.Strings(keys)
	for _, k := range keys {
		f := findings[k]
		r.add(Obligation{Key: f.key, Pos: f.pos, Desc: "identifier used other than by copying", Verdict: "violation",
			Detail: f.msg + ": the layout is no longer equivariant under renaming of nodes", Control: f.ctl})
	}
	r.stat("tainted_values", len(tainted))
	r.stat("functions_in_a_layout_run", len(lreach))
	if len(skipped) > 0 {
		var sk []string
		for k := range skipped {
			sk = append(sk, k)
		}
		sort.Strings(sk)
		r.Notes = append(r.Notes, "identifier uses outside any Layout run, not judged: "+strings.Join(sk, ", "))
	}
	tf := []string{}
	for l := range taintedFields {
		tf = append(tf, l)
	}
	sort.Strings(tf)
	if len(tf) > 0 {
		r.Notes = append(r.Notes, "identifier-carrying fields besides the ID fields: "+strings.Join(tf, ", "))
	}
}

// onlyFeedsPanic: v (the result of a formatting call) is used for nothing but the argument of panic.
func onlyFeedsPanic(v ssa.Value) bool {
	if v == nil || v.Referrers() == nil {
		return false
	}
	n := 0
	for _, ref := range *v.Referrers() {
		switch x := ref.(type) {
		case *ssa.DebugRef:
		case *ssa.Panic:
			n++
		case *ssa.MakeInterface:
			if x.Referrers() == nil {
				return false
			}
			for _, r2 := range *x.Referrers() {
				switch r2.(type) {
				case *ssa.Panic:
					n++
				case *ssa.DebugRef:
				default:
					return false
				}
			}
		default:
			return false
		}
	}
	return n > 0
}

// isSourceNodeTable: the map is a name -> *Node table held by a builder of the public sources package (package graph): the
// de-duplication table of a Populate implementation that lives in a helper struct instead of a local variable (benign AA2). It is only
// ever keyed (never ranged): equality of input names, which every source needs.
func isSourceNodeTable(mv ssa.Value, at ssa.Instruction) bool {
	if shortPkg(pkgPathOf(at.Parent())) != "graph" {
		return false
	}
	mt, ok := mv.Type().Underlying().(*types.Map)
	if !ok || namedKey(derefType(mt.Elem())) != igNode {
		return false
	}
	if b, ok := mt.Key().Underlying().(*types.Basic); !ok || b.Kind() != types.String {
		return false
	}
	// loaded from a field of a struct of package graph, and no range over a map of that type anywhere in the package
	u, ok := mv.(*ssa.UnOp)
	if !ok || u.Op != token.MUL {
		return false
	}
	if _, ok := u.X.(*ssa.FieldAddr); !ok {
		return false
	}
	ranged := false
	for _, f := range at.Parent().Pkg.Members {
		fn, ok := f.(*ssa.Function)
		if !ok {
			continue
		}
		eachInstr(fn, func(in ssa.Instruction) {
			if rg, ok := in.(*ssa.Range); ok && types.Identical(rg.X.Type(), mv.Type()) {
				ranged = true
			}
		})
	}
	return !ranged
}
