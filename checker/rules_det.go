package main

// Engine E3: iteration-order analysis (typed AST) + nondeterminism-source inventory (SSA / call graph).

import (
	"fmt"
	"go/ast"
	"go/token"
	"go/types"
	"sort"
	"strings"

	"golang.org/x/tools/go/packages"
	"golang.org/x/tools/go/ssa"
)

func init() {
	register(&Rule{
		ID: "DET-1",
		Doc: "every `range` over a map in module code reachable from Layout is order-insensitive: its body consists only of continue, loop-local declarations, commutative reductions (max/min, integer +=, ++, ||/&&) on a variable or on a map cell with the same index on both sides, " +
			"writes M[k] / delete(M,k) keyed by the iteration key, updates of the key object's own fields from loop-invariant or key-local values, calls from the commutative table {maps.Copy, (*EdgeList).Remove, monitor.Log}, and ifs over loop-invariant or key-local conditions around such statements; " +
			"append to an outer slice, break/return, strict-comparison argmin/argmax, calls with other effects, closures are order-sensitive",
		Floor: 3,
		Ctl:   []string{"internal__phase2__det1.go.txt"},
		Run:   runDet1,
	})
	register(&Rule{
		ID: "DET-2",
		Doc: "nondeterminism-source inventory: every direct callee outside the module of module code reachable from Layout is on the allow-list {math, math/bits, cmp, iter, sort, slices, maps.Clone/Copy, strconv, strings.Builder, fmt (String/SVG only)}; " +
			"time.Now flows only into the seed of a per-call rand.New; every (*rand.Rand) method call is control-dependent on a value derived solely from Params.GreedyCycleBreakerRandomNodeChoice; maps.Keys/Values/All, math/rand top-level functions, os, runtime, crypto/rand, sync are forbidden",
		Floor: 50,
		Ctl:   []string{"internal__phase1__det2.go.txt"},
		Run:   runDet2,
	})
	register(&Rule{
		ID:    "DET-3",
		Doc:   "order-preserving split: every slice stored into DGraph.Nodes / DGraph.Edges by package connected is the input graph's own slice or is built only by append(acc, x) with x the element of an ascending index range over the same field of the input graph",
		Floor: 2,
		Ctl:   []string{"internal__graph__connected__det3.go.txt"},
		Run:   runDet3,
	})
	register(&Rule{
		ID:    "RO-1",
		Doc:   "caller inputs are read-only: the receiver of EdgeSlice.Populate (and every slice derived from it) is only indexed, ranged and len-ed - never stored through, stored away or passed on; the size map captured by WithNodeSize is only looked up",
		Floor: 2,
		Ctl:   []string{"graph__ro1.go.txt"},
		Run:   runRo1,
	})
}

// ---------- DET-1 ----------

type mapRangeCls struct {
	info   *types.Info
	m      *Model
	key    types.Object
	val    types.Object
	locals map[types.Object]bool
	// written state (collected in a first pass)
	wVars   map[types.Object]bool
	wFields map[types.Object]bool
	wMaps   map[types.Object]bool
	why     []string
	// sortedAfter(v): the first statement after the range statement that mentions the local slice v sorts it by a total order
	sortedAfter func(v types.Object) bool
	collected   []string
}

func (c *mapRangeCls) bad(n ast.Node, msg string) {
	c.why = append(c.why, fmt.Sprintf("%s: %s", c.m.Pos(n.Pos()), msg))
}

func calleeObj(info *types.Info, call *ast.CallExpr) types.Object {
	fun := call.Fun
	for {
		switch f := fun.(type) {
		case *ast.ParenExpr:
			fun = f.X
			continue
		case *ast.IndexExpr:
			fun = f.X
			continue
		case *ast.IndexListExpr:
			fun = f.X
			continue
		case *ast.SelectorExpr:
			return info.Uses[f.Sel]
		case *ast.Ident:
			return info.Uses[f]
		}
		return nil
	}
}

func funcFullName(o types.Object) string {
	if fn, ok := o.(*types.Func); ok {
		if or := fn.Origin(); or != nil {
			fn = or
		}
		return fn.FullName()
	}
	if b, ok := o.(*types.Builtin); ok {
		return "builtin." + b.Name()
	}
	return ""
}

var commutativeCallees = map[string]string{
	"maps.Copy": "copies into a map: last-writer-wins only on equal keys, sources are disjoint or equal-valued sets",
	"(*" + modPath + "/internal/graph.EdgeList).Remove": "removal of distinct elements commutes",
	modPath + "/internal/monitor.Log":                   "monitor output only; not part of the returned layout",
	"builtin.delete":                                    "deleting the iteration key",
}

func (c *mapRangeCls) rootIdent(e ast.Expr) (*ast.Ident, int) {
	depth := 0
	for {
		switch x := e.(type) {
		case *ast.ParenExpr:
			e = x.X
		case *ast.SelectorExpr:
			if sel, ok := c.info.Selections[x]; ok && sel.Kind() == types.FieldVal {
				// count pointer indirections beyond the root object
				if _, isPtr := c.info.TypeOf(x.X).Underlying().(*types.Pointer); isPtr {
					depth++
				}
				e = x.X
			} else {
				return nil, 0
			}
		case *ast.Ident:
			return x, depth
		default:
			return nil, 0
		}
	}
}

// isKeyObjectField: e is k.f (f possibly through embedded structs) with k the key/value variable: a field of the key object itself.
func (c *mapRangeCls) isKeyObjectField(e ast.Expr) bool {
	id, depth := c.rootIdent(e)
	if id == nil {
		return false
	}
	o := c.info.Uses[id]
	return o != nil && (o == c.key || o == c.val) && depth <= 1
}

func sameExpr(a, b ast.Expr) bool { return types.ExprString(a) == types.ExprString(b) }

// pure checks that evaluating e cannot observe state written by other iterations. `except` is the
// reduction target that may legitimately be read.
func (c *mapRangeCls) pure(e ast.Expr, except ast.Expr) bool {
	ok := true
	var walk func(n ast.Expr)
	walk = func(n ast.Expr) {
		if n == nil || !ok {
			return
		}
		if except != nil && sameExpr(n, except) {
			return
		}
		switch x := n.(type) {
		case *ast.BasicLit:
		case *ast.Ident:
			o := c.info.Uses[x]
			if v, isVar := o.(*types.Var); isVar {
				if c.wVars[v] && !c.locals[v] {
					ok = false
				}
			}
		case *ast.ParenExpr:
			walk(x.X)
		case *ast.UnaryExpr:
			if x.Op == token.AND || x.Op == token.ARROW {
				ok = false
				return
			}
			walk(x.X)
		case *ast.BinaryExpr:
			walk(x.X)
			walk(x.Y)
		case *ast.StarExpr:
			ok = false
		case *ast.SelectorExpr:
			if sel, isSel := c.info.Selections[x]; isSel && sel.Kind() == types.FieldVal {
				if c.wFields[sel.Obj()] && !c.isKeyObjectField(x) {
					ok = false
					return
				}
				walk(x.X)
				return
			}
			if _, isSel := c.info.Selections[x]; isSel {
				ok = false // method value
				return
			}
			// qualified identifier (pkg.Const / pkg.Var)
			if v, isVar := c.info.Uses[x.Sel].(*types.Var); isVar && c.wVars[v] {
				ok = false
			}
		case *ast.IndexExpr:
			if id, isId := x.X.(*ast.Ident); isId {
				if c.wMaps[c.info.Uses[id]] {
					// reading a cell of a map written by the loop: only the iteration key's own cell is stable
					if kid, isK := x.Index.(*ast.Ident); !(isK && c.info.Uses[kid] == c.key) {
						ok = false
						return
					}
				}
			}
			walk(x.X)
			walk(x.Index)
		case *ast.CallExpr:
			if tv, isT := c.info.Types[x.Fun]; isT && tv.IsType() {
				for _, a := range x.Args {
					walk(a)
				}
				return
			}
			switch funcFullName(calleeObj(c.info, x)) {
			case "builtin.max", "builtin.min", "builtin.len", "builtin.cap", "math.Abs", "math.Inf", "math.Max", "math.Min":
				for _, a := range x.Args {
					walk(a)
				}
			default:
				ok = false
			}
		case *ast.CompositeLit:
			for _, el := range x.Elts {
				if kv, isKV := el.(*ast.KeyValueExpr); isKV {
					walk(kv.Value)
				} else {
					walk(el)
				}
			}
		default:
			ok = false
		}
	}
	walk(e)
	return ok
}

func (c *mapRangeCls) isReduction(lhs, rhs ast.Expr, tok token.Token) bool {
	t := c.info.TypeOf(lhs)
	isInt, isBool := false, false
	if b, ok := t.Underlying().(*types.Basic); ok {
		isInt = b.Info()&types.IsInteger != 0
		isBool = b.Info()&types.IsBoolean != 0
	}
	switch tok {
	case token.ADD_ASSIGN, token.SUB_ASSIGN:
		return isInt && c.pure(rhs, nil)
	case token.OR_ASSIGN, token.AND_ASSIGN:
		return isInt && c.pure(rhs, nil)
	case token.ASSIGN:
		if call, ok := rhs.(*ast.CallExpr); ok {
			switch funcFullName(calleeObj(c.info, call)) {
			case "builtin.max", "builtin.min":
				found := false
				for _, a := range call.Args {
					if sameExpr(a, lhs) {
						found = true
					} else if !c.pure(a, nil) {
						return false
					}
				}
				return found
			}
		}
		if be, ok := rhs.(*ast.BinaryExpr); ok && (be.Op == token.LOR || be.Op == token.LAND) && isBool {
			if sameExpr(be.X, lhs) {
				return c.pure(be.Y, nil)
			}
			if sameExpr(be.Y, lhs) {
				return c.pure(be.X, nil)
			}
		}
		if be, ok := rhs.(*ast.BinaryExpr); ok && be.Op == token.ADD && isInt {
			if sameExpr(be.X, lhs) {
				return c.pure(be.Y, nil)
			}
			if sameExpr(be.Y, lhs) {
				return c.pure(be.X, nil)
			}
		}
	}
	return false
}

func (c *mapRangeCls) collectWrites(body *ast.BlockStmt) {
	note := func(l ast.Expr) {
		switch lx := l.(type) {
		case *ast.Ident:
			if o := c.info.Uses[lx]; o != nil {
				c.wVars[o] = true
			}
		case *ast.IndexExpr:
			if id, ok := lx.X.(*ast.Ident); ok {
				c.wMaps[c.info.Uses[id]] = true
			}
			if se, ok := lx.X.(*ast.SelectorExpr); ok {
				if sel, ok := c.info.Selections[se]; ok {
					c.wFields[sel.Obj()] = true
				}
			}
		case *ast.SelectorExpr:
			if sel, ok := c.info.Selections[lx]; ok {
				c.wFields[sel.Obj()] = true
			}
		}
	}
	ast.Inspect(body, func(n ast.Node) bool {
		switch x := n.(type) {
		case *ast.AssignStmt:
			if x.Tok != token.DEFINE {
				for _, l := range x.Lhs {
					note(l)
				}
			}
		case *ast.IncDecStmt:
			note(x.X)
		}
		return true
	})
}

func (c *mapRangeCls) stmt(s ast.Stmt) {
	switch x := s.(type) {
	case *ast.EmptyStmt:
	case *ast.BranchStmt:
		if x.Tok != token.CONTINUE || x.Label != nil {
			c.bad(x, "break/goto inside a map range: which elements are processed depends on iteration order")
		}
	case *ast.ReturnStmt:
		c.bad(x, "return inside a map range: the element that triggers it depends on iteration order")
	case *ast.DeclStmt:
		if gd, ok := x.Decl.(*ast.GenDecl); ok {
			for _, sp := range gd.Specs {
				if vs, ok := sp.(*ast.ValueSpec); ok {
					for _, n := range vs.Names {
						c.locals[c.info.Defs[n]] = true
					}
					for _, v := range vs.Values {
						if !c.pure(v, nil) {
							c.bad(v, "loop-local initialised from state other iterations may change: "+types.ExprString(v))
						}
					}
				}
			}
		}
	case *ast.AssignStmt:
		if x.Tok == token.DEFINE {
			for _, l := range x.Lhs {
				if id, ok := l.(*ast.Ident); ok {
					if o := c.info.Defs[id]; o != nil {
						c.locals[o] = true
					}
				}
			}
			for _, r := range x.Rhs {
				if !c.pure(r, nil) {
					c.bad(r, "loop-local initialised from state other iterations may change: "+types.ExprString(r))
				}
			}
			return
		}
		if len(x.Lhs) != len(x.Rhs) {
			c.bad(x, "tuple assignment from a call inside a map range")
			return
		}
		for i, l := range x.Lhs {
			r := x.Rhs[i]
			switch lx := l.(type) {
			case *ast.Ident:
				if lx.Name == "_" {
					continue
				}
				o := c.info.Uses[lx]
				if c.locals[o] {
					if !c.pure(r, nil) {
						c.bad(x, "loop-local assigned from state other iterations may change")
					}
					continue
				}
				if c.isReduction(l, r, x.Tok) {
					continue
				}
				if call, ok := r.(*ast.CallExpr); ok && funcFullName(calleeObj(c.info, call)) == "builtin.append" {
					// collect-then-sort idiom: x = append(x, <pure>) is order-insensitive when x is sorted by a total order
					// before anything else looks at it (checked by the caller once the whole body is classified)
					if len(call.Args) >= 2 && !call.Ellipsis.IsValid() && sameExpr(call.Args[0], l) && c.sortedAfter != nil && c.sortedAfter(o) {
						pureArgs := true
						for _, a := range call.Args[1:] {
							if !c.pure(a, nil) {
								pureArgs = false
							}
						}
						if pureArgs {
							c.collected = append(c.collected, lx.Name)
							continue
						}
					}
					c.bad(x, "append to "+lx.Name+" inside a map range: element order follows iteration order")
					continue
				}
				c.bad(x, "assignment to outer variable "+lx.Name+" is not a commutative reduction (the surviving value depends on iteration order)")
			case *ast.IndexExpr:
				if _, isMap := c.info.TypeOf(lx.X).Underlying().(*types.Map); isMap {
					if id, ok := lx.Index.(*ast.Ident); ok && c.info.Uses[id] == c.key && x.Tok == token.ASSIGN {
						if c.pure(r, nil) {
							continue // one distinct cell per iteration
						}
						c.bad(x, "value written to the key's cell depends on state other iterations may change")
						continue
					}
					if c.isReduction(l, r, x.Tok) && c.pure(lx.Index, nil) {
						continue
					}
					c.bad(x, "map cell write "+types.ExprString(l)+" is neither keyed by the iteration key nor a commutative reduction")
				} else {
					c.bad(x, "slice element write inside a map range")
				}
			case *ast.SelectorExpr:
				if c.isKeyObjectField(lx) {
					switch x.Tok {
					case token.ASSIGN:
						if c.pure(r, nil) {
							continue
						}
					case token.ADD_ASSIGN, token.SUB_ASSIGN, token.MUL_ASSIGN, token.QUO_ASSIGN:
						if c.pure(r, nil) {
							continue // each key object is updated exactly once
						}
					}
					c.bad(x, "update of the key object's field uses state other iterations may change")
					continue
				}
				if c.isReduction(l, r, x.Tok) {
					continue
				}
				c.bad(x, "field write on an object other than the iteration key: "+types.ExprString(lx))
			default:
				c.bad(x, "unsupported assignment target "+types.ExprString(l))
			}
		}
	case *ast.IncDecStmt:
		if t, ok := c.info.TypeOf(x.X).Underlying().(*types.Basic); !ok || t.Info()&types.IsInteger == 0 {
			c.bad(x, "non-integer ++/--")
		}
	case *ast.ExprStmt:
		call, ok := x.X.(*ast.CallExpr)
		if !ok {
			c.bad(x, "expression statement")
			return
		}
		name := funcFullName(calleeObj(c.info, call))
		if _, ok := commutativeCallees[name]; ok {
			if name == "builtin.delete" {
				if id, ok := call.Args[1].(*ast.Ident); !ok || c.info.Uses[id] != c.key {
					c.bad(x, "delete of a cell other than the iteration key")
				}
			}
			return
		}
		// a helper of the module whose whole body is one commutative cell update m[k] = max/min(m[k], v) (or m[k] += v)
		// on its own parameters, called with arguments that other iterations cannot influence
		if fn, ok := calleeObj(c.info, call).(*types.Func); ok {
			if fd := c.m.Decl[fn]; fd != nil && isCommutativeCellUpdater(fd) {
				okArgs := true
				for _, a := range call.Args {
					if !c.pure(a, nil) {
						okArgs = false
					}
				}
				if okArgs {
					return
				}
			}
		}
		if name == "" {
			name = types.ExprString(call.Fun)
		}
		c.bad(x, "call with order-dependent or unknown effects: "+name)
	case *ast.IfStmt:
		if x.Init != nil {
			c.stmt(x.Init)
		}
		if !c.pure(x.Cond, nil) {
			c.bad(x.Cond, "condition reads state other iterations may change (e.g. strict-comparison argmin/argmax: ties are broken by iteration order): "+types.ExprString(x.Cond))
		}
		for _, st := range x.Body.List {
			c.stmt(st)
		}
		if x.Else != nil {
			c.stmt(x.Else)
		}
	case *ast.BlockStmt:
		for _, st := range x.List {
			c.stmt(st)
		}
	default:
		c.bad(s, fmt.Sprintf("unsupported statement %T inside a map range", s))
	}
}

// declReachable: the FuncDecl (or a generic instance of it) is reachable from the root set.
func (m *Model) declReachable(p *packages.Package, fd *ast.FuncDecl) bool {
	obj, _ := p.TypesInfo.Defs[fd.Name].(*types.Func)
	if obj == nil {
		return true
	}
	for f := range m.Reach {
		o := f
		for o.Parent() != nil {
			o = o.Parent()
		}
		if or := o.Origin(); or != nil {
			o = or
		}
		if o.Object() == obj {
			return true
		}
	}
	return false
}

func runDet1(m *Model, r *RuleResult) {
	for _, p := range m.Pkgs {
		for _, f := range p.Syntax {
			perFunc := map[string]int{}
			ast.Inspect(f, func(n ast.Node) bool {
				rs, ok := n.(*ast.RangeStmt)
				if !ok {
					return true
				}
				t := p.TypesInfo.TypeOf(rs.X)
				if t == nil {
					return true
				}
				if _, ok := t.Underlying().(*types.Map); !ok {
					return true
				}
				fd := m.EnclosingFuncDecl(p, rs.Pos())
				fk := "file-scope"
				reach := true
				if fd != nil {
					fk = astFuncKey(p, fd)
					reach = m.declReachable(p, fd)
				}
				perFunc[fk]++
				key := fmt.Sprintf("maprange:%s#%d:%s", fk, perFunc[fk], types.ExprString(rs.X))
				ctl := m.IsPosctl(rs.Pos())
				c := &mapRangeCls{info: p.TypesInfo, m: m, locals: map[types.Object]bool{}, wVars: map[types.Object]bool{}, wFields: map[types.Object]bool{}, wMaps: map[types.Object]bool{}}
				if id, ok := rs.Key.(*ast.Ident); ok && rs.Key != nil {
					c.key = p.TypesInfo.Defs[id]
				}
				if id, ok := rs.Value.(*ast.Ident); ok && rs.Value != nil {
					c.val = p.TypesInfo.Defs[id]
				}
				if c.key != nil {
					c.locals[c.key] = true
				}
				if c.val != nil {
					c.locals[c.val] = true
				}
				c.sortedAfter = func(v types.Object) bool {
					if fd == nil || v == nil {
						return false
					}
					return sortedRightAfter(p.TypesInfo, fd, rs, v)
				}
				c.collectWrites(rs.Body)
				for _, st := range rs.Body.List {
					c.stmt(st)
				}
				r.stat("map_ranges", 1)
				desc := "range over map " + types.ExprString(rs.X) + " in " + fk
				switch {
				case len(c.why) == 0 && len(c.collected) > 0:
					r.add(Obligation{Key: key, Pos: m.Pos(rs.Pos()), Desc: desc + ": elements are collected into " + strings.Join(uniq(c.collected), ", ") + ", which is sorted by a total order before any other use", Verdict: "holds", Control: ctl})
				case len(c.why) == 0:
					r.add(Obligation{Key: key, Pos: m.Pos(rs.Pos()), Desc: desc + ": body is a set of commutative updates", Verdict: "holds", Control: ctl})
				case !reach && !ctl:
					r.add(Obligation{Key: key, Pos: m.Pos(rs.Pos()), Desc: desc + ": order-sensitive but not reachable from Layout or any exported entry point of packages autog and graph", Verdict: "holds", Detail: strings.Join(c.why, "; ")})
					r.stat("unreachable_order_sensitive", 1)
				default:
					r.add(Obligation{Key: key, Pos: m.Pos(rs.Pos()), Desc: desc + ": order-sensitive", Verdict: "violation",
						Detail: "Go randomises map iteration per range statement, so the result differs between runs: " + strings.Join(c.why, "; "), Control: ctl})
				}
				return true
			})
		}
	}
}

// isCommutativeCellUpdater: func(m M, k K, v V) { m[k] = max(m[k], v) } and the min / += / |= spellings: applying it for a set of
// (k, v) pairs gives the same map in any order.
func isCommutativeCellUpdater(fd *ast.FuncDecl) bool {
	if fd.Body == nil || len(fd.Body.List) != 1 || fd.Recv != nil {
		return false
	}
	as, ok := fd.Body.List[0].(*ast.AssignStmt)
	if !ok || len(as.Lhs) != 1 || len(as.Rhs) != 1 {
		return false
	}
	ix, ok := as.Lhs[0].(*ast.IndexExpr)
	if !ok {
		return false
	}
	params := map[string]bool{}
	for _, fl := range fd.Type.Params.List {
		for _, n := range fl.Names {
			params[n.Name] = true
		}
	}
	isParam := func(e ast.Expr) bool {
		id, ok := e.(*ast.Ident)
		return ok && params[id.Name]
	}
	if !isParam(ix.X) || !isParam(ix.Index) {
		return false
	}
	switch as.Tok {
	case token.ADD_ASSIGN, token.OR_ASSIGN, token.AND_ASSIGN:
		return isParam(as.Rhs[0])
	case token.ASSIGN:
		call, ok := as.Rhs[0].(*ast.CallExpr)
		if !ok || len(call.Args) != 2 {
			return false
		}
		id, ok := call.Fun.(*ast.Ident)
		if !ok || (id.Name != "max" && id.Name != "min") {
			return false
		}
		self, other := 0, 0
		for _, a := range call.Args {
			if sameExpr(a, ix) {
				self++
			} else if isParam(a) {
				other++
			}
		}
		return self == 1 && other == 1
	}
	return false
}

// totalSorts: library sorts whose result is a function of the multiset of elements (total order on a basic element type).
var totalSorts = map[string]bool{"slices.Sort": true, "sort.Strings": true, "sort.Ints": true, "sort.Float64s": true}

// sortedRightAfter: in the statement list that contains the range statement rs, the first later statement that mentions
// variable v is a call totalSort(v).
func sortedRightAfter(info *types.Info, fd *ast.FuncDecl, rs *ast.RangeStmt, v types.Object) bool {
	var list []ast.Stmt
	idx := -1
	ast.Inspect(fd, func(n ast.Node) bool {
		var l []ast.Stmt
		switch b := n.(type) {
		case *ast.BlockStmt:
			l = b.List
		case *ast.CaseClause:
			l = b.Body
		}
		for i, st := range l {
			if st == ast.Stmt(rs) {
				list, idx = l, i
			}
		}
		return idx < 0
	})
	if idx < 0 {
		return false
	}
	mentions := func(n ast.Node) bool {
		found := false
		ast.Inspect(n, func(x ast.Node) bool {
			if id, ok := x.(*ast.Ident); ok && info.Uses[id] == v {
				found = true
			}
			return !found
		})
		return found
	}
	for _, st := range list[idx+1:] {
		if !mentions(st) {
			continue
		}
		es, ok := st.(*ast.ExprStmt)
		if !ok {
			return false
		}
		call, ok := es.X.(*ast.CallExpr)
		if !ok || len(call.Args) != 1 || !totalSorts[funcFullName(calleeObj(info, call))] {
			return false
		}
		id, ok := call.Args[0].(*ast.Ident)
		if !ok || info.Uses[id] != v {
			return false
		}
		// the element type must be a basic type, so that equal elements are indistinguishable
		if sl, ok := v.Type().Underlying().(*types.Slice); ok {
			_, basic := sl.Elem().Underlying().(*types.Basic)
			return basic
		}
		return false
	}
	return false
}

// ---------- DET-2 ----------

var det2AllowedPkgs = map[string]bool{"math": true, "math/bits": true, "cmp": true, "iter": true, "sort": true, "slices": true, "strconv": true}
var det2AllowedFuncs = map[string]bool{
	"maps.Clone": true, "maps.Copy": true,
	"(*strings.Builder).WriteString": true, "(*strings.Builder).WriteRune": true, "(*strings.Builder).String": true, "(*strings.Builder).WriteByte": true,
	"fmt.Sprintf": true, "fmt.Sprint": true,
}

func extFuncName(f *ssa.Function) (pkg, full string) {
	o := f
	suffix := ""
	for o.Parent() != nil {
		o = o.Parent()
		suffix = "$closure"
	}
	if or := o.Origin(); or != nil {
		o = or
	}
	if suffix != "" && o.Object() != nil {
		fn := o.Object().(*types.Func)
		p := ""
		if fn.Pkg() != nil {
			p = fn.Pkg().Path()
		}
		return p, fn.FullName() + suffix
	}
	if o.Object() != nil {
		fn := o.Object().(*types.Func)
		p := ""
		if fn.Pkg() != nil {
			p = fn.Pkg().Path()
		}
		return p, fn.FullName()
	}
	return pkgPathOf(f), f.String()
}

// derivesOnlyFromField: v is a load of the given field location, or a parameter whose argument at every
// static call site derives only from it, or !v / phi of such.
func (m *Model) derivesOnlyFromField(v ssa.Value, loc string, depth int) bool {
	if depth > 7 {
		return false
	}
	// every condition that decides whether block b runs derives only from the field
	ctlOnlyField := func(b *ssa.BasicBlock) bool {
		for _, d := range transitiveControlDeps(b) {
			if !m.derivesOnlyFromField(d.If.Cond, loc, depth+1) {
				return false
			}
		}
		return true
	}
	switch x := v.(type) {
	case *ssa.Convert:
		return m.derivesOnlyFromField(x.X, loc, depth+1)
	case *ssa.ChangeType:
		return m.derivesOnlyFromField(x.X, loc, depth+1)
	case *ssa.BinOp:
		// comparison of a derived value with a constant (`choice == chooseRandom`)
		if x.Op == token.EQL || x.Op == token.NEQ {
			if _, isC := x.Y.(*ssa.Const); isC {
				return m.derivesOnlyFromField(x.X, loc, depth+1)
			}
			if _, isC := x.X.(*ssa.Const); isC {
				return m.derivesOnlyFromField(x.Y, loc, depth+1)
			}
		}
		return false
	case *ssa.Phi:
		// a selection between constants (or derived values) made under conditions that derive only from the field
		some := false
		for i, e := range x.Edges {
			if _, isC := e.(*ssa.Const); !isC && !m.derivesOnlyFromField(e, loc, depth+1) {
				return false
			}
			if !ctlOnlyField(x.Block().Preds[i]) {
				return false
			}
			if len(transitiveControlDeps(x.Block().Preds[i])) > 0 {
				some = true
			}
		}
		return some
	case *ssa.Call:
		// a helper of the module that maps the option to a constant (`nodeChoiceFor(params)`)
		c := x.Call.StaticCallee()
		if c == nil || !inModule(c) || len(c.Blocks) == 0 || c.Signature.Results().Len() != 1 {
			return false
		}
		n, some := 0, false
		okAll := true
		eachInstr(c, func(in ssa.Instruction) {
			ret, isRet := in.(*ssa.Return)
			if !isRet || len(ret.Results) != 1 {
				return
			}
			n++
			if _, isC := ret.Results[0].(*ssa.Const); !isC && !m.derivesOnlyFromField(ret.Results[0], loc, depth+1) {
				okAll = false
			}
			if !ctlOnlyField(ret.Block()) {
				okAll = false
			}
			if len(transitiveControlDeps(ret.Block())) > 0 {
				some = true
			}
		})
		return n > 0 && okAll && some
	}
	switch x := v.(type) {
	case *ssa.Field:
		_, steps := fieldChain(x)
		return locOfSteps(steps) == loc
	case *ssa.UnOp:
		if x.Op == token.MUL {
			if fa, ok := x.X.(*ssa.FieldAddr); ok {
				_, steps := fieldChain(fa)
				return locOfSteps(steps) == loc
			}
			return false
		}
		if x.Op == token.NOT {
			return m.derivesOnlyFromField(x.X, loc, depth+1)
		}
	case *ssa.Parameter:
		fn := x.Parent()
		idx := -1
		for i, p := range fn.Params {
			if p == x {
				idx = i
			}
		}
		n := 0
		ok := true
		for _, f := range m.Funcs {
			eachInstr(f, func(in ssa.Instruction) {
				ci, isCall := in.(ssa.CallInstruction)
				if !isCall {
					return
				}
				for _, cal := range m.Callees(ci) {
					if cal == fn {
						n++
						args := ci.Common().Args
						if ci.Common().IsInvoke() {
							args = append([]ssa.Value{ci.Common().Value}, args...)
						}
						if idx >= len(args) || !m.derivesOnlyFromField(args[idx], loc, depth+1) {
							ok = false
						}
					}
				}
			})
		}
		return ok && n > 0
	}
	return false
}

func runDet2(m *Model, r *RuleResult) {
	type siteInfo struct {
		fn   *ssa.Function
		in   ssa.CallInstruction
		name string
		pkg  string
	}
	byName := map[string][]siteInfo{}
	for _, f := range m.Src {
		if !m.Reach[f] && !m.FuncIsPosctl(f) {
			continue
		}
		eachInstr(f, func(in ssa.Instruction) {
			ci, ok := in.(ssa.CallInstruction)
			if !ok {
				return
			}
			if _, ok := ci.Common().Value.(*ssa.Builtin); ok {
				return
			}
			for _, cal := range m.Callees(ci) {
				if inModule(cal) || isPkgInit(cal) {
					continue
				}
				pkg, full := extFuncName(cal)
				if pkg == "" {
					continue // synthetic runtime helpers without package
				}
				byName[full] = append(byName[full], siteInfo{f, ci, full, pkg})
			}
		})
	}
	var names []string
	for n := range byName {
		names = append(names, n)
	}
	sort.Strings(names)
	r.stat("distinct_external_callees", len(names))
	for _, name := range names {
		sites := byName[name]
		pkg := sites[0].pkg
		for _, s := range sites {
			ctl := m.FuncIsPosctl(s.fn)
			key := "extcall:" + name + "<-" + funcKey(s.fn)
			pos := m.Pos(s.in.Pos())
			desc := "direct library call " + name + " from " + funcKey(s.fn)
			add := func(verdict, detail string) {
				// one obligation per (callee, caller)
				for _, o := range r.Obligations {
					if o.Key == key && o.Verdict == verdict {
						return
					}
				}
				r.add(Obligation{Key: key, Pos: pos, Desc: desc, Verdict: verdict, Detail: detail, Control: ctl})
			}
			switch {
			case det2AllowedPkgs[pkg]:
				add("holds", "")
			case det2AllowedFuncs[name]:
				if pkg == "fmt" {
					n := s.fn.Name()
					if n != "String" && n != "SVG" && !onlyFeedsPanic(s.in.Value()) {
						add("violation", "fmt is allowed only inside String/SVG debug helpers and for the text of a panic (it formats pointers and map contents)")
						continue
					}
				}
				add("holds", "")
			case name == "time.Now" || name == "(time.Time).UnixNano" || name == "math/rand.NewSource" || name == "math/rand.New":
				// the chain time.Now().UnixNano() -> rand.NewSource -> rand.New, and nothing else
				v := s.in.Value()
				okChain := v != nil
				if v != nil && v.Referrers() != nil {
					for _, ref := range *v.Referrers() {
						if _, isDbg := ref.(*ssa.DebugRef); isDbg {
							continue
						}
						ci, isCall := ref.(ssa.CallInstruction)
						next := ""
						if isCall {
							if c := ci.Common().StaticCallee(); c != nil {
								_, next = extFuncName(c)
							}
						}
						switch name {
						case "time.Now":
							okChain = okChain && next == "(time.Time).UnixNano"
						case "(time.Time).UnixNano":
							okChain = okChain && next == "math/rand.NewSource"
						case "math/rand.NewSource":
							// converted to rand.Source interface and handed to rand.New
							if mi, isMI := ref.(*ssa.MakeInterface); isMI {
								for _, r2 := range *mi.Referrers() {
									c2, isC := r2.(ssa.CallInstruction)
									if !isC || c2.Common().StaticCallee() == nil {
										okChain = false
										continue
									}
									_, n2 := extFuncName(c2.Common().StaticCallee())
									okChain = okChain && n2 == "math/rand.New"
								}
							} else {
								okChain = okChain && next == "math/rand.New"
							}
						case "math/rand.New":
							// stored into a per-call processor struct (fresh allocation)
							st, isStore := ref.(*ssa.Store)
							if !isStore {
								okChain = false
								continue
							}
							ai := classifyAddr(st.Addr)
							okChain = okChain && len(ai.Locs) > 0 && isFreshObject(ai.Base, 0)
						}
					}
				}
				if okChain {
					add("holds", "part of the per-call seed chain time.Now().UnixNano() -> rand.NewSource -> rand.New -> fresh per-call struct")
				} else {
					add("violation", name+" is used outside the per-call RNG seed chain: wall-clock or RNG state reaches the layout")
				}
			case strings.HasPrefix(name, "(*math/rand.Rand)."):
				// must be control-dependent on a value derived solely from Params.GreedyCycleBreakerRandomNodeChoice
				// every path to the draw must take the true edge of a test on the option alone
				guarded := false
				for _, a := range s.fn.Blocks {
					if len(a.Succs) != 2 {
						continue
					}
					iff, isIf := a.Instrs[len(a.Instrs)-1].(*ssa.If)
					if !isIf || !m.derivesOnlyFromField(iff.Cond, igPar+".GreedyCycleBreakerRandomNodeChoice", 0) {
						continue
					}
					t := a.Succs[0]
					if len(t.Preds) == 1 && (t == s.in.Block() || t.Dominates(s.in.Block())) {
						guarded = true
					}
				}
				if guarded {
					add("holds", "executes only under the documented non-deterministic option")
				} else {
					add("violation", "random number drawn without being guarded by Params.GreedyCycleBreakerRandomNodeChoice: the default configuration becomes non-deterministic")
				}
			default:
				add("violation", "library function outside the determinism allow-list (clock, RNG, environment, map-order iterator, synchronisation or unknown state)")
			}
		}
	}
}

// ---------- DET-3 ----------

func runDet3(m *Model, r *RuleResult) {
	m.fxInit()
	for _, f := range m.Src {
		if shortPkg(pkgPathOf(f)) != "internal/graph/connected" {
			continue
		}
		for _, w := range m.effects[f].Writes {
			if w.Loc != igDG+".Nodes" && w.Loc != igDG+".Edges" {
				continue
			}
			field := strings.TrimPrefix(w.Loc, igDG+".")
			ctl := m.FuncIsPosctl(f)
			key := "split-store:" + funcKey(f) + ":" + field
			why := ""
			seen := map[ssa.Value]bool{}
			var okVal func(v ssa.Value) bool
			okElem := func(v ssa.Value) bool {
				u, ok := v.(*ssa.UnOp)
				if !ok || u.Op != token.MUL {
					why = "appended element is not read from the input graph's " + field + " slice: " + v.String()
					return false
				}
				ia, ok := u.X.(*ssa.IndexAddr)
				if !ok {
					why = "appended element is not an element of a slice: " + u.X.String()
					return false
				}
				// slice must be the same field of a parameter-derived graph
				src := originsOf(ia.X, 0)
				for _, o := range src {
					if o.Kind != "fieldload" || o.Loc != w.Loc {
						why = "appended element comes from " + o.Kind + " " + o.Loc + ", not from " + w.Loc + " of the input graph"
						return false
					}
					pOK := false
					for _, bo := range originsOf(o.Base, 0) {
						if bo.Kind == "param" {
							pOK = true
						}
					}
					if !pOK {
						why = "source graph of the appended element is not the function's input"
						return false
					}
				}
				// ascending range index: phi(-1, phi+1) or phi(0, phi+1)
				phi, ok := ia.Index.(*ssa.Phi)
				if !ok {
					// range lowering: index = phi + 1 computed in loop header
					if bo, isBin := ia.Index.(*ssa.BinOp); isBin && bo.Op == token.ADD {
						if p2, isPhi := bo.X.(*ssa.Phi); isPhi {
							if c, isC := bo.Y.(*ssa.Const); isC && c.Int64() == 1 {
								phi = p2
								ok = true
							}
						}
					}
				}
				if !ok {
					why = "index of the appended element is not a range loop counter: " + ia.Index.String()
					return false
				}
				asc := false
				for _, e := range phi.Edges {
					if bo, isBin := e.(*ssa.BinOp); isBin && bo.Op == token.ADD {
						if c, isC := bo.Y.(*ssa.Const); isC && c.Int64() == 1 {
							asc = true
						}
					}
				}
				if !asc {
					why = "loop counter of the appended element does not ascend by 1"
					return false
				}
				return true
			}
			okVal = func(v ssa.Value) bool {
				if seen[v] {
					return true
				}
				seen[v] = true
				switch x := v.(type) {
				case *ssa.Const:
					return x.Value == nil
				case *ssa.Phi:
					for _, e := range x.Edges {
						if !okVal(e) {
							return false
						}
					}
					return true
				case *ssa.UnOp:
					if x.Op == token.MUL {
						// reading back the slice under construction (same field of the same fresh object), or the input's own slice
						for _, o := range originsOf(x, 0) {
							if o.Kind == "fieldload" && o.Loc == w.Loc {
								continue
							}
							if o.Kind == "fresh" {
								continue
							}
							why = "stored slice is loaded from " + o.Kind + " " + o.Loc
							return false
						}
						return true
					}
				case *ssa.Call:
					if b, ok := x.Call.Value.(*ssa.Builtin); ok && b.Name() == "append" {
						if len(x.Call.Args) != 2 {
							why = "append with unexpected arity"
							return false
						}
						if !okVal(x.Call.Args[0]) {
							return false
						}
						// variadic: args[1] is a slice literal of the appended elements
						sl, ok := x.Call.Args[1].(*ssa.Slice)
						if !ok {
							why = "append of a whole slice (" + x.Call.Args[1].String() + ")"
							return false
						}
						al, ok := sl.X.(*ssa.Alloc)
						if !ok {
							why = "append of a whole slice"
							return false
						}
						n := 0
						for _, ref := range *al.Referrers() {
							if ia, ok := ref.(*ssa.IndexAddr); ok {
								for _, r2 := range *ia.Referrers() {
									if st, ok := r2.(*ssa.Store); ok {
										n++
										if !okElem(st.Val) {
											return false
										}
									}
								}
							}
						}
						return n > 0
					}
					// a helper of the module that returns an order-preserving sub-sequence of one of its slice parameters
					// (a generic Filter, a copy): the argument must itself be acceptable
					if c := x.Call.StaticCallee(); c != nil && inModule(c) && len(c.Blocks) > 0 && c.Signature.Results().Len() == 1 {
						for j, p := range c.Params {
							if _, isSl := p.Type().Underlying().(*types.Slice); !isSl || j >= len(x.Call.Args) {
								continue
							}
							n, all := 0, true
							eachInstr(c, func(in ssa.Instruction) {
								if ret, ok := in.(*ssa.Return); ok && len(ret.Results) == 1 {
									n++
									if !isOrderPreservingSubseq(ret.Results[0], p, map[ssa.Value]bool{}) {
										all = false
									}
								}
							})
							if n > 0 && all {
								return okVal(x.Call.Args[j])
							}
						}
					}
					why = "stored slice is the result of " + calleeFullName(&x.Call) + " (element order not derived from the input order)"
					return false
				case *ssa.MakeSlice:
					return true
				case *ssa.Slice:
					// own storage (added after seeded change C09g): a two-index window s[a:] / s[a:b] into a list that lives in an object
					// other components see as well keeps that list's spare capacity - the next append to this component's list
					// (phase 3 adds helper nodes and edge fragments) overwrites the first elements of the following component
					if _, isArr := x.X.(*ssa.Alloc); !isArr && x.Max == nil && (x.Low != nil || x.High != nil) {
						for _, o := range originsOf(x.X, 0) {
							if o.Kind != "fieldload" {
								continue
							}
							for _, bo := range originsOf(o.Base, 0) {
								if bo.Kind != "fresh" {
									why = "stored slice is a window (" + x.String() + ") into a list shared with the other components: it keeps the spare capacity behind it, so appending to this component's list overwrites the next component's elements"
									return false
								}
							}
						}
					}
					return okVal(x.X)
				case *ssa.ChangeType:
					return okVal(x.X)
				}
				why = fmt.Sprintf("stored slice has unrecognised provenance %T %s", v, v.String())
				return false
			}
			if okVal(w.Val) {
				r.add(Obligation{Key: key, Pos: m.Pos(w.Instr.Pos()), Desc: "component " + field + " list keeps the input order", Verdict: "holds", Control: ctl})
			} else {
				r.add(Obligation{Key: key, Pos: m.Pos(w.Instr.Pos()), Desc: "component " + field + " list must keep the input order", Verdict: "violation",
					Detail: why + ": a component handed to the pipeline differs in node/edge order from the same component given as the sole input", Control: ctl})
			}
		}
	}
}

// isOrderPreservingSubseq: v is built from nothing but nil / a fresh slice and `append(acc, src[i])` with i an ascending loop
// counter: a sub-sequence of src in src's order.
func isOrderPreservingSubseq(v ssa.Value, src ssa.Value, seen map[ssa.Value]bool) bool {
	if seen[v] {
		return true
	}
	seen[v] = true
	switch x := v.(type) {
	case *ssa.Const:
		return x.Value == nil
	case *ssa.MakeSlice:
		if c, ok := constInt(x.Len); ok && c == 0 {
			return true
		}
		return false
	case *ssa.Phi:
		for _, e := range x.Edges {
			if !isOrderPreservingSubseq(e, src, seen) {
				return false
			}
		}
		return true
	case *ssa.Slice:
		return isOrderPreservingSubseq(x.X, src, seen)
	case *ssa.ChangeType:
		return isOrderPreservingSubseq(x.X, src, seen)
	case *ssa.Call:
		b, ok := x.Call.Value.(*ssa.Builtin)
		if !ok || b.Name() != "append" || len(x.Call.Args) != 2 || !isOrderPreservingSubseq(x.Call.Args[0], src, seen) {
			return false
		}
		sl, ok := x.Call.Args[1].(*ssa.Slice)
		if !ok {
			return false
		}
		al, ok := sl.X.(*ssa.Alloc)
		if !ok || al.Referrers() == nil {
			return false
		}
		n := 0
		for _, ref := range *al.Referrers() {
			ia, ok := ref.(*ssa.IndexAddr)
			if !ok || ia.Referrers() == nil {
				continue
			}
			for _, r2 := range *ia.Referrers() {
				st, ok := r2.(*ssa.Store)
				if !ok {
					continue
				}
				n++
				u, ok := st.Val.(*ssa.UnOp)
				if !ok || u.Op != token.MUL {
					return false
				}
				ea, ok := u.X.(*ssa.IndexAddr)
				if !ok || ea.X != src {
					return false
				}
				// ascending counter: phi(+1) or phi+1
				var phi *ssa.Phi
				switch ix := ea.Index.(type) {
				case *ssa.Phi:
					phi = ix
				case *ssa.BinOp:
					if c, isC := constInt(ix.Y); isC && c == 1 && ix.Op == token.ADD {
						phi, _ = ix.X.(*ssa.Phi)
					}
				}
				if phi == nil {
					return false
				}
				asc := false
				for _, e := range phi.Edges {
					if bo, isBin := e.(*ssa.BinOp); isBin && bo.Op == token.ADD {
						if c, isC := constInt(bo.Y); isC && c == 1 {
							asc = true
						}
					}
					if bo, isBin := e.(*ssa.BinOp); isBin && bo.Op == token.SUB {
						return false
					}
				}
				if !asc {
					return false
				}
			}
		}
		return n > 0
	}
	return false
}

// ---------- RO-1 ----------

// readOnlyUses walks the uses of v (a caller-owned slice or map, and values derived from it) and reports any
// use that could mutate it or let it escape.
func readOnlyUses(m *Model, v ssa.Value, seen map[ssa.Value]bool, bad *[]string) {
	if seen[v] || v.Referrers() == nil {
		return
	}
	seen[v] = true
	isRef := func(t types.Type) bool {
		switch types.Unalias(t).Underlying().(type) {
		case *types.Slice, *types.Map, *types.Pointer:
			return true
		}
		return false
	}
	for _, ref := range *v.Referrers() {
		switch x := ref.(type) {
		case *ssa.DebugRef:
		case *ssa.Range, *ssa.Lookup:
			// reading
			if lk, ok := x.(*ssa.Lookup); ok && isRef(lk.Type()) {
				readOnlyUses(m, lk, seen, bad)
			}
		case *ssa.Index:
			if isRef(x.Type()) {
				readOnlyUses(m, x, seen, bad)
			}
		case *ssa.IndexAddr:
			// address of an element: loads are fine, stores are not
			for _, r2 := range *x.Referrers() {
				switch y := r2.(type) {
				case *ssa.UnOp:
					if y.Op == token.MUL && isRef(y.Type()) {
						readOnlyUses(m, y, seen, bad)
					}
				case *ssa.Store:
					if y.Addr == x {
						*bad = append(*bad, "element store at "+m.Pos(y.Pos()))
					} else {
						*bad = append(*bad, "element address stored at "+m.Pos(y.Pos()))
					}
				case *ssa.DebugRef:
				default:
					*bad = append(*bad, fmt.Sprintf("element address used by %T at %s", r2, m.Pos(r2.Pos())))
				}
			}
		case *ssa.Slice:
			readOnlyUses(m, x, seen, bad)
		case *ssa.ChangeType:
			readOnlyUses(m, x, seen, bad)
		case *ssa.Phi:
			readOnlyUses(m, x, seen, bad)
		case *ssa.Extract:
			if isRef(x.Type()) {
				readOnlyUses(m, x, seen, bad)
			}
		case *ssa.Next:
			readOnlyUses(m, x, seen, bad)
		case *ssa.BinOp:
			// comparison with nil
		case *ssa.MapUpdate:
			if x.Map == v {
				*bad = append(*bad, "map update at "+m.Pos(x.Pos()))
			} else {
				*bad = append(*bad, "stored into another map at "+m.Pos(x.Pos()))
			}
		case *ssa.Store:
			if x.Val == v {
				// a captured variable cell is fine; follow loads from the cell
				if al, ok := x.Addr.(*ssa.Alloc); ok {
					followCell(m, al, seen, bad)
					continue
				}
				*bad = append(*bad, "stored away (escapes) at "+m.Pos(x.Pos()))
			}
		case *ssa.MakeClosure:
			fn := x.Fn.(*ssa.Function)
			for i, b := range x.Bindings {
				if b == v {
					readOnlyUses(m, fn.FreeVars[i], seen, bad)
				}
			}
		case ssa.CallInstruction:
			c := x.Common()
			if b, ok := c.Value.(*ssa.Builtin); ok {
				switch b.Name() {
				case "len", "cap":
					continue
				}
				*bad = append(*bad, "builtin "+b.Name()+" at "+m.Pos(x.Pos()))
				continue
			}
			// a function of this module: the value stays read-only if the callee only reads the corresponding parameter
			if cal := c.StaticCallee(); cal != nil && inModule(cal) && len(cal.Blocks) > 0 {
				args := c.Args
				followed := false
				for i, a := range args {
					if a == v && i < len(cal.Params) {
						n0 := len(*bad)
						readOnlyUses(m, cal.Params[i], seen, bad)
						for j := n0; j < len(*bad); j++ {
							(*bad)[j] = "in " + funcKey(cal) + " (called at " + m.Pos(x.Pos()) + "): " + (*bad)[j]
						}
						followed = true
					}
				}
				if followed {
					continue
				}
			}
			*bad = append(*bad, "passed to "+calleeFullName(c)+" at "+m.Pos(x.Pos()))
		case *ssa.MakeInterface:
			*bad = append(*bad, "boxed into an interface at "+m.Pos(x.Pos()))
		case *ssa.Return:
			*bad = append(*bad, "returned at "+m.Pos(x.Pos()))
		default:
			*bad = append(*bad, fmt.Sprintf("used by %T at %s", ref, m.Pos(ref.Pos())))
		}
	}
}

// followCell follows a variable cell (Alloc or captured FreeVar pointing to it) holding the caller-owned value.
func followCell(m *Model, cell ssa.Value, seen map[ssa.Value]bool, bad *[]string) {
	if seen[cell] || cell.Referrers() == nil {
		return
	}
	seen[cell] = true
	for _, r2 := range *cell.Referrers() {
		switch y := r2.(type) {
		case *ssa.DebugRef:
		case *ssa.UnOp:
			if y.Op == token.MUL {
				readOnlyUses(m, y, seen, bad)
			}
		case *ssa.Store:
			if y.Addr != cell {
				*bad = append(*bad, "address of the captured variable stored at "+m.Pos(y.Pos()))
			}
		case *ssa.MakeClosure:
			fn := y.Fn.(*ssa.Function)
			for i, b := range y.Bindings {
				if b == cell {
					followCell(m, fn.FreeVars[i], seen, bad)
				}
			}
		default:
			*bad = append(*bad, fmt.Sprintf("captured variable used by %T at %s", r2, m.Pos(r2.Pos())))
		}
	}
}

func runRo1(m *Model, r *RuleResult) {
	// every Populate method in package graph whose receiver is a slice/map type (user-supplied data)
	for _, f := range m.Src {
		if f.Parent() != nil || f.Signature.Recv() == nil {
			continue
		}
		if shortPkg(pkgPathOf(f)) != "graph" {
			continue
		}
		recv := f.Params[0]
		switch types.Unalias(recv.Type()).Underlying().(type) {
		case *types.Slice, *types.Map:
		default:
			continue
		}
		var bad []string
		readOnlyUses(m, recv, map[ssa.Value]bool{}, &bad)
		key := "input:" + funcKey(f) + ":receiver"
		ctl := m.FuncIsPosctl(f)
		if len(bad) == 0 {
			r.add(Obligation{Key: key, Pos: m.Pos(f.Pos()), Desc: "caller's " + recv.Type().String() + " is only read", Verdict: "holds", Control: ctl})
		} else {
			sort.Strings(bad)
			r.add(Obligation{Key: key, Pos: m.Pos(f.Pos()), Desc: "caller's " + recv.Type().String() + " must only be read", Verdict: "violation", Detail: strings.Join(bad, "; "), Control: ctl})
		}
	}
	// option constructors of package autog taking a map or slice parameter
	for _, f := range m.Src {
		if f.Parent() != nil || pkgPathOf(f) != modPath || f.Object() == nil || !f.Object().Exported() {
			continue
		}
		for i, p := range f.Params {
			switch types.Unalias(p.Type()).Underlying().(type) {
			case *types.Slice, *types.Map:
			default:
				continue
			}
			if i == len(f.Params)-1 && f.Signature.Variadic() {
				// Layout's opts ...Option: functions, not data
				if _, ok := types.Unalias(p.Type()).Underlying().(*types.Slice).Elem().Underlying().(*types.Signature); ok {
					continue
				}
			}
			var bad []string
			readOnlyUses(m, p, map[ssa.Value]bool{}, &bad)
			key := "input:" + funcKey(f) + ":" + p.Name()
			ctl := m.FuncIsPosctl(f)
			if len(bad) == 0 {
				r.add(Obligation{Key: key, Pos: m.Pos(f.Pos()), Desc: "caller's " + p.Type().String() + " is only read", Verdict: "holds", Control: ctl})
			} else {
				sort.Strings(bad)
				r.add(Obligation{Key: key, Pos: m.Pos(f.Pos()), Desc: "caller's " + p.Type().String() + " must only be read", Verdict: "violation", Detail: strings.Join(bad, "; "), Control: ctl})
			}
		}
	}
}
