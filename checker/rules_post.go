package main

// POST-1: phase post-conditions on every path.

import (
	"fmt"
	"go/token"
	"go/types"
	"sort"
	"strings"

	"golang.org/x/tools/go/ssa"
)

func init() {
	register(&Rule{
		ID: "POST-1",
		Doc: "the layer table exists after the layering phase on every path: the pipeline entry point (a Process method of a phase package) that stores DGraph.Layers on some path stores it (directly or through a callee) on EVERY path from its entry to a normal return - panicking exits excluded; " +
			"later phases index g.Layers unconditionally (g.Layers[0], g.Layers[n.Layer]), so an early return that skips the construction (a short-circuit for one-node components) makes them panic. " +
			"Must-pass-through check on the SSA control-flow graph: the return blocks are not reachable from the entry once the establishing blocks are removed",
		Floor: 2,
		Ctl:   []string{"internal__phase2__post1.go.txt"},
		Run:   runPost1,
	})
}

// establishes: the instruction stores the field loc of some non-fresh object, or calls a function that does.
func establishes(m *Model, in ssa.Instruction, loc string) bool {
	switch x := in.(type) {
	case *ssa.Store:
		if fa, ok := x.Addr.(*ssa.FieldAddr); ok {
			_, steps := fieldChain(fa)
			return locOfSteps(steps) == loc
		}
	case ssa.CallInstruction:
		if _, isDefer := in.(*ssa.Defer); isDefer {
			return false
		}
		cs := m.Callees(x)
		if len(cs) == 0 {
			return false
		}
		for _, c := range cs {
			e := m.effects[c]
			if e == nil || !e.Mod[loc] {
				return false
			}
			// every path of the callee, too
			if !mustEstablish(m, c, loc, 0) {
				return false
			}
		}
		return true
	}
	return false
}

var mustEstCache = map[string]bool{}

// mustEstablish: every path of f from entry to a normal return passes through an establishing instruction.
func mustEstablish(m *Model, f *ssa.Function, loc string, depth int) bool {
	if f == nil || len(f.Blocks) == 0 || depth > 4 {
		return false
	}
	ok, _ := escapePath(m, f, loc)
	return ok
}

// escapePath returns (true, "") when every entry->return path establishes loc, else (false, description of an escaping path).
func escapePath(m *Model, f *ssa.Function, loc string) (bool, string) {
	est := map[*ssa.BasicBlock]bool{}
	for _, b := range f.Blocks {
		for _, in := range b.Instrs {
			if establishes(m, in, loc) {
				est[b] = true
				break
			}
		}
	}
	type item struct {
		b    *ssa.BasicBlock
		from *item
	}
	seen := map[*ssa.BasicBlock]bool{}
	queue := []*item{{b: f.Blocks[0]}}
	for len(queue) > 0 {
		it := queue[0]
		queue = queue[1:]
		if seen[it.b] || est[it.b] {
			continue
		}
		seen[it.b] = true
		if _, isRet := it.b.Instrs[len(it.b.Instrs)-1].(*ssa.Return); isRet {
			// describe the path by its branch points
			var steps []string
			for x := it; x != nil && x.from != nil; x = x.from {
				if iff, ok := x.from.b.Instrs[len(x.from.b.Instrs)-1].(*ssa.If); ok {
					br := "true"
					if len(x.from.b.Succs) == 2 && x.from.b.Succs[1] == x.b {
						br = "false"
					}
					steps = append([]string{fmt.Sprintf("%s is %s at %s", iff.Cond.String(), br, m.Pos(iff.Cond.Pos()))}, steps...)
				}
			}
			return false, "return at " + m.Pos(it.b.Instrs[len(it.b.Instrs)-1].Pos()) + " reached via [" + strings.Join(steps, "; ") + "]"
		}
		for _, s := range it.b.Succs {
			queue = append(queue, &item{b: s, from: it})
		}
	}
	return true, ""
}

func runPost1(m *Model, r *RuleResult) {
	m.fxInit()
	loc := igDG + ".Layers"
	n := 0
	for _, f := range m.Src {
		if f.Name() != "Process" && !m.FuncIsPosctl(f) {
			continue
		}
		if m.FuncIsPosctl(f) && !strings.Contains(f.Name(), "Post1") {
			continue
		}
		if !strings.HasPrefix(shortPkg(pkgPathOf(f)), "internal/phase") || len(f.Blocks) == 0 {
			continue
		}
		// does it establish the layer table itself: a direct store, or one in a function of its own package that it reaches
		any := storesInPkg(m, f, loc, map[*ssa.Function]bool{})
		if !any {
			continue
		}
		n++
		key := "layers-on-every-path:" + funcKey(f)
		ctl := m.FuncIsPosctl(f)
		if ok, path := escapePath(m, f, loc); ok {
			r.add(Obligation{Key: key, Pos: m.Pos(f.Pos()), Desc: "every path to a normal return of the layering phase builds DGraph.Layers", Verdict: "holds", Control: ctl})
		} else {
			r.add(Obligation{Key: key, Pos: m.Pos(f.Pos()), Desc: "every path to a normal return of the layering phase must build DGraph.Layers", Verdict: "violation",
				Detail: path + ": the layer table is not built on this path, and the following phases index g.Layers unconditionally (index out of range)", Control: ctl})
		}
	}
	r.stat("phase_entry_points_establishing_layers", n)
	post1Merge(m, r)
}

// post1Merge: the long-edge merge undoes phase 3's edge breaking; it must run on every path of the routing phase, whatever router is
// selected (added after seeded change C02h: the no-op router returned before the merge, so the output listed edge fragments between
// helper nodes instead of the input's edges). Exits under element-count / nil tests are tolerated.
func post1Merge(m *Model, r *RuleResult) {
	merge := m.anchorMerge()
	if merge == nil {
		r.undecided("merge-on-every-path", "-", "the long-edge merge of the routing phase", "not found")
		return
	}
	for _, f := range m.Src {
		if len(f.Blocks) == 0 || shortPkg(pkgPathOf(f)) != "internal/phase5" || f.Parent() != nil {
			continue
		}
		isProc := f.Name() == "Process" && f.Signature.Recv() != nil
		ctl := m.FuncIsPosctl(f)
		if !isProc && !(ctl && strings.Contains(f.Name(), "Post1")) {
			continue
		}
		est := map[*ssa.BasicBlock]bool{}
		eachInstr(f, func(in ssa.Instruction) {
			if ci, ok := in.(ssa.CallInstruction); ok {
				c := ci.Common().StaticCallee()
				if c == nil {
					return
				}
				if c == merge || (pkgPathOf(c) == pkgPathOf(f) && len(staticCalls(c, func(x *ssa.Function) bool { return x == merge })) > 0 && mustCall(c, merge)) {
					est[in.Block()] = true
				}
			}
		})
		key := "merge-on-every-path:" + funcKey(f)
		if len(est) == 0 {
			r.add(Obligation{Key: key, Pos: m.Pos(f.Pos()), Desc: "the routing phase merges the broken long edges", Verdict: "violation", Detail: "no call of " + merge.Name() + ": the output lists edge fragments between helper nodes", Control: ctl})
			continue
		}
		esc := escapeAvoiding(m, f, est)
		if esc == "" {
			r.add(Obligation{Key: key, Pos: m.Pos(f.Pos()), Desc: "every path to a normal return of the routing phase merges the broken long edges first", Verdict: "holds", Control: ctl})
		} else {
			r.add(Obligation{Key: key, Pos: m.Pos(f.Pos()), Desc: "every path to a normal return of the routing phase must merge the broken long edges", Verdict: "violation",
				Detail: esc + ": on this path the fragments that phase 3 made of every long edge stay in the edge list, and the output has edges between helper nodes instead of the input's edges", Control: ctl})
		}
	}
}

// mustCall: every entry->return path of f calls target.
func mustCall(f, target *ssa.Function) bool {
	est := map[*ssa.BasicBlock]bool{}
	eachInstr(f, func(in ssa.Instruction) {
		if ci, ok := in.(ssa.CallInstruction); ok && ci.Common().StaticCallee() == target {
			est[in.Block()] = true
		}
	})
	return escapeAvoiding(nil, f, est) == ""
}

// escapeAvoiding: a path from entry to a normal return that avoids the blocks in est and passes no element-count / nil test; "" if none.
func escapeAvoiding(m *Model, f *ssa.Function, est map[*ssa.BasicBlock]bool) string {
	type item struct {
		b    *ssa.BasicBlock
		from *item
	}
	seen := map[*ssa.BasicBlock]bool{}
	queue := []*item{{b: f.Blocks[0]}}
	for len(queue) > 0 {
		it := queue[0]
		queue = queue[1:]
		if seen[it.b] || est[it.b] {
			continue
		}
		seen[it.b] = true
		if ret, isRet := it.b.Instrs[len(it.b.Instrs)-1].(*ssa.Return); isRet {
			trivial, sawIf := false, false
			var steps []string
			for x := it; x != nil && x.from != nil; x = x.from {
				if iff, ok := x.from.b.Instrs[len(x.from.b.Instrs)-1].(*ssa.If); ok {
					if !sawIf && isCountOrNilTest(iff.Cond, 0) {
						trivial = true // the branch that decides for this return is an element-count / nil test
					}
					sawIf = true
					if m != nil {
						br := "true"
						if len(x.from.b.Succs) == 2 && x.from.b.Succs[1] == x.b {
							br = "false"
						}
						steps = append([]string{fmt.Sprintf("%s is %s at %s", iff.Cond.String(), br, m.Pos(iff.Cond.Pos()))}, steps...)
					}
				}
			}
			if trivial {
				continue
			}
			if m == nil {
				return "escape"
			}
			return "return at " + m.Pos(ret.Pos()) + " reached via [" + strings.Join(steps, "; ") + "]"
		}
		for _, s := range it.b.Succs {
			queue = append(queue, &item{b: s, from: it})
		}
	}
	return ""
}

// storesInPkg: f, or a function of f's package reachable from f through static calls, stores the field loc directly.
func storesInPkg(m *Model, f *ssa.Function, loc string, seen map[*ssa.Function]bool) bool {
	if seen[f] || len(f.Blocks) == 0 {
		return false
	}
	seen[f] = true
	found := false
	eachInstr(f, func(in ssa.Instruction) {
		switch x := in.(type) {
		case *ssa.Store:
			if fa, ok := x.Addr.(*ssa.FieldAddr); ok {
				_, steps := fieldChain(fa)
				if locOfSteps(steps) == loc {
					found = true
				}
			}
		case ssa.CallInstruction:
			if c := x.Common().StaticCallee(); c != nil && pkgPathOf(c) == pkgPathOf(f) && storesInPkg(m, c, loc, seen) {
				found = true
			}
		}
	})
	return found
}

// ---------- SPLIT-1 ----------

func init() {
	register(&Rule{
		ID: "SPLIT-1",
		Doc: "the component split loses nothing: in package connected every insertion into a visited set - a map keyed by *Node or *Edge - is conditional on nothing but a membership test of that same set for that same key (a node insertion may also sit behind an edge-set test: the node is reached through the edge); " +
			"an edge recorded only when, say, its far end is still unvisited drops every edge that closes an undirected cycle (parallel and antiparallel copies, chords) from its component, and the output is collected from the components",
		Floor: 2,
		Ctl:   []string{"internal__graph__connected__split1.go.txt"},
		Run:   runSplit1,
	})
}

func runSplit1(m *Model, r *RuleResult) {
	split1FreshSets(m, r)
	top := func(f *ssa.Function) *ssa.Function {
		for f.Parent() != nil {
			f = f.Parent()
		}
		return f
	}
	for _, f := range m.Src {
		if shortPkg(pkgPathOf(f)) != "internal/graph/connected" {
			continue
		}
		_ = top
		loops := naturalLoops(f)
		n := 0
		eachInstr(f, func(in ssa.Instruction) {
			mu, ok := in.(*ssa.MapUpdate)
			if !ok {
				return
			}
			mt, ok := mu.Map.Type().Underlying().(*types.Map)
			if !ok {
				return
			}
			kind := ""
			switch namedKey(mt.Key()) {
			case igNode:
				kind = "node"
			case igEdge:
				kind = "edge"
			default:
				return
			}
			n++
			key := fmt.Sprintf("visited-%s-insert:%s#%d", kind, funcKey(f), n)
			ctl := m.FuncIsPosctl(f)
			var bad []string
			for _, d := range iterationControlDeps(in.Block(), loops) {
				mp, k, isTest := membershipTest(d.If.Cond)
				if isTest && k == mu.Key && sameMapValue(mp, mu.Map) {
					continue
				}
				// a node is reached through an edge: its insertion may sit behind the "edge already seen" test (the far end
				// of a seen edge has been handled when that edge was first seen); the converse is the defect
				if isTest && kind == "node" {
					if mt2, ok := mp.Type().Underlying().(*types.Map); ok && namedKey(mt2.Key()) == igEdge {
						continue
					}
				}
				// a nil test of the key itself: nothing that is reached is left out by it
				if bo, ok := d.If.Cond.(*ssa.BinOp); ok && (bo.Op == token.EQL || bo.Op == token.NEQ) {
					if c, isC := bo.Y.(*ssa.Const); isC && c.Value == nil && (bo.X == mu.Key || sameSSAExpr(bo.X, mu.Key, 0)) {
						continue
					}
				}
				bad = append(bad, d.If.Cond.String()+" at "+m.Pos(d.If.Cond.Pos()))
			}
			if len(bad) == 0 {
				r.add(Obligation{Key: key, Pos: m.Pos(in.Pos()), Desc: "the " + kind + " is recorded as visited whenever it is reached (only its own membership test guards the insertion)", Verdict: "holds", Control: ctl})
			} else {
				r.add(Obligation{Key: key, Pos: m.Pos(in.Pos()), Desc: "every reached " + kind + " must be recorded in its component", Verdict: "violation",
					Detail: "the insertion also depends on " + strings.Join(bad, "; ") + ": " + kind + "s that are reached when that condition fails are left out of the component, hence out of the returned layout", Control: ctl})
			}
		})
	}
}

// sameMapValue: the two map operands denote the same map (same SSA value, or loads of the same cell / same parameter).
func sameMapValue(a, b ssa.Value) bool {
	if a == b {
		return true
	}
	ua, ok1 := a.(*ssa.UnOp)
	ub, ok2 := b.(*ssa.UnOp)
	if ok1 && ok2 && ua.Op == token.MUL && ub.Op == token.MUL && (ua.X == ub.X || sameSSAExpr(ua.X, ub.X, 0)) {
		return true
	}
	return false
}

// split1FreshSets: the sets from which a component is cut hold the marks of one walk only. Every node / edge set handed to
// the function that builds a component (it stores DGraph.Nodes / DGraph.Edges of a fresh graph) is either allocated in the
// same loop iteration as that call or emptied with clear() in it: a scratch set that is reused but not cleared still holds
// the previous components' edges, and the next component is built with edges whose nodes it does not contain.
func split1FreshSets(m *Model, r *RuleResult) {
	m.fxInit()
	for _, f := range m.Src {
		if shortPkg(pkgPathOf(f)) != "internal/graph/connected" {
			continue
		}
		loops := naturalLoops(f)
		ctl := m.FuncIsPosctl(f)
		eachInstr(f, func(in ssa.Instruction) {
			call, ok := in.(*ssa.Call)
			if !ok {
				return
			}
			c := call.Call.StaticCallee()
			if c == nil || pkgPathOf(c) != pkgPathOf(f) || c == f {
				return
			}
			builds := false
			if e := m.effects[c]; e != nil {
				for _, w := range e.Writes {
					if w.Loc == igDG+".Nodes" || w.Loc == igDG+".Edges" {
						builds = true
					}
				}
			}
			if !builds {
				return
			}
			inLoops := loopsContaining(loops, call.Block())
			var bad []string
			nsets := 0
			for _, a := range call.Call.Args {
				mt, isMap := a.Type().Underlying().(*types.Map)
				if !isMap {
					continue
				}
				switch namedKey(mt.Key()) {
				case igNode, igEdge:
				default:
					continue
				}
				nsets++
				if len(inLoops) == 0 {
					continue // outside any loop: the sets of the first walk
				}
				inner := inLoops[0]
				fresh := false
				if mk, isMk := a.(*ssa.MakeMap); isMk && inner.Body[mk.Block()] {
					fresh = true
				}
				// returned, in this iteration, by a helper of the package that allocates it
				var src *ssa.Call
				idx := 0
				switch x := a.(type) {
				case *ssa.Extract:
					src, _ = x.Tuple.(*ssa.Call)
					idx = x.Index
				case *ssa.Call:
					src = x
				}
				if src != nil && inner.Body[src.Block()] {
					if h := src.Call.StaticCallee(); h != nil && pkgPathOf(h) == pkgPathOf(f) && len(h.Blocks) > 0 {
						nret, all := 0, true
						eachInstr(h, func(in2 ssa.Instruction) {
							if ret, ok := in2.(*ssa.Return); ok && idx < len(ret.Results) {
								nret++
								if _, isMk := ret.Results[idx].(*ssa.MakeMap); !isMk {
									all = false
								}
							}
						})
						if nret > 0 && all {
							fresh = true
						}
					}
				}
				if !fresh {
					// clear(a) in this iteration, before the call
					eachInstr(f, func(in2 ssa.Instruction) {
						c2, ok := in2.(*ssa.Call)
						if !ok || !inner.Body[c2.Block()] || !instrDominates(c2, call) {
							return
						}
						if b, isB := c2.Call.Value.(*ssa.Builtin); isB && b.Name() == "clear" && len(c2.Call.Args) == 1 && c2.Call.Args[0] == a {
							fresh = true
						}
					})
				}
				if !fresh {
					bad = append(bad, "the set "+a.Name()+" passed at "+m.Pos(call.Pos())+" is neither allocated nor cleared in the iteration that builds the component: it still holds what earlier components left in it")
				}
			}
			if nsets == 0 {
				return
			}
			key := "component-sets-fresh:" + funcKey(f) + "->" + c.Name()
			for _, o := range r.Obligations {
				if o.Key == key && o.Verdict == "holds" && len(bad) == 0 {
					return
				}
			}
			if len(bad) == 0 {
				r.add(Obligation{Key: key, Pos: m.Pos(call.Pos()), Desc: "a component is cut from sets that hold the marks of one walk only", Verdict: "holds", Control: ctl})
			} else {
				r.add(Obligation{Key: key, Pos: m.Pos(call.Pos()), Desc: "a component is cut from sets that hold the marks of one walk only", Verdict: "violation", Detail: strings.Join(uniq(bad), "; "), Control: ctl})
			}
		})
	}
}

// ---------- ACYC-1 ----------

func init() {
	register(&Rule{
		ID: "ACYC-1",
		Doc: "the acyclicity test is complete: the boolean test whose negative verdict lets the cycle-breaking phase return early (resolved by shape from Process of phase 1) reports \"no cycle\" only after a complete scan (index 0..len-1, no early exit other than reporting a cycle) of the graph's node list, " +
			"starting its search from every node that the searches so far have not visited - the call of the recursive search on the scanned node depends on nothing but membership tests of that node. " +
			"A test that starts from source nodes only calls a ring acyclic; the breakers are skipped and every later phase recurses or loops on the cycle",
		Floor: 1,
		Ctl:   []string{"internal__phase1__acyc1.go.txt"},
		Run:   runAcyc1,
	})
}

// anchorAcyclicityTest: the bool-returning callee of phase 1's Process whose result decides an early return.
func (m *Model) anchorAcyclicityTest() *ssa.Function {
	process := m.SSAFunc("internal/phase1", "(Alg).Process")
	if process == nil {
		return nil
	}
	for _, b := range process.Blocks {
		iff, ok := b.Instrs[len(b.Instrs)-1].(*ssa.If)
		if !ok {
			continue
		}
		cond := iff.Cond
		if u, ok := cond.(*ssa.UnOp); ok && u.Op == token.NOT {
			cond = u.X
		}
		call, ok := cond.(*ssa.Call)
		if !ok || call.Call.StaticCallee() == nil || pkgPathOf(call.Call.StaticCallee()) != pkgPathOf(process) {
			continue
		}
		for _, s := range b.Succs {
			if len(s.Instrs) == 1 {
				if _, isRet := s.Instrs[0].(*ssa.Return); isRet {
					return call.Call.StaticCallee()
				}
			}
		}
	}
	return nil
}

func runAcyc1(m *Model, r *RuleResult) {
	var tests []*ssa.Function
	if t := m.anchorAcyclicityTest(); t != nil {
		tests = append(tests, t)
	}
	for _, f := range m.Src {
		if m.FuncIsPosctl(f) && strings.Contains(f.Name(), "Acyc1") && f.Parent() == nil && f.Signature.Results().Len() == 1 && len(f.Params) == 1 {
			tests = append(tests, f)
		}
	}
	if len(tests) == 0 {
		r.undecided("acyclicity-test", "-", "the acyclicity test of phase 1", "not found")
		return
	}
	for _, t := range tests {
		ctl := m.FuncIsPosctl(t)
		key := "complete:" + funcKey(t)
		loops := naturalLoops(t)
		var bad []string
		nFalse := 0
		// the node list of the graph parameter
		isNodes := func(v ssa.Value) bool {
			u, ok := v.(*ssa.UnOp)
			if !ok || u.Op != token.MUL {
				return false
			}
			fa, ok := u.X.(*ssa.FieldAddr)
			if !ok {
				return false
			}
			base, steps := fieldChain(fa)
			if locOfSteps(steps) != igDG+".Nodes" {
				return false
			}
			_, isParam := base.(*ssa.Parameter)
			return isParam
		}
		eachInstr(t, func(in ssa.Instruction) {
			ret, ok := in.(*ssa.Return)
			if !ok || len(ret.Results) != 1 {
				return
			}
			c, isC := ret.Results[0].(*ssa.Const)
			if !isC || !isConstBool(c, false) {
				return
			}
			nFalse++
			b := ret.Block()
			if len(b.Preds) != 1 {
				bad = append(bad, "\"no cycle\" is reported from several places")
				return
			}
			var l *loopInfo
			for _, x := range loops {
				if x.Head == b.Preds[0] {
					l = x
				}
			}
			if l == nil {
				bad = append(bad, "\"no cycle\" is not reported at the end of a scan loop (at "+m.Pos(ret.Pos())+")")
				return
			}
			// the scanned slice: the len() operand of the header test
			var scanned ssa.Value
			if iff, ok := l.Head.Instrs[len(l.Head.Instrs)-1].(*ssa.If); ok {
				if bo, ok := iff.Cond.(*ssa.BinOp); ok {
					if call, ok := bo.Y.(*ssa.Call); ok && len(call.Call.Args) == 1 {
						scanned = call.Call.Args[0]
					}
				}
			}
			if scanned == nil || !isNodes(scanned) {
				bad = append(bad, "the scan that precedes \"no cycle\" does not run over the graph's node list (searches are started from "+fmt.Sprint(scanned)+")")
				return
			}
			idx, okScan, why := fullScanLoop(l, scanned)
			if !okScan {
				bad = append(bad, "\"no cycle\" is reported after an incomplete scan of the node list: "+why)
				return
			}
			for bb := range l.Body {
				for _, s := range bb.Succs {
					if !l.Body[s] && bb != l.Head {
						if rt, isRet := s.Instrs[len(s.Instrs)-1].(*ssa.Return); !isRet || len(rt.Results) != 1 || !isConstBoolValue(rt.Results[0], true) {
							bad = append(bad, "the scan can be left early at "+m.Pos(bb.Instrs[len(bb.Instrs)-1].Pos())+" without reporting a cycle")
						}
					}
				}
			}
			// the search on the scanned node is guarded by nothing but membership tests of that node
			nSearch := 0
			for bb := range l.Body {
				for _, bi := range bb.Instrs {
					call, ok := bi.(*ssa.Call)
					if !ok || call.Call.StaticCallee() == nil || !inModule(call.Call.StaticCallee()) || len(call.Call.Args) == 0 {
						continue
					}
					// an argument (the receiver of a state-holding method aside): element of the scanned list at the loop index
					var u *ssa.UnOp
					for _, a := range call.Call.Args {
						cand, ok := a.(*ssa.UnOp)
						if !ok || cand.Op != token.MUL {
							continue
						}
						ia, ok := cand.X.(*ssa.IndexAddr)
						if !ok || !(ia.X == scanned || sameSSAExpr(ia.X, scanned, 0)) {
							continue
						}
						u = cand
					}
					if u == nil {
						continue
					}
					_ = idx
					nSearch++
					for _, d := range iterationControlDeps(bb, loops) {
						if _, k, isTest := membershipTest(d.If.Cond); isTest && k == ssa.Value(u) {
							continue
						}
						bad = append(bad, "the search from a node is skipped under "+d.If.Cond.String()+" at "+m.Pos(d.If.Cond.Pos()))
					}
				}
			}
			if nSearch == 0 {
				bad = append(bad, "no search is started from the scanned node")
			}
		})
		if nFalse == 0 {
			bad = append(bad, "the test never reports \"no cycle\" with a constant")
		}
		if len(bad) == 0 {
			r.add(Obligation{Key: key, Pos: m.Pos(t.Pos()), Desc: "\"no cycle\" is reported only after a search was started from every not yet visited node of the graph", Verdict: "holds", Control: ctl})
		} else {
			r.add(Obligation{Key: key, Pos: m.Pos(t.Pos()), Desc: "the acyclicity test must start a search from every node before it reports \"no cycle\"", Verdict: "violation",
				Detail: strings.Join(uniq(bad), "; ") + ": a cycle that the searches do not reach is missed, cycle breaking is skipped, and layering/positioning recurse on the cycle", Control: ctl})
		}
	}
}

func isConstBoolValue(v ssa.Value, want bool) bool {
	c, ok := v.(*ssa.Const)
	return ok && isConstBool(c, want)
}

// ---------- OPTS-1 ----------

func init() {
	register(&Rule{
		ID: "OPTS-1",
		Doc: "options reach the parameters unchanged: in every exported option constructor of package autog (a function returning Option whose result is a closure over *options) each store into a field of the options / parameter record is unconditional, " +
			"and what is stored is the constructor's own argument (captured), a constant, or a function literal; a guard such as `if spacing > 0` silently replaces a legal value (0 is a legal spacing) by the default. " +
			"A constructor that takes arguments stores no constant on the side (the thoroughness option must not also select the layerer), and neither the closure nor the functions it installs write a captured variable or map (an Option value may be reused and shared: state captured in it survives the call)",
		Floor: 8,
		Ctl:   []string{"ROOT__opts1.go.txt"},
		Run:   runOpts1,
	})
}

func runOpts1(m *Model, r *RuleResult) {
	for _, f := range m.Src {
		if pkgPathOf(f) != modPath || f.Parent() != nil || f.Object() == nil || !f.Object().Exported() {
			continue
		}
		res := f.Signature.Results()
		if res.Len() != 1 || namedKey(res.At(0).Type()) != "autog.Option" {
			continue
		}
		ctl := m.FuncIsPosctl(f)
		key := "option:" + funcKey(f)
		// what the Option value does to the record it is applied to: evaluated abstractly, through combinators of the package
		// (`withParams(func(p *Params) { p.X = x })`, `assign(func(o *options) *T { return &o.f }, v)`) as well
		ev := &optsEval{m: m, ctor: f}
		var args []optVal
		for _, p := range f.Params {
			args = append(args, optVal{kind: "arg", param: p})
		}
		opt := ev.exec(optVal{kind: "func", fn: f}, args, false, 0)
		if opt.kind != "func" {
			r.add(Obligation{Key: key, Pos: m.Pos(f.Pos()), Desc: "option constructor", Verdict: "undecided", Detail: "the result is not a function literal (nor a combinator of the package applied to function literals)", Control: ctl})
			continue
		}
		ev.stores = nil
		ev.exec(opt, []optVal{{kind: "record"}}, false, 0)
		var bad []string
		n := 0
		for _, st := range ev.stores {
			if !strings.HasPrefix(st.loc, "autog.options.") && !strings.HasPrefix(st.loc, igPar+".") {
				continue
			}
			n++
			if st.cond != "" {
				bad = append(bad, fmt.Sprintf("the store into %s at %s happens only under %s: a legal value is silently replaced by the default", strings.TrimPrefix(st.loc, "autog.options."), m.Pos(st.pos), st.cond))
			}
			switch st.val.kind {
			case "arg", "func":
			case "const":
				// a constructor that takes arguments sets fields from them and from nothing else: a constant stored on the side
				// (say, the layering algorithm inside the thoroughness option) silently overrides another option of the same call
				if len(f.Params) > 0 {
					bad = append(bad, "besides its own argument the option sets "+strings.TrimPrefix(st.loc, "autog.options.")+" to a constant at "+m.Pos(st.pos)+" (another option of the same call is silently overridden)")
				}
			default:
				bad = append(bad, "the value stored into "+st.loc+" at "+m.Pos(st.pos)+" is computed ("+st.val.desc+"), not the constructor's argument")
			}
		}
		bad = append(bad, ev.undec...)
		// no state captured by the option (or by the functions it installs) is written: an Option value may be reused for
		// several Layout calls, and concurrent calls may share it
		var family []*ssa.Function
		var collect func(g *ssa.Function)
		collect = func(g *ssa.Function) {
			family = append(family, g)
			for _, a := range g.AnonFuncs {
				collect(a)
			}
		}
		collect(f)
		for _, g := range family {
			eachInstr(g, func(in ssa.Instruction) {
				var addr ssa.Value
				switch x := in.(type) {
				case *ssa.Store:
					addr = x.Addr
				case *ssa.MapUpdate:
					// a captured map
					mv := x.Map
					if u, ok := mv.(*ssa.UnOp); ok && u.Op == token.MUL {
						mv = u.X
					}
					if _, isFV := mv.(*ssa.FreeVar); isFV {
						bad = append(bad, "a captured map is updated at "+m.Pos(x.Pos())+": the Option value carries state from one Layout call to the next")
					}
					return
				default:
					return
				}
				for {
					switch a := addr.(type) {
					case *ssa.FieldAddr:
						addr = a.X
						continue
					case *ssa.IndexAddr:
						addr = a.X
						continue
					}
					break
				}
				if fv, isFV := addr.(*ssa.FreeVar); isFV {
					bad = append(bad, "the captured variable "+fv.Name()+" is written at "+m.Pos(in.Pos())+": the Option value carries state from one Layout call to the next (and between concurrent calls)")
				}
				// a variable of the constructor itself that its closures capture and the constructor's closures write is caught above;
				// the constructor's own writes to its locals before returning are initialisation
			})
		}
		switch {
		case n == 0:
			r.add(Obligation{Key: key, Pos: m.Pos(f.Pos()), Desc: "option constructor must set a field of the options record", Verdict: "violation", Detail: "no store into the options / parameter record: the option has no effect", Control: ctl})
		case len(bad) > 0:
			r.add(Obligation{Key: key, Pos: m.Pos(f.Pos()), Desc: "an option hands its argument to the parameters unchanged and unconditionally, sets nothing else, and keeps no state", Verdict: "violation",
				Detail: strings.Join(bad, "; "), Control: ctl})
		default:
			r.add(Obligation{Key: key, Pos: m.Pos(f.Pos()), Desc: fmt.Sprintf("stores its argument (or a constant / function literal) into the record unconditionally (%d store(s))", n), Verdict: "holds", Control: ctl})
		}
	}
}

// optsEval: a small abstract interpreter for option constructors. Values are classified as the exported constructor's own
// argument, a constant, a function value (with the bindings of its free variables), a pointer into the options / parameter
// record, or computed.
type optVal struct {
	kind  string // arg | const | func | record | computed | none
	param *ssa.Parameter
	fn    *ssa.Function
	fv    map[*ssa.FreeVar]optVal
	desc  string
}

type optStoreEv struct {
	loc  string
	pos  token.Pos
	cond string
	val  optVal
}

type optsEval struct {
	m      *Model
	ctor   *ssa.Function
	stores []optStoreEv
	undec  []string
}

// exec applies a function value to arguments and returns the class of its result; stores into the record are collected.
func (ev *optsEval) exec(fv optVal, args []optVal, cond bool, depth int) optVal {
	if fv.kind != "func" || fv.fn == nil || len(fv.fn.Blocks) == 0 || depth > 5 {
		return optVal{kind: "computed", desc: "call of an unknown function"}
	}
	fn := fv.fn
	vals := map[ssa.Value]optVal{}
	for i, p := range fn.Params {
		if i < len(args) {
			vals[p] = args[i]
		}
	}
	var root func(v ssa.Value, d int) optVal
	root = func(v ssa.Value, d int) optVal {
		if r, ok := vals[v]; ok {
			return r
		}
		if d > 8 {
			return optVal{kind: "computed", desc: v.String()}
		}
		switch x := v.(type) {
		case *ssa.Const:
			return optVal{kind: "const"}
		case *ssa.Function:
			return optVal{kind: "func", fn: x}
		case *ssa.MakeClosure:
			cl, _ := x.Fn.(*ssa.Function)
			b := map[*ssa.FreeVar]optVal{}
			for i, bv := range x.Bindings {
				if cl != nil && i < len(cl.FreeVars) {
					b[cl.FreeVars[i]] = root(bv, d+1)
				}
			}
			return optVal{kind: "func", fn: cl, fv: b}
		case *ssa.FreeVar:
			if r, ok := fv.fv[x]; ok {
				return r
			}
		case *ssa.ChangeType:
			return root(x.X, d+1)
		case *ssa.MakeInterface:
			return root(x.X, d+1)
		case *ssa.Convert:
			r := root(x.X, d+1)
			if r.kind == "arg" || r.kind == "const" {
				return r
			}
		case *ssa.FieldAddr:
			if r := root(x.X, d+1); r.kind == "record" {
				return r
			}
		case *ssa.Alloc:
			// a parameter spilled into a cell because closures capture it: the cell holds what is stored into it
			var only *ssa.Store
			cnt := 0
			if x.Referrers() != nil {
				for _, ref := range *x.Referrers() {
					if st, ok := ref.(*ssa.Store); ok && st.Addr == ssa.Value(x) {
						only = st
						cnt++
					}
				}
			}
			if cnt == 1 {
				return root(only.Val, d+1)
			}
		case *ssa.Call:
			// a helper of the package that builds a function value (`sizeFromMap(sizes)` returning the size closure)
			if sc := x.Call.StaticCallee(); sc != nil && pkgPathOf(sc) == pkgPathOf(ev.ctor) && depth < 4 {
				var as []optVal
				for _, a := range x.Call.Args {
					as = append(as, root(a, d+1))
				}
				if r := ev.exec(optVal{kind: "func", fn: sc}, as, cond, depth+1); r.kind == "func" {
					vals[v] = r
					return r
				}
			}
		case *ssa.UnOp:
			if x.Op == token.MUL {
				// load of a captured cell (free variable by reference) or of a spilled parameter
				if r := root(x.X, d+1); r.kind == "arg" || r.kind == "const" || r.kind == "func" {
					return r
				}
			}
		}
		return optVal{kind: "computed", desc: v.String()}
	}
	ret := optVal{kind: "none"}
	for _, b := range fn.Blocks {
		c := cond
		condDesc := ""
		if deps := transitiveControlDeps(b); len(deps) > 0 {
			c = true
			condDesc = deps[0].If.Cond.String()
		}
		for _, in := range b.Instrs {
			switch x := in.(type) {
			case *ssa.Store:
				if root(x.Addr, 0).kind != "record" {
					continue
				}
				loc := ""
				if fa, ok := x.Addr.(*ssa.FieldAddr); ok {
					_, steps := fieldChain(fa)
					loc = locOfSteps(steps)
				} else if call, ok := x.Addr.(*ssa.Call); ok {
					loc = "autog.options.<" + call.Call.Value.Name() + ">"
					if l, ok := vals[x.Addr]; ok && l.desc != "" {
						loc = l.desc
					}
				}
				cd := ""
				if c {
					cd = condDesc
					if cd == "" {
						cd = "a condition of the enclosing combinator"
					}
				}
				ev.stores = append(ev.stores, optStoreEv{loc: loc, pos: x.Pos(), cond: cd, val: root(x.Val, 0)})
			case ssa.CallInstruction:
				cc := x.Common()
				if cc.IsInvoke() {
					continue
				}
				if _, isB := cc.Value.(*ssa.Builtin); isB {
					continue
				}
				var callee optVal
				if sc := cc.StaticCallee(); sc != nil {
					if pkgPathOf(sc) != pkgPathOf(ev.ctor) {
						continue
					}
					callee = root(cc.Value, 0)
					if callee.kind != "func" {
						callee = optVal{kind: "func", fn: sc}
					}
				} else {
					callee = root(cc.Value, 0)
				}
				var as []optVal
				touches := false
				for _, a := range cc.Args {
					ra := root(a, 0)
					as = append(as, ra)
					if ra.kind == "record" || ra.kind == "func" {
						touches = true
					}
				}
				if callee.kind != "func" {
					if touches {
						for _, ra := range as {
							if ra.kind == "record" {
								ev.undec = append(ev.undec, "the record is handed to a function that cannot be resolved at "+ev.m.Pos(in.Pos()))
							}
						}
					}
					continue
				}
				// only follow calls that can reach the record or build the option
				if !touches && fn != ev.ctor {
					continue
				}
				res := ev.exec(callee, as, c, depth+1)
				if v, ok := in.(ssa.Value); ok {
					if res.kind == "record" {
						// a pointer into the record returned by a selector function: remember which field
						res.desc = recordFieldReturned(callee.fn)
					}
					vals[v] = res
				}
			case *ssa.Return:
				if len(x.Results) == 1 {
					r := root(x.Results[0], 0)
					if ret.kind == "none" {
						ret = r
					} else if ret.kind != r.kind || ret.fn != r.fn || ret.param != r.param {
						ret = optVal{kind: "computed", desc: "different results on different paths"}
					}
				}
			}
		}
	}
	return ret
}

// recordFieldReturned: the field whose address a selector function `func(o *options) *T { return &o.f }` returns
func recordFieldReturned(f *ssa.Function) string {
	loc := ""
	if f == nil {
		return loc
	}
	eachInstr(f, func(in ssa.Instruction) {
		if ret, ok := in.(*ssa.Return); ok && len(ret.Results) == 1 {
			if fa, ok := ret.Results[0].(*ssa.FieldAddr); ok {
				_, steps := fieldChain(fa)
				loc = locOfSteps(steps)
			}
		}
	})
	return loc
}

// ---------- DISP-1 ----------

func init() {
	register(&Rule{
		ID: "DISP-1",
		Doc: "the algorithm that runs is the one the option names: in every Process method of the five phase packages, which dispatch target is called - a function of the package taking the graph that is called under a comparison of the receiver with an algorithm constant - depends on nothing but such comparisons; " +
			"any other condition on the way to a target must be an early-exit guard (its other branch reaches no target), and in the layering, positioning and routing phases such a guard may test nothing about the graph but nil-ness and element counts (a fast path chosen by the shape of the graph skips the selected algorithm for exactly the inputs whose guarantees it was selected for). A size-gated fallback (`if len(g.Nodes) > 512 { greedy } else { depth-first }`) silently replaces the documented algorithm and its guarantees",
		Floor:  4,
		Ctl:    []string{"internal__phase1__disp1.go.txt", "internal__phase4__disp1.go.txt"},
		MinCtl: 2,
		Run:    runDisp1,
	})
}

func runDisp1(m *Model, r *RuleResult) {
	for _, f := range m.Src {
		sp := shortPkg(pkgPathOf(f))
		if !strings.HasPrefix(sp, "internal/phase") || f.Parent() != nil {
			continue
		}
		isProc := f.Name() == "Process" && f.Signature.Recv() != nil
		ctl := m.FuncIsPosctl(f)
		if ctl && !strings.Contains(f.Name(), "Disp1") {
			continue
		}
		if !isProc && !ctl {
			continue
		}
		if len(f.Params) == 0 {
			continue
		}
		recv := ssa.Value(f.Params[0])
		notRecv := map[ssa.Value]bool{}
		isAlgTest := func(c ssa.Value) bool {
			bo, ok := c.(*ssa.BinOp)
			if !ok || (bo.Op != token.EQL && bo.Op != token.NEQ) {
				return false
			}
			strip := func(v ssa.Value) ssa.Value {
				for {
					switch x := v.(type) {
					case *ssa.ChangeType:
						v = x.X
						continue
					case *ssa.Convert:
						v = x.X
						continue
					}
					return v
				}
			}
			_, c1 := bo.Y.(*ssa.Const)
			_, c0 := bo.X.(*ssa.Const)
			if (strip(bo.X) == recv && c1) || (strip(bo.Y) == recv && c0) {
				return true
			}
			// a value of the algorithm type that is not the receiver itself (the receiver variable was overwritten on some path)
			other := bo.X
			if c0 {
				other = bo.Y
			}
			if (c0 || c1) && !(c0 && c1) && types.Identical(strip(other).Type(), recv.Type()) {
				if _, isNamed := recv.Type().(*types.Named); isNamed {
					notRecv[strip(other)] = true
					return true
				}
			}
			return false
		}
		// dispatch targets: same-package static callees taking the graph, called under an algorithm test
		type site struct {
			in  ssa.CallInstruction
			fn  *ssa.Function
			dep []ctrlDep
		}
		var sites []site
		eachInstr(f, func(in ssa.Instruction) {
			ci, ok := in.(ssa.CallInstruction)
			if !ok {
				return
			}
			c := ci.Common().StaticCallee()
			if c == nil || pkgPathOf(c) != pkgPathOf(f) || len(c.Params) == 0 || namedKey(c.Params[0].Type()) != igDG {
				return
			}
			deps := transitiveControlDeps(in.Block())
			// inside one case of the dispatch: dominated by the "equal" successor of an algorithm test (code after the
			// switch, common to all cases, is not)
			under := false
			for _, d := range deps {
				if !isAlgTest(d.If.Cond) {
					continue
				}
				bo := d.If.Cond.(*ssa.BinOp)
				eq := d.If.Block().Succs[0]
				if bo.Op == token.NEQ {
					eq = d.If.Block().Succs[1]
				}
				if eq == in.Block() || eq.Dominates(in.Block()) {
					under = true
				}
			}
			if under {
				sites = append(sites, site{ci, c, deps})
			}
		})
		// exclusivity (added after seeded change C06f: a pre-pass in front of the dispatch routed "trivial" edges itself, with a route the
		// selected router would not have produced): the phase's own output field is written, in Process, only inside a case of the dispatch
		if owned := map[string]string{"internal/phase2": igNode + ".Layer", "internal/phase4": igNode + ".X", "internal/phase5": igEdge + ".Points"}[sp]; owned != "" && len(sites) > 0 && isProc {
			m.fxInit()
			underAlg := func(b *ssa.BasicBlock) bool {
				for _, d := range transitiveControlDeps(b) {
					if !isAlgTest(d.If.Cond) {
						continue
					}
					bo := d.If.Cond.(*ssa.BinOp)
					eq := d.If.Block().Succs[0]
					if bo.Op == token.NEQ {
						eq = d.If.Block().Succs[1]
					}
					if eq == b || eq.Dominates(b) {
						return true
					}
				}
				return false
			}
			var outside []string
			eachInstr(f, func(in ssa.Instruction) {
				switch x := in.(type) {
				case *ssa.Store:
					if fa, ok := x.Addr.(*ssa.FieldAddr); ok {
						_, steps := fieldChain(fa)
						if locOfSteps(steps) == owned && !underAlg(in.Block()) {
							outside = append(outside, "store at "+m.Pos(in.Pos()))
						}
					}
				case ssa.CallInstruction:
					for _, c := range m.Callees(x) {
						if e := m.effects[c]; e != nil && inModule(c) && e.Mod[owned] && !underAlg(in.Block()) {
							outside = append(outside, "call of "+c.Name()+" at "+m.Pos(in.Pos()))
						}
					}
				}
			})
			xkey := "exclusive:" + funcKey(f)
			if len(outside) == 0 {
				r.add(Obligation{Key: xkey, Pos: m.Pos(f.Pos()), Desc: "the phase's output (" + owned + ") is written only inside a case of the dispatch", Verdict: "holds", Control: ctl})
			} else {
				r.add(Obligation{Key: xkey, Pos: m.Pos(f.Pos()), Desc: "the phase's output (" + owned + ") must be written only by the selected algorithm", Verdict: "violation",
					Detail: strings.Join(uniq(outside), "; ") + " writes " + owned + " outside every case of the dispatch: part of the result is produced by code that runs whatever algorithm was selected, without the selected algorithm's guarantees", Control: ctl})
			}
		}
		if len(sites) > 0 && len(notRecv) > 0 {
			var vs []string
			for v := range notRecv {
				vs = append(vs, v.String()+" at "+m.Pos(v.Pos()))
			}
			sort.Strings(vs)
			r.add(Obligation{Key: "dispatch-value:" + funcKey(f), Pos: m.Pos(f.Pos()), Desc: "the dispatch compares the receiver (the option's value) with the algorithm constants", Verdict: "violation",
				Detail: "the dispatched value is " + strings.Join(vs, "; ") + ", not the receiver: the algorithm value is replaced on some path before the dispatch, so the caller silently gets a different algorithm than the one selected", Control: ctl})
		}
		isTargetBlock := map[*ssa.BasicBlock]bool{}
		for _, s := range sites {
			isTargetBlock[s.in.Block()] = true
		}
		reachesTarget := func(b *ssa.BasicBlock) bool {
			if isTargetBlock[b] {
				return true
			}
			for x := range blocksReachableFrom(b) {
				if isTargetBlock[x] {
					return true
				}
			}
			return false
		}
		for _, s := range sites {
			key := "dispatch:" + funcKey(f) + "->" + s.fn.Name()
			var bad []string
			for _, d := range s.dep {
				if isAlgTest(d.If.Cond) {
					continue
				}
				other := d.If.Block().Succs[1-d.Branch]
				if reachesTarget(other) {
					bad = append(bad, d.If.Cond.String()+" at "+m.Pos(d.If.Cond.Pos()))
				}
			}
			// a condition that lets the call leave before the dispatch (its other branch reaches no target) may look at the algorithm
			// constant, at nil-ness and at element counts only: a fast path chosen by the shape of the graph skips the selected
			// algorithm for exactly the inputs it was selected for (phase 1's acyclicity exit is ACYC-1/ORD-5's business, phase 3's
			// ordering is trivially right on one-node layers)
			if ph := shortPkg(pkgPathOf(f)); ph == "internal/phase2" || ph == "internal/phase4" || ph == "internal/phase5" {
				var shape []string
				for _, d := range s.dep {
					if isAlgTest(d.If.Cond) || reachesTarget(d.If.Block().Succs[1-d.Branch]) {
						continue
					}
					if !isCountOrNilTest(d.If.Cond, 0) && dependsOnGraphParam(d.If.Cond, map[ssa.Value]bool{}, 0) {
						shape = append(shape, d.If.Cond.String()+" at "+m.Pos(d.If.Cond.Pos()))
					}
				}
				bkey := "bypass:" + funcKey(f)
				had := false
				for _, o := range r.Obligations {
					if o.Key == bkey {
						had = true
					}
				}
				hadBad := false
				for _, o := range r.Obligations {
					if o.Key == bkey && o.Verdict == "violation" {
						hadBad = true
					}
				}
				if len(shape) > 0 && hadBad {
					// reported once per Process method
				} else if len(shape) > 0 {
					r.add(Obligation{Key: bkey, Pos: m.Pos(s.in.Pos()), Desc: "the selected algorithm is skipped only for trivial graphs (element counts, nil) or by the algorithm constant", Verdict: "violation",
						Detail: "whether " + s.fn.Name() + " runs at all depends on " + strings.Join(uniq(shape), "; ") + ": a fast path chosen by the shape of the graph replaces the selected algorithm and its guarantees for those inputs", Control: ctl})
				} else if !had {
					r.add(Obligation{Key: bkey, Pos: m.Pos(f.Pos()), Desc: "exits before the dispatch depend on the algorithm constant, nil tests and element counts only", Verdict: "holds", Control: ctl})
				}
			}
			dup := false
			for _, o := range r.Obligations {
				if o.Key == key {
					dup = true
				}
			}
			if dup && len(bad) == 0 {
				continue
			}
			if len(bad) == 0 {
				r.add(Obligation{Key: key, Pos: m.Pos(s.in.Pos()), Desc: "called under the algorithm constant alone (other conditions on the way are early exits)", Verdict: "holds", Control: ctl})
			} else {
				r.add(Obligation{Key: key, Pos: m.Pos(s.in.Pos()), Desc: "which algorithm runs must depend on the option alone", Verdict: "violation",
					Detail: "whether " + s.fn.Name() + " or another algorithm runs also depends on " + strings.Join(uniq(bad), "; ") + ": the caller silently gets a different algorithm than the one selected, without its guarantees", Control: ctl})
			}
		}
	}
}

// isCountOrNilTest: len(x) <cmp> constant, x <cmp> nil, and negations of those
func isCountOrNilTest(c ssa.Value, depth int) bool {
	if depth > 3 {
		return false
	}
	switch x := c.(type) {
	case *ssa.UnOp:
		if x.Op == token.NOT {
			return isCountOrNilTest(x.X, depth+1)
		}
	case *ssa.BinOp:
		switch x.Op {
		case token.EQL, token.NEQ, token.LSS, token.LEQ, token.GTR, token.GEQ:
		default:
			return false
		}
		isLen := func(v ssa.Value) bool {
			call, ok := v.(*ssa.Call)
			if !ok {
				return false
			}
			b, ok := call.Call.Value.(*ssa.Builtin)
			return ok && b.Name() == "len"
		}
		cx, okx := x.X.(*ssa.Const)
		cy, oky := x.Y.(*ssa.Const)
		if oky && (isLen(x.X) || cy.IsNil()) {
			return true
		}
		if okx && (isLen(x.Y) || cx.IsNil()) {
			return true
		}
	}
	return false
}

// dependsOnGraphParam: the value is computed from a *DGraph parameter of its function
func dependsOnGraphParam(v ssa.Value, seen map[ssa.Value]bool, depth int) bool {
	if v == nil || seen[v] || depth > 10 {
		return false
	}
	seen[v] = true
	if p, ok := v.(*ssa.Parameter); ok {
		return namedKey(p.Type()) == igDG
	}
	in, ok := v.(ssa.Instruction)
	if !ok {
		return false
	}
	if al, ok := v.(*ssa.Alloc); ok && al.Referrers() != nil {
		// a captured parameter lives in a cell: what is stored there
		for _, ref := range *al.Referrers() {
			if st, ok := ref.(*ssa.Store); ok && st.Addr == v && dependsOnGraphParam(st.Val, seen, depth+1) {
				return true
			}
		}
	}
	for _, op := range in.Operands(nil) {
		if op != nil && *op != nil && dependsOnGraphParam(*op, seen, depth+1) {
			return true
		}
	}
	return false
}

// ---------- ORD-6 ----------

func init() {
	register(&Rule{
		ID: "ORD-6",
		Doc: "parameters are read only after the options have been applied: in Layout (and the helpers of its package) the local options record that the option functions are applied to - the dynamic calls `opt(&record)` in a loop - is not read before that loop has finished; " +
			"a value read earlier is the default, whatever the caller asked for (a component gap hoisted above the option loop is always 60)",
		Floor: 1,
		Ctl:   []string{"ROOT__ord6.go.txt"},
		Run:   runOrd6,
	})
}

func runOrd6(m *Model, r *RuleResult) {
	for _, f := range m.Src {
		if pkgPathOf(f) != modPath || f.Parent() != nil {
			continue
		}
		loops := naturalLoops(f)
		// option-application sites: dynamic calls (through a func value of type Option) whose argument is the address of a local
		type appl struct {
			rec  ssa.Value
			loop *loopInfo
			in   ssa.Instruction
		}
		var as []appl
		eachInstr(f, func(in ssa.Instruction) {
			ci, ok := in.(ssa.CallInstruction)
			if !ok || ci.Common().IsInvoke() || ci.Common().StaticCallee() != nil || len(ci.Common().Args) != 1 {
				return
			}
			if namedKey(ci.Common().Value.Type()) != "autog.Option" {
				return
			}
			var al ssa.Value
			switch x := ci.Common().Args[0].(type) {
			case *ssa.Alloc:
				al = x
			case *ssa.Parameter:
				al = x // the record of the caller, handed to an `apply` helper
			default:
				return
			}
			ls := loopsContaining(loops, in.Block())
			if len(ls) == 0 {
				return
			}
			as = append(as, appl{al, ls[len(ls)-1], in})
		})
		for _, a := range as {
			ctl := m.FuncIsPosctl(f)
			key := "options-read-after-applied:" + funcKey(f)
			var bad []string
			// every read of the record (a load through a field address chain, or of the whole record) that is not inside the
			// loop must be dominated by the loop's exit, i.e. not be reachable before the loop
			var visit func(addr ssa.Value)
			visit = func(addr ssa.Value) {
				if addr.Referrers() == nil {
					return
				}
				for _, ref := range *addr.Referrers() {
					switch x := ref.(type) {
					case *ssa.FieldAddr:
						visit(x)
					case *ssa.UnOp:
						if x.Op != token.MUL || a.loop.Body[x.Block()] {
							continue
						}
						// before the loop: the read's block reaches the loop header
						if x.Block() == a.loop.Head || blocksReachableFrom(x.Block())[a.loop.Head] {
							bad = append(bad, m.Pos(x.Pos()))
						}
					}
				}
			}
			visit(a.rec)
			// ... and after the loop the record is frozen: a store into one of its fields that the loop's exit reaches replaces what
			// the caller asked for (`if len(G.Nodes) > 500 { opts.params.NodeSpacing = 10 }`)
			var late []string
			if _, isAlloc := a.rec.(*ssa.Alloc); isAlloc {
				var visitW func(addr ssa.Value, depth int)
				visitW = func(addr ssa.Value, depth int) {
					if addr.Referrers() == nil {
						return
					}
					for _, ref := range *addr.Referrers() {
						switch x := ref.(type) {
						case *ssa.FieldAddr:
							visitW(x, depth+1)
						case *ssa.Store:
							if x.Addr != addr || a.loop.Body[x.Block()] {
								continue
							}
							after := false
							for b := range a.loop.Body {
								for _, sc := range b.Succs {
									if !a.loop.Body[sc] && (sc == x.Block() || blocksReachableFrom(sc)[x.Block()]) {
										after = true
									}
								}
							}
							if after {
								late = append(late, m.Pos(x.Pos()))
							}
						}
					}
				}
				visitW(a.rec, 0)
			}
			if len(late) == 0 {
				r.add(Obligation{Key: "options-frozen-after-applied:" + funcKey(f), Pos: m.Pos(a.in.Pos()), Desc: "nothing is stored into the options record after the option functions have been applied", Verdict: "holds", Control: ctl})
			} else {
				r.add(Obligation{Key: "options-frozen-after-applied:" + funcKey(f), Pos: m.Pos(a.in.Pos()), Desc: "the options record must not be modified after the options are applied", Verdict: "violation",
					Detail: "store at " + strings.Join(uniq(late), ", ") + ", after the loop that applies the caller's options: what the caller asked for is overwritten", Control: ctl})
			}
			// the initial copy of the defaults into the record is a store, not a read of the record: nothing to exclude
			if len(bad) == 0 {
				r.add(Obligation{Key: key, Pos: m.Pos(a.in.Pos()), Desc: "the options record is read only after all option functions have been applied to it", Verdict: "holds", Control: ctl})
			} else {
				r.add(Obligation{Key: key, Pos: m.Pos(a.in.Pos()), Desc: "the options record must not be read before the options are applied", Verdict: "violation",
					Detail: "read at " + strings.Join(uniq(bad), ", ") + ", before the loop that applies the caller's options: the value is the default, not what the caller asked for", Control: ctl})
			}
		}
	}
}

// ---------- POP-1 ----------

func init() {
	register(&Rule{
		ID: "POP-1",
		Doc: "every input row becomes an edge: in each Populate implementation of package graph the edge constructor is called inside the loop over the rows, " +
			"its call depends - within one iteration - on nothing but guards whose other branch cannot continue (panics on malformed rows), and the loop is never left early; " +
			"a source that skips a row it has seen before (or folds it into a weight) returns fewer edges than the caller passed in",
		Floor: 1,
		Ctl:   []string{"graph__pop1.go.txt"},
		Run:   runPop1,
	})
}

func runPop1(m *Model, r *RuleResult) {
	newEdge := m.anchorNewEdge()
	if newEdge == nil {
		r.undecided("edge-constructor", "-", "the edge constructor of internal/graph", "not found")
		return
	}
	creates := func(c *ssa.Function) bool {
		if c == nil {
			return false
		}
		if c == newEdge {
			return true
		}
		if !inModule(c) || c == nil {
			return false
		}
		return len(staticCalls(c, func(x *ssa.Function) bool { return x == newEdge })) > 0
	}
	for _, f := range m.Src {
		if f.Name() != "Populate" || f.Signature.Recv() == nil || f.Parent() != nil || len(f.Params) != 2 || namedKey(f.Params[1].Type()) != igDG {
			continue
		}
		if shortPkg(pkgPathOf(f)) != "graph" {
			continue
		}
		ctl := m.FuncIsPosctl(f)
		if ctl && !strings.Contains(f.String(), "Pop1") {
			continue
		}
		key := "one-edge-per-row:" + funcKey(f)
		pos := m.Pos(f.Pos())
		loops := naturalLoops(f)
		canReturn := func(b *ssa.BasicBlock) bool {
			hasRet := func(x *ssa.BasicBlock) bool {
				_, ok := x.Instrs[len(x.Instrs)-1].(*ssa.Return)
				return ok
			}
			if hasRet(b) {
				return true
			}
			for x := range blocksReachableFrom(b) {
				if hasRet(x) {
					return true
				}
			}
			return false
		}
		var sites []ssa.CallInstruction
		eachInstr(f, func(in ssa.Instruction) {
			if ci, ok := in.(ssa.CallInstruction); ok && creates(ci.Common().StaticCallee()) {
				sites = append(sites, ci)
			}
		})
		if len(sites) == 0 {
			r.add(Obligation{Key: key, Pos: pos, Desc: "a Populate implementation creates its edges with the edge constructor", Verdict: "undecided", Detail: "no call of " + newEdge.Name() + " (directly or through a helper) found", Control: ctl})
			continue
		}
		var bad []string
		for _, s := range sites {
			ls := loopsContaining(loops, s.Block())
			if len(ls) == 0 {
				bad = append(bad, "the edge created at "+m.Pos(s.Pos())+" is not created in a loop over the rows")
				continue
			}
			for _, d := range iterationControlDeps(s.Block(), loops) {
				other := d.If.Block().Succs[1-d.Branch]
				if canReturn(other) {
					bad = append(bad, "whether a row becomes an edge depends on "+d.If.Cond.String()+" at "+m.Pos(d.If.Cond.Pos()))
				}
			}
			for _, l := range ls {
				for b := range l.Body {
					if b == l.Head {
						continue
					}
					for _, sc := range b.Succs {
						if !l.Body[sc] && canReturn(sc) {
							bad = append(bad, "the loop over the rows can be left early at "+m.Pos(b.Instrs[len(b.Instrs)-1].Pos()))
						}
					}
				}
			}
		}
		if len(bad) == 0 {
			r.add(Obligation{Key: key, Pos: pos, Desc: fmt.Sprintf("%d edge creation site(s): executed in every iteration of a never-left-early loop, guarded only by panics", len(sites)), Verdict: "holds", Control: ctl})
		} else {
			r.add(Obligation{Key: key, Pos: pos, Desc: "every input row becomes exactly one edge", Verdict: "violation",
				Detail: strings.Join(uniq(bad), "; ") + ": rows for which the constructor is not reached are missing from the output (repeated edges, for instance)", Control: ctl})
		}
	}
}
