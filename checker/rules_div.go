package main

// DIV-1: float divisions by a computed value are guarded (a necessary clause of "all coordinates are finite").

import (
	"fmt"
	"go/token"
	"go/types"
	"sort"
	"strings"

	"golang.org/x/tools/go/ssa"
)

func init() {
	register(&Rule{
		ID: "DIV-1",
		Doc: "no unguarded division by a computed length (contradiction rule, from the code's own habit): in the geometry and routing packages every floating-point division whose divisor is computed from coordinates " +
			"(not a constant, not an element count) is dominated by a branch whose condition inspects the divisor or a value it is computed from (d > epsilon, aeq0(a), xc1 == 0 ...). Every such division of the reference tree is guarded that way; " +
			"an unguarded one turns a zero-length vector (the spline router passes zero end tangents on purpose) into NaN control points, which the containment test accepts and the caller receives as a route",
		Floor: 10,
		Ctl:   []string{"internal__geom__div1.go.txt"},
		Run:   runDiv1,
	})
}

func runDiv1(m *Model, r *RuleResult) {
	inScope := func(f *ssa.Function) bool {
		sp := shortPkg(pkgPathOf(f))
		return sp == geomPkg || sp == "internal/phase5"
	}
	var fs []*ssa.Function
	for _, f := range m.Src {
		if inScope(f) && len(f.Blocks) > 0 && (m.Reach[f] || m.FuncIsPosctl(f)) {
			fs = append(fs, f)
		}
	}
	sort.Slice(fs, func(i, j int) bool { return funcKey(fs[i]) < funcKey(fs[j]) })
	for _, f := range fs {
		n := 0
		eachInstr(f, func(in ssa.Instruction) {
			bo, ok := in.(*ssa.BinOp)
			if !ok || bo.Op != token.QUO || !isFloatType(bo.Type()) {
				return
			}
			roots := divisorRoots(bo.Y, 0, map[ssa.Value]bool{})
			if len(roots) == 0 {
				return // constant, or an element count
			}
			n++
			key := fmt.Sprintf("guarded-division:%s#%d", funcKey(f), n)
			ctl := m.FuncIsPosctl(f)
			guard := ""
			for d := bo.Block(); d != nil && guard == ""; d = d.Idom() {
				id := d.Idom()
				if id == nil {
					break
				}
				iff, ok := id.Instrs[len(id.Instrs)-1].(*ssa.If)
				if !ok {
					continue
				}
				ment := map[ssa.Value]bool{}
				mentioned(iff.Cond, 0, ment)
				for rt := range roots {
					if ment[rt] {
						guard = m.Pos(iff.Cond.Pos())
					}
				}
				if ment[bo.Y] {
					guard = m.Pos(iff.Cond.Pos())
				}
			}
			if why, ok := div1Reviewed[fnShortName(f)]; ok && guard == "" && shortPkg(pkgPathOf(f)) == geomPkg {
				r.add(Obligation{Key: key, Pos: m.Pos(bo.Pos()), Desc: "division by a computed value, reviewed: " + why, Verdict: "holds", Control: ctl})
				r.stat("reviewed_exceptions", 1)
				return
			}
			if guard != "" {
				r.add(Obligation{Key: key, Pos: m.Pos(bo.Pos()), Desc: "division by a computed value, guarded by the branch at " + guard, Verdict: "holds", Control: ctl})
			} else {
				r.add(Obligation{Key: key, Pos: m.Pos(bo.Pos()), Desc: "a division by a computed value is guarded by a test of the divisor", Verdict: "violation",
					Detail: bo.String() + ": no branch on the way inspects the divisor or what it is computed from; for a zero divisor the quotient is NaN or Inf and ends up in a coordinate", Control: ctl})
			}
		})
	}
}

// divisorRoots: the values a divisor is computed from (loads, parameters, call results), through arithmetic, conversions and
// math functions; empty for constants and element counts.
func divisorRoots(v ssa.Value, depth int, out map[ssa.Value]bool) map[ssa.Value]bool {
	if depth > 6 {
		out[v] = true
		return out
	}
	switch x := v.(type) {
	case *ssa.Const:
		return out
	case *ssa.BinOp:
		divisorRoots(x.X, depth+1, out)
		divisorRoots(x.Y, depth+1, out)
		return out
	case *ssa.UnOp:
		if x.Op == token.SUB {
			return divisorRoots(x.X, depth+1, out)
		}
	case *ssa.Convert:
		if b, ok := x.X.Type().Underlying().(*types.Basic); ok && b.Info()&types.IsInteger != 0 {
			return out // an integer count
		}
		return divisorRoots(x.X, depth+1, out)
	case *ssa.Call:
		if c := x.Call.StaticCallee(); c != nil && pkgPathOf(c) == "math" {
			for _, a := range x.Call.Args {
				divisorRoots(a, depth+1, out)
			}
			out[v] = true
			return out
		}
	}
	out[v] = true
	return out
}

// mentioned: the values a condition looks at, through comparisons, boolean operators and calls of small predicates.
func mentioned(v ssa.Value, depth int, out map[ssa.Value]bool) {
	if depth > 5 || out[v] {
		return
	}
	out[v] = true
	switch x := v.(type) {
	case *ssa.BinOp:
		mentioned(x.X, depth+1, out)
		mentioned(x.Y, depth+1, out)
	case *ssa.UnOp:
		if x.Op == token.NOT || x.Op == token.SUB {
			mentioned(x.X, depth+1, out)
		}
	case *ssa.Call:
		for _, a := range x.Call.Args {
			mentioned(a, depth+1, out)
		}
	case *ssa.Phi:
		for _, e := range x.Edges {
			mentioned(e, depth+1, out)
		}
	case *ssa.Convert:
		mentioned(x.X, depth+1, out)
	}
}

// div1Reviewed: the one division of the reference tree that is not guarded by a branch, with the reason it needs none.
var div1Reviewed = map[string]string{
	"chordLength": "the divisor is the total length of the fitted path, whose first and last point lie in different layers (different y), hence > 0",
}

var _ = strings.Join

// ---------- NIL-1 ----------

func init() {
	register(&Rule{
		ID: "NIL-1",
		Doc: "a list that can come back nil is not indexed blindly (contradiction rule): a function of the geometry or routing packages that returns a slice and has an explicit `return nil` next to non-nil returns says \"no result\" that way; " +
			"every caller that indexes the result (or takes an element relative to its length) must first test it for nil or test its length - as the other callers of the same functions do. An unguarded index panics with `index out of range [-1]` on exactly the inputs for which there is no result",
		Floor: 1,
		Ctl:   []string{"internal__geom__nil1.go.txt"},
		Run:   runNil1,
	})
}

func runNil1(m *Model, r *RuleResult) {
	inScope := func(f *ssa.Function) bool {
		sp := shortPkg(pkgPathOf(f))
		return sp == geomPkg || sp == "internal/phase5"
	}
	// functions that may return nil explicitly
	mayNil := map[*ssa.Function]bool{}
	for _, f := range m.Src {
		if !inScope(f) || len(f.Blocks) == 0 || f.Signature.Results().Len() != 1 {
			continue
		}
		if _, ok := f.Signature.Results().At(0).Type().Underlying().(*types.Slice); !ok {
			continue
		}
		nilRet, other := false, false
		eachInstr(f, func(in ssa.Instruction) {
			if ret, ok := in.(*ssa.Return); ok && len(ret.Results) == 1 {
				if c, ok := ret.Results[0].(*ssa.Const); ok && c.IsNil() {
					nilRet = true
				} else {
					other = true
				}
			}
		})
		if nilRet && other {
			mayNil[f] = true
		}
	}
	var fs []*ssa.Function
	for _, f := range m.Src {
		if inScope(f) && len(f.Blocks) > 0 {
			fs = append(fs, f)
		}
	}
	sort.Slice(fs, func(i, j int) bool { return funcKey(fs[i]) < funcKey(fs[j]) })
	for _, f := range fs {
		n := map[string]int{}
		eachInstr(f, func(in ssa.Instruction) {
			call, ok := in.(*ssa.Call)
			if !ok {
				return
			}
			callee := call.Call.StaticCallee()
			if callee == nil || !mayNil[callee] {
				return
			}
			// values that are the result or carry it on (phi, append with the result as base, re-slicing)
			vals := map[ssa.Value]bool{call: true}
			work := []ssa.Value{call}
			for len(work) > 0 {
				v := work[0]
				work = work[1:]
				if v.Referrers() == nil {
					continue
				}
				for _, ref := range *v.Referrers() {
					switch x := ref.(type) {
					case *ssa.Phi:
						if !vals[x] {
							vals[x] = true
							work = append(work, x)
						}
					}
				}
			}
			// index uses and guards
			var idx []ssa.Instruction
			for v := range vals {
				if v.Referrers() == nil {
					continue
				}
				for _, ref := range *v.Referrers() {
					if ia, ok := ref.(*ssa.IndexAddr); ok && ia.X == v {
						idx = append(idx, ia)
					}
					// handed to a module function that indexes the parameter (xslices.Last(dlist)): the call is the index use
					if c2, ok := ref.(*ssa.Call); ok {
						if cal := c2.Call.StaticCallee(); cal != nil && inModule(cal) && len(cal.Blocks) > 0 {
							for i, a := range c2.Call.Args {
								if a != v || i >= len(cal.Params) || cal.Params[i].Referrers() == nil {
									continue
								}
								for _, r2 := range *cal.Params[i].Referrers() {
									if ia, ok := r2.(*ssa.IndexAddr); ok && ia.X == ssa.Value(cal.Params[i]) {
										idx = append(idx, c2)
										break
									}
								}
							}
						}
					}
				}
			}
			if len(idx) == 0 {
				return // only ranged over, appended to, returned or tested
			}
			n[callee.Name()]++
			// keyed by the function that says "no result" (and the package of the caller): moving the call site into a helper is the same construct
			key := fmt.Sprintf("nil-result-indexed:%s<-%s", shortPkg(pkgPathOf(f)), callee.Name())
			ctl := m.FuncIsPosctl(f)
			var bad []string
			for _, use := range idx {
				guarded := false
				for d := use.Block(); d != nil && !guarded; d = d.Idom() {
					id := d.Idom()
					if id == nil {
						break
					}
					iff, ok := id.Instrs[len(id.Instrs)-1].(*ssa.If)
					if !ok {
						continue
					}
					ment := map[ssa.Value]bool{}
					mentioned(iff.Cond, 0, ment)
					for v := range vals {
						if ment[v] {
							guarded = true
						}
					}
				}
				// an index inside a loop bounded by the length of the same value is guarded by that bound
				if !guarded {
					bad = append(bad, m.Pos(use.Pos()))
				}
			}
			if len(bad) == 0 {
				r.add(Obligation{Key: key, Pos: m.Pos(call.Pos()), Desc: "the result of " + callee.Name() + " (nil = no result) is tested before it is indexed", Verdict: "holds", Control: ctl})
			} else {
				r.add(Obligation{Key: key, Pos: m.Pos(call.Pos()), Desc: "the result of " + callee.Name() + " (nil = no result) must be tested before it is indexed", Verdict: "violation",
					Detail: "indexed at " + strings.Join(uniq(bad), ", ") + " without a test of the result or of its length on the way: when " + callee.Name() + " has no result the index is out of range and Layout panics", Control: ctl})
			}
		})
	}
}
