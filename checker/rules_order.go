package main

// Engine E1: ordering and effect-contract rules (ORD-2..5, EFF-1..3).

import (
	"fmt"
	"go/ast"
	"go/token"
	"go/types"
	"sort"
	"strings"

	"golang.org/x/tools/go/ssa"
)

func init() {
	register(&Rule{
		ID: "ORD-2",
		Doc: "Layout, per component: IgnoreSelfLoops(g) dominates every Process invoke; the restore call (callee = result of that call) and UnreverseEdges(g) lie outside the pipeline loop, after it, on the same g, and both dominate the construction of every output node and edge; " +
			"g is an element of the result of connected.Components; the pipeline slice holds options.p1..p5 in this order and the static Phase() of element i is i+1",
		Floor: 7,
		Run:   runOrd2,
	})
	register(&Rule{
		ID:    "ORD-3",
		Doc:   "size options: in Layout the loop calling Params.NodeFixedSizeFunc precedes the loop calling Params.NodeSizeFunc and both precede connected.Components; in every closure stored into Params.NodeSizeFunc the stores into Node.W/H/Size are control-dependent on the comma-ok result of a map lookup (unlisted nodes keep the fixed size)",
		Floor: 2,
		Ctl:   []string{"ROOT__ord3.go.txt"},
		Run:   runOrd3,
	})
	register(&Rule{
		ID: "ORD-4",
		Doc: "normaliser is last: a normaliser is recognised by shape (min-reduction over Node.Layer of all nodes, then Node.Layer -= that). In every function that calls one, any later modification of Node.Layer (store, or call whose Mod contains Node.Layer) must either store only values provably >= 0 " +
			"(max-reductions seeded with a non-negative constant, counters above them) or be followed on every path by another normaliser call; " +
			"conversely the vertical balancer (degree-guarded store of Node.Layer), whose window is seeded with the absolute layer 0, must be called on freshly normalised layers (a normaliser call dominates it with no Layer modification in between)",
		Floor: 3,
		Ctl:   []string{"internal__phase2__ord4.go.txt"},
		Run:   runOrd4,
	})
	register(&Rule{
		ID: "ORD-5",
		Doc: "reversal only on graphs established cyclic: every call of Edge.Reverse in package phase1 lies in a function that is reached from Alg.Process only through call sites dominated by the cyclic edge of the acyclicity test (the bool callee whose other edge returns early), " +
			"or collects its candidates under an antiparallel witness: a lookup M[{q,p}] in a map whose only insertions are M[{p,q}] = true with p,q the endpoints of the visited edge",
		Floor: 4,
		Ctl:   []string{"internal__phase1__ord5.go.txt"},
		Run:   runOrd5,
	})
	register(&Rule{
		ID:    "EFF-1",
		Doc:   "Reverse-primitive contract: (*Edge).Reverse removes e from Out of its old From and from In of its old To, adds e to In of its old From and to Out of its old To, stores From := old To, To := old From (both read before either store) and IsReversed := !IsReversed, and has no other effect",
		Floor: 8,
		Run:   runEff1,
	})
	register(&Rule{
		ID: "EFF-2",
		Doc: "inverse pairs: IgnoreSelfLoops removes each collected edge from From.Out, To.In and g.Edges, and the closure it returns adds the same collected edges to the same three lists; UnreverseEdges calls Reverse exactly under e.IsReversed; " +
			"reduceForward's merge loop removes the fragment from g.Edges and from the target's In, adds the head edge there and re-targets it, mirroring breakEdge's additions",
		Floor: 18,
		Run:   runEff2,
	})
	register(&Rule{
		ID: "EFF-3",
		Doc: "sibling agreement: every positioner (static callee of phase4.Alg.Process taking (*DGraph, Params)) writes Node.X and makes Layer.H a max-reduction of the layer's node heights (store of max(load Layer.H, load Node.H)); Alg.Process calls the Y assignment after every positioner; " +
			"every router (callee of phase5.Alg.Process taking the routable-edge slice) writes Edge.Points; the merge step runs before every router",
		Floor: 23,
		Run:   runEff3,
	})
}

func staticCalls(f *ssa.Function, pred func(c *ssa.Function) bool) []ssa.CallInstruction {
	var out []ssa.CallInstruction
	eachInstr(f, func(in ssa.Instruction) {
		if ci, ok := in.(ssa.CallInstruction); ok {
			if c := ci.Common().StaticCallee(); c != nil && pred(c) {
				out = append(out, ci)
			}
		}
	})
	return out
}

func blockReaches(from, to *ssa.BasicBlock) bool {
	if from == to {
		return true
	}
	return blocksReachableFrom(from)[to]
}

// instrReaches: b may execute after a.
func instrReaches(a, b ssa.Instruction) bool {
	if a.Block() == b.Block() {
		if instrIndex(a) < instrIndex(b) {
			return true
		}
		return blocksReachableFrom(a.Block())[a.Block()]
	}
	return blocksReachableFrom(a.Block())[b.Block()]
}

// ---------- ORD-2 ----------

func runOrd2(m *Model, r *RuleResult) {
	layout := m.SSAFunc("autog", "Layout")
	if layout == nil {
		r.undecided("anchor:Layout", "-", "autog.Layout", "not found")
		return
	}
	// the pipeline function: Layout itself, or the helper of its package that contains the Process invoke
	pf := layout
	var procs []ssa.CallInstruction
	for _, f := range m.Src {
		if pkgPathOf(f) != pkgPathOf(layout) || m.FuncIsPosctl(f) {
			continue
		}
		eachInstr(f, func(in ssa.Instruction) {
			if ci, ok := in.(ssa.CallInstruction); ok && ci.Common().IsInvoke() && ci.Common().Method.Name() == "Process" {
				procs = append(procs, ci)
				pf = f
			}
		})
	}
	// explicit form (benign AB4): no pipeline slice, the five phases are called one after the other on the option fields
	explicit := false
	if len(procs) == 0 {
		var holder *ssa.Function
		same := true
		for _, f := range m.Src {
			if pkgPathOf(f) != pkgPathOf(layout) || m.FuncIsPosctl(f) {
				continue
			}
			eachInstr(f, func(in ssa.Instruction) {
				ci, ok := in.(ssa.CallInstruction)
				if !ok || ci.Common().IsInvoke() {
					return
				}
				c := ci.Common().StaticCallee()
				if c == nil || c.Name() != "Process" || c.Signature.Recv() == nil || !strings.HasPrefix(shortPkg(pkgPathOf(c)), "internal/phase") {
					return
				}
				procs = append(procs, ci)
				if holder != nil && holder != f {
					same = false
				}
				holder = f
			})
		}
		if len(procs) == 5 && same {
			explicit = true
			pf = holder
			sort.SliceStable(procs, func(i, j int) bool { return instrDominates(procs[i], procs[j]) })
		}
	}
	var isl, unrev, comps []ssa.CallInstruction
	preF, unF := m.anchorSelfLoopPre(), m.anchorUnreverse()
	isl = staticCalls(pf, func(c *ssa.Function) bool { return c == preF })
	unrev = staticCalls(pf, func(c *ssa.Function) bool { return c == unF })
	comps = staticCalls(layout, func(c *ssa.Function) bool {
		return c.Name() == "Components" && shortPkg(pkgPathOf(c)) == "internal/graph/connected"
	})
	// when the pipeline lives in a helper: its single call site in Layout
	var pfSite ssa.CallInstruction
	if pf != layout {
		sites := staticCalls(layout, func(c *ssa.Function) bool { return c == pf })
		if len(sites) == 1 {
			pfSite = sites[0]
		}
	}
	if len(isl) != 1 || len(unrev) != 1 || len(comps) != 1 || (!explicit && len(procs) != 1) || (pf != layout && pfSite == nil) {
		r.undecided("anchors", m.Pos(layout.Pos()), "Layout (or one helper of its package, called once from Layout) must contain exactly one call each of the self-loop pre-processor (returns a func(*DGraph)), the un-reverser (modifies Edge.IsReversed) and one Process invoke; Layout calls connected.Components once",
			fmt.Sprintf("found %d/%d/%d/%d", len(isl), len(unrev), len(comps), len(procs)))
		return
	}
	islC, unrevC, compC, procC := isl[0], unrev[0], comps[0], procs[0]
	lastC := procs[len(procs)-1]
	g := procC.Common().Args[0]
	if explicit {
		g = procC.Common().Args[1] // Args[0] is the receiver of the statically resolved method
		for _, pc := range procs {
			if len(pc.Common().Args) < 2 || pc.Common().Args[1] != g {
				r.violation("same-graph", m.Pos(pc.Pos()), "every phase acts on the same component", "the phases are not all handed the same graph value")
				return
			}
		}
	}
	pos := m.Pos(procC.Pos())
	chk := func(key, desc string, ok bool, detail string) {
		if ok {
			r.holds(key, pos, desc)
		} else {
			r.violation(key, pos, desc, detail)
		}
	}
	// actual: the value that Layout passes for a parameter of the pipeline helper (identity when the pipeline is in Layout)
	actual := func(v ssa.Value) ssa.Value {
		if pfSite == nil {
			return v
		}
		for i, p := range pf.Params {
			if ssa.Value(p) == v && i < len(pfSite.Common().Args) {
				return pfSite.Common().Args[i]
			}
		}
		return v
	}
	// restore call: dynamic call whose callee value is the result of IgnoreSelfLoops
	var restore ssa.CallInstruction
	eachInstr(pf, func(in ssa.Instruction) {
		if ci, ok := in.(ssa.CallInstruction); ok && !ci.Common().IsInvoke() && ci.Common().Value == islC.Value() {
			restore = ci
		}
	})
	chk("same-graph", "IgnoreSelfLoops, Process, restore and UnreverseEdges act on the same component",
		islC.Common().Args[0] == g && unrevC.Common().Args[0] == g && restore != nil && len(restore.Common().Args) == 1 && restore.Common().Args[0] == g,
		"the pipeline and its pre/post-processing do not receive the same graph value")
	// g is an element of Components' result
	gOK := false
	if u, ok := actual(g).(*ssa.UnOp); ok && u.Op == token.MUL {
		if ia, ok := u.X.(*ssa.IndexAddr); ok && ia.X == compC.Value() {
			gOK = true
		}
	}
	chk("graph-is-component", "the graph handed to the pipeline is an element of connected.Components(G)", gOK, "phases assume a connected graph; the processed graph is "+actual(g).String())
	chk("selfloops-before-pipeline", "IgnoreSelfLoops(g) dominates the Process invoke", instrDominates(islC, procC), "self-loops would be visible to the phases (cycle breaking and layering assume none)")
	loops := naturalLoops(pf)
	pl := loopsContaining(loops, procC.Block())
	if len(pl) == 0 && !explicit {
		r.violation("pipeline-loop", pos, "Process is invoked in a loop over the pipeline", "no loop found around the Process invoke")
		return
	}
	var afterLoop func(in ssa.Instruction) bool
	if explicit {
		// the five calls stand in for the loop: "after the pipeline" is "dominated by the last call, at its nesting depth"
		pl = append([]*loopInfo{nil}, pl...)
		afterLoop = func(in ssa.Instruction) bool { return in != nil && instrDominates(lastC, in) }
	} else {
		ploop := pl[0]
		afterLoop = func(in ssa.Instruction) bool {
			return in != nil && !ploop.Body[in.Block()] && blockReaches(ploop.Head, in.Block()) && ploop.Head.Dominates(in.Block())
		}
	}
	chk("restore-after-pipeline", "the self-loop restore closure runs once, after the pipeline loop", restore != nil && afterLoop(restore) && len(loopsContaining(loops, restore.Block())) == len(pl)-1,
		"self-loops restored inside or before the pipeline would be seen by the phases, or never restored")
	chk("unreverse-after-pipeline", "UnreverseEdges(g) runs once, after the pipeline loop", afterLoop(unrevC) && len(loopsContaining(loops, unrevC.Block())) == len(pl)-1,
		"edges would be un-reversed while phases still rely on the acyclic orientation, or not at all")
	// both dominate output construction
	var outStores []ssa.Instruction
	eachInstr(layout, func(in ssa.Instruction) {
		if st, ok := in.(*ssa.Store); ok {
			if fa, ok := st.Addr.(*ssa.FieldAddr); ok {
				_, steps := fieldChain(fa)
				switch locOfSteps(steps) {
				case pubNode + ".ID", pubEdge + ".FromID", pubEdge + ".ToID":
					outStores = append(outStores, in)
				}
			}
		}
	})
	// output built by helper functions of the package: calls whose callee (transitively, same package) stores the output fields
	var writesOut func(f *ssa.Function, depth int) bool
	writesOut = func(f *ssa.Function, depth int) bool {
		if f == nil || depth > 3 || pkgPathOf(f) != pkgPathOf(layout) {
			return false
		}
		e := m.Effects(f)
		if e == nil {
			return false
		}
		for _, w := range e.Writes {
			switch w.Loc {
			case pubNode + ".ID", pubEdge + ".FromID", pubEdge + ".ToID":
				return true
			}
		}
		res := false
		eachInstr(f, func(in ssa.Instruction) {
			if ci, ok := in.(ssa.CallInstruction); ok {
				if c := ci.Common().StaticCallee(); c != nil && c != f && writesOut(c, depth+1) {
					res = true
				}
			}
		})
		return res
	}
	nHelper := 0
	eachInstr(layout, func(in ssa.Instruction) {
		if ci, ok := in.(ssa.CallInstruction); ok {
			if c := ci.Common().StaticCallee(); c != nil && c != layout && writesOut(c, 0) {
				outStores = append(outStores, in)
				nHelper++
			}
		}
	})
	okDom := (len(outStores) >= 3 || nHelper >= 1) && restore != nil
	if pfSite == nil {
		for _, s := range outStores {
			if restore == nil || !instrDominates(restore, s) || !instrDominates(unrevC, s) {
				okDom = false
			}
		}
	} else {
		// the helper runs restore and un-reverse on every path to its return, and its call dominates the collection
		for _, b := range pf.Blocks {
			if _, isRet := b.Instrs[len(b.Instrs)-1].(*ssa.Return); isRet {
				if restore == nil || !restore.Block().Dominates(b) || !unrevC.Block().Dominates(b) {
					okDom = false
				}
			}
		}
		for _, s := range outStores {
			if s == ssa.Instruction(pfSite) {
				continue
			}
			if !instrDominates(pfSite, s) {
				okDom = false
			}
		}
	}
	chk("postprocessing-before-collection", "restore and UnreverseEdges dominate the construction of every output node and edge", okDom,
		"the output would be collected with self-loops missing or edges still reversed")
	// pipeline order and Phase() constants
	if explicit {
		okOrder := true
		var got []string
		for i, pc := range procs {
			phase := int64(-1)
			recv := pc.Common().Args[0]
			if ms := m.Prog.MethodSets.MethodSet(recv.Type()); ms != nil {
				if sel := ms.Lookup(nil, "Phase"); sel != nil {
					if fn := m.Prog.MethodValue(sel); fn != nil {
						eachInstr(fn, func(in ssa.Instruction) {
							if ret, ok := in.(*ssa.Return); ok && len(ret.Results) == 1 {
								if c, ok := constInt(ret.Results[0]); ok {
									phase = c
								}
							}
						})
					}
				}
			}
			field := ""
			for _, o := range originsOf(actual(recv), 0) {
				if o.Kind == "fieldload" {
					field = o.Loc
				}
			}
			got = append(got, fmt.Sprintf("[%d]=%s/Phase()=%d", i, strings.TrimPrefix(field, "autog.options."), phase))
			if phase != int64(i+1) || field != fmt.Sprintf("autog.options.p%d", i+1) || (i > 0 && !instrDominates(procs[i-1], pc)) {
				okOrder = false
			}
		}
		chk("pipeline-order", "the i-th phase call is made on options.p(i) and its static Phase() is i", okOrder, "pipeline is "+strings.Join(got, " "))
		return
	}
	var arr *ssa.Alloc
	if u, ok := procC.Common().Value.(*ssa.UnOp); ok {
		if ia, ok := u.X.(*ssa.IndexAddr); ok {
			switch sl := actual(ia.X).(type) {
			case *ssa.Slice:
				arr, _ = sl.X.(*ssa.Alloc)
			case *ssa.Call:
				// built by a helper of the package that returns the slice literal
				if c := sl.Call.StaticCallee(); c != nil && pkgPathOf(c) == pkgPathOf(layout) {
					n := 0
					eachInstr(c, func(in ssa.Instruction) {
						if ret, ok := in.(*ssa.Return); ok && len(ret.Results) == 1 {
							n++
							if s2, ok := ret.Results[0].(*ssa.Slice); ok && n == 1 {
								arr, _ = s2.X.(*ssa.Alloc)
							} else {
								arr = nil
							}
						}
					})
				}
			}
		}
	}
	if arr == nil {
		r.undecided("pipeline-order", pos, "pipeline slice literal", "the receiver of Process is not an element of a slice literal")
		return
	}
	type slot struct {
		idx   int64
		field string
		phase int64
	}
	var slots []slot
	for _, ref := range *arr.Referrers() {
		ia, ok := ref.(*ssa.IndexAddr)
		if !ok {
			continue
		}
		idx, _ := constInt(ia.Index)
		for _, r2 := range *ia.Referrers() {
			st, ok := r2.(*ssa.Store)
			if !ok {
				continue
			}
			mi, ok := st.Val.(*ssa.MakeInterface)
			if !ok {
				continue
			}
			s := slot{idx: idx, phase: -1}
			for _, o := range originsOf(mi.X, 0) {
				if o.Kind == "fieldload" {
					s.field = o.Loc
				}
			}
			// static Phase() of the concrete type
			if ms := m.Prog.MethodSets.MethodSet(mi.X.Type()); ms != nil {
				if sel := ms.Lookup(nil, "Phase"); sel != nil {
					if fn := m.Prog.MethodValue(sel); fn != nil {
						eachInstr(fn, func(in ssa.Instruction) {
							if ret, ok := in.(*ssa.Return); ok && len(ret.Results) == 1 {
								if c, ok := constInt(ret.Results[0]); ok {
									s.phase = c
								}
							}
						})
					}
				}
			}
			slots = append(slots, s)
		}
	}
	sort.Slice(slots, func(i, j int) bool { return slots[i].idx < slots[j].idx })
	okOrder := len(slots) == 5
	var got []string
	for i, s := range slots {
		got = append(got, fmt.Sprintf("[%d]=%s/Phase()=%d", s.idx, strings.TrimPrefix(s.field, "autog.options."), s.phase))
		if s.idx != int64(i) || s.phase != int64(i+1) || s.field != fmt.Sprintf("autog.options.p%d", i+1) {
			okOrder = false
		}
	}
	chk("pipeline-order", "pipeline element i is options.p(i+1) and its static Phase() is i+1", okOrder, "pipeline is "+strings.Join(got, " "))
}

// orderedWithinIteration: a and b lie in the same innermost loop; without going through the loop head a can be followed by b
// and b cannot be followed by a.
func orderedWithinIteration(a, b ssa.Instruction) bool {
	if a.Parent() != b.Parent() {
		return false
	}
	loops := naturalLoops(a.Parent())
	la, lb := loopsContaining(loops, a.Block()), loopsContaining(loops, b.Block())
	if len(la) == 0 || len(lb) == 0 || la[0] != lb[0] {
		return false
	}
	l := la[0]
	within := func(from, to ssa.Instruction) bool {
		if from.Block() == to.Block() {
			return instrIndex(from) < instrIndex(to)
		}
		seen := map[*ssa.BasicBlock]bool{}
		stack := []*ssa.BasicBlock{from.Block()}
		for len(stack) > 0 {
			x := stack[len(stack)-1]
			stack = stack[:len(stack)-1]
			for _, sc := range x.Succs {
				if sc == l.Head || !l.Body[sc] || seen[sc] {
					continue
				}
				if sc == to.Block() {
					return true
				}
				seen[sc] = true
				stack = append(stack, sc)
			}
		}
		return false
	}
	return within(a, b) && !within(b, a)
}

// ---------- ORD-3 ----------

func runOrd3(m *Model, r *RuleResult) {
	layout := m.SSAFunc("autog", "Layout")
	if layout == nil {
		r.undecided("anchor:Layout", "-", "autog.Layout", "not found")
		return
	}
	// litSlots: the dynamic callee is element i of a slice literal of size functions scanned from its first to its last element:
	// which literal index holds which Params field
	litSlots := func(ci ssa.CallInstruction) map[string]int64 {
		u, ok := ci.Common().Value.(*ssa.UnOp)
		if !ok || u.Op != token.MUL {
			return nil
		}
		ia, ok := u.X.(*ssa.IndexAddr)
		if !ok {
			return nil
		}
		sl, ok := ia.X.(*ssa.Slice)
		if !ok {
			return nil
		}
		arr, ok := sl.X.(*ssa.Alloc)
		if !ok || arr.Referrers() == nil {
			return nil
		}
		asc := false
		for _, l := range loopsContaining(naturalLoops(ci.Parent()), ci.Block()) {
			if idx, ok, _ := fullScanLoop(l, sl); ok && idx == ia.Index {
				asc = true
			}
		}
		if !asc {
			return nil
		}
		out := map[string]int64{}
		for _, ref := range *arr.Referrers() {
			ia2, ok := ref.(*ssa.IndexAddr)
			if !ok || ia2.Referrers() == nil {
				continue
			}
			k, isC := constInt(ia2.Index)
			if !isC {
				continue
			}
			for _, r2 := range *ia2.Referrers() {
				if st, ok := r2.(*ssa.Store); ok && st.Addr == ssa.Value(ia2) {
					for _, o := range originsOf(st.Val, 0) {
						if o.Kind == "fieldload" {
							for _, f := range []string{"NodeFixedSizeFunc", "NodeSizeFunc"} {
								if o.Loc == "autog.options.params."+f || o.Loc == igPar+"."+f {
									out[f] = k
								}
							}
						}
					}
				}
			}
		}
		return out
	}
	isDynVia := func(in ssa.Instruction, field string) bool {
		ci, ok := in.(ssa.CallInstruction)
		if !ok || ci.Common().IsInvoke() || ci.Common().StaticCallee() != nil {
			return false
		}
		for _, o := range originsOf(ci.Common().Value, 0) {
			if o.Kind == "fieldload" && (o.Loc == "autog.options.params."+field || o.Loc == igPar+"."+field) {
				return true
			}
		}
		if _, ok := litSlots(ci)[field]; ok {
			return true
		}
		return false
	}
	predFixed := func(in ssa.Instruction) bool { return isDynVia(in, "NodeFixedSizeFunc") }
	predSized := func(in ssa.Instruction) bool { return isDynVia(in, "NodeSizeFunc") }
	predComp := func(in ssa.Instruction) bool {
		ci, ok := in.(ssa.CallInstruction)
		if !ok {
			return false
		}
		c := ci.Common().StaticCallee()
		return c != nil && c.Name() == "Components" && shortPkg(pkgPathOf(c)) == "internal/graph/connected"
	}
	var orderedAB func(f *ssa.Function, depth int) (bool, bool)
	// orderedAB: (found both kinds, every fixed-size event precedes every per-node-size event) inside f
	orderedAB = func(f *ssa.Function, depth int) (bool, bool) {
		as := m.eventSites(f, predFixed, 0)
		bs := m.eventSites(f, predSized, 0)
		if len(as) == 0 || len(bs) == 0 {
			return false, true
		}
		ok := true
		for _, a := range as {
			for _, b := range bs {
				if a == b {
					if depth > 3 {
						ok = false
						continue
					}
					ci := a.(ssa.CallInstruction)
					if ci.Common().StaticCallee() == nil {
						// one dynamic call site serves both options: fine when it applies the elements of a literal
						// {fixed, per-node} in that order, one after the other
						if sl := litSlots(ci); sl != nil {
							if fi, ok1 := sl["NodeFixedSizeFunc"]; ok1 {
								if si, ok2 := sl["NodeSizeFunc"]; ok2 && fi < si {
									continue
								}
							}
						}
						// otherwise only one of the two functions is applied to a node
						ok = false
						continue
					}
					if f2, o := orderedAB(ci.Common().StaticCallee(), depth+1); !o || !f2 {
						ok = false
					}
					continue
				}
				if !instrReaches(a, b) || blockReaches(b.Block(), a.Block()) {
					// both in one loop over the nodes: within an iteration the fixed size comes first and the per-node size
					// cannot come before it (going round the loop is the next node)
					if !orderedWithinIteration(a, b) {
						ok = false
					}
				}
			}
		}
		return true, ok
	}
	found, okAB := orderedAB(layout, 0)
	comps := m.eventSites(layout, predComp, 0)
	if !found || len(comps) == 0 {
		r.undecided("size-loops", m.Pos(layout.Pos()), "Layout calls NodeFixedSizeFunc, NodeSizeFunc and connected.Components (directly or through helpers of its package)", "anchor call not found")
	} else {
		ok := okAB
		for _, c := range comps {
			for _, x := range append(m.eventSites(layout, predFixed, 0), m.eventSites(layout, predSized, 0)...) {
				if x == c || instrReaches(c, x) || !instrReaches(x, c) {
					ok = false
				}
			}
		}
		pos := m.Pos(layout.Pos())
		if ok {
			r.holds("size-order", pos, "fixed size is applied first, per-node sizes second, both before the graph is split and processed")
		} else {
			r.violation("size-order", pos, "fixed size first, per-node override second, both before the pipeline", "the per-node size would be overwritten by the fixed size, or sizes applied after positioning")
		}
	}
	// closures stored into Params.NodeSizeFunc
	n := 0
	for _, f := range m.Src {
		eachInstr(f, func(in ssa.Instruction) {
			st, ok := in.(*ssa.Store)
			if !ok {
				return
			}
			fa, ok := st.Addr.(*ssa.FieldAddr)
			if !ok {
				return
			}
			_, steps := fieldChain(fa)
			loc := locOfSteps(steps)
			if loc != "autog.options.params.NodeSizeFunc" && loc != igPar+".NodeSizeFunc" {
				return
			}
			mc, ok := st.Val.(*ssa.MakeClosure)
			if !ok {
				// built by a helper of the package that returns the function literal
				if call, isCall := st.Val.(*ssa.Call); isCall {
					if c := call.Call.StaticCallee(); c != nil && pkgPathOf(c) == pkgPathOf(f) {
						eachInstr(c, func(in3 ssa.Instruction) {
							if ret, isRet := in3.(*ssa.Return); isRet && len(ret.Results) == 1 {
								if mc2, isMC := ret.Results[0].(*ssa.MakeClosure); isMC {
									mc, ok = mc2, true
								}
							}
						})
					}
				}
			}
			if !ok {
				if c, isC := st.Val.(*ssa.Const); isC && c.Value == nil {
					return
				}
				r.add(Obligation{Key: "size-closure:" + funcKey(f), Pos: m.Pos(st.Pos()), Desc: "value stored into Params.NodeSizeFunc", Verdict: "undecided", Detail: "not a function literal", Control: m.FuncIsPosctl(f)})
				return
			}
			cl := mc.Fn.(*ssa.Function)
			n++
			key := "size-closure:" + funcKey(cl)
			ctl := m.FuncIsPosctl(cl)
			var bad []string
			nst := 0
			eachInstr(cl, func(in2 ssa.Instruction) {
				s2, ok := in2.(*ssa.Store)
				if !ok {
					return
				}
				ai := classifyAddr(s2.Addr)
				isSize := false
				for _, l := range ai.Locs {
					if l == igNode+".W" || l == igNode+".H" || l == igNode+".Size" {
						isSize = true
					}
				}
				if !isSize {
					return
				}
				nst++
				guarded := false
				for _, d := range transitiveControlDeps(s2.Block()) {
					if ex, ok := d.If.Cond.(*ssa.Extract); ok && ex.Index == 1 && d.Branch == 0 {
						if lk, ok := ex.Tuple.(*ssa.Lookup); ok && lk.CommaOk {
							guarded = true
						}
					}
				}
				if !guarded {
					bad = append(bad, "store at "+m.Pos(s2.Pos())+" executes for nodes that are not in the map")
				}
			})
			if nst == 0 {
				r.add(Obligation{Key: key, Pos: m.Pos(cl.Pos()), Desc: "per-node size closure", Verdict: "undecided", Detail: "no store into Node.W/H found", Control: ctl})
			} else if len(bad) > 0 {
				r.add(Obligation{Key: key, Pos: m.Pos(cl.Pos()), Desc: "per-node size override must apply only to listed nodes", Verdict: "violation",
					Detail: strings.Join(bad, "; ") + ": unlisted nodes lose the fixed size (zero value of the lookup)", Control: ctl})
			} else {
				r.add(Obligation{Key: key, Pos: m.Pos(cl.Pos()), Desc: "per-node size override is conditional on the node being listed", Verdict: "holds", Control: ctl})
			}
		})
	}
	r.stat("size_closures", n)
}

// ---------- ORD-4 ----------

// isNormaliser: the function stores Node.Layer := load(Node.Layer) - M with M a min-reduction over loads of Node.Layer.
func isNormaliser(f *ssa.Function) bool {
	found := false
	eachInstr(f, func(in ssa.Instruction) {
		st, ok := in.(*ssa.Store)
		if !ok {
			return
		}
		fa, ok := st.Addr.(*ssa.FieldAddr)
		if !ok {
			return
		}
		_, steps := fieldChain(fa)
		if locOfSteps(steps) != igNode+".Layer" {
			return
		}
		bo, ok := st.Val.(*ssa.BinOp)
		if !ok || bo.Op != token.SUB {
			return
		}
		if !isLoadOf(bo.X, igNode+".Layer") {
			return
		}
		if isMinReductionOver(bo.Y, igNode+".Layer", map[ssa.Value]bool{}) {
			found = true
		}
	})
	return found
}

func isLoadOf(v ssa.Value, loc string) bool {
	if u, ok := v.(*ssa.UnOp); ok && u.Op == token.MUL {
		if fa, ok := u.X.(*ssa.FieldAddr); ok {
			_, steps := fieldChain(fa)
			return locOfSteps(steps) == loc
		}
	}
	return false
}

func isMinReductionOver(v ssa.Value, loc string, seen map[ssa.Value]bool) bool {
	return isMinReductionOverB(v, loc, seen, nil)
}

// isMinReductionOverB: bind maps function-typed parameters of the helper being looked into to the arguments of its call site
// (`MinOf(g.Nodes, math.MaxInt, nodeLayer)`: inside MinOf, key(x) is nodeLayer(x), which returns x.Layer).
func isMinReductionOverB(v ssa.Value, loc string, seen map[ssa.Value]bool, bind map[ssa.Value]ssa.Value) bool {
	if seen[v] {
		return false
	}
	seen[v] = true
	switch x := v.(type) {
	case *ssa.Phi:
		for _, e := range x.Edges {
			if isMinReductionOverB(e, loc, seen, bind) {
				return true
			}
		}
	case *ssa.Call:
		if minMaxKind(&x.Call) == "min" {
			for _, a := range x.Call.Args {
				if isLoadOf(a, loc) {
					return true
				}
				// key(x) with key bound to a function of the module that returns the field of its parameter
				if kc, ok := a.(*ssa.Call); ok && kc.Call.StaticCallee() == nil && !kc.Call.IsInvoke() && bind != nil {
					if fv, ok := bind[kc.Call.Value]; ok {
						var k *ssa.Function
						switch f := fv.(type) {
						case *ssa.Function:
							k = f
						case *ssa.MakeClosure:
							k, _ = f.Fn.(*ssa.Function)
						}
						if k != nil && len(k.Blocks) > 0 {
							n, all := 0, true
							eachInstr(k, func(in ssa.Instruction) {
								if ret, ok := in.(*ssa.Return); ok && len(ret.Results) == 1 {
									n++
									if !isLoadOf(ret.Results[0], loc) {
										all = false
									}
								}
							})
							if n > 0 && all {
								return true
							}
						}
					}
				}
			}
		}
		// a helper of the module that returns the reduction
		if c := x.Call.StaticCallee(); c != nil && inModule(c) && len(c.Blocks) > 0 && c.Signature.Results().Len() == 1 {
			nb := map[ssa.Value]ssa.Value{}
			for i, p := range c.Params {
				if i < len(x.Call.Args) {
					if _, isFn := p.Type().Underlying().(*types.Signature); isFn {
						nb[p] = x.Call.Args[i]
					}
				}
			}
			found := false
			eachInstr(c, func(in ssa.Instruction) {
				if ret, ok := in.(*ssa.Return); ok && len(ret.Results) == 1 && isMinReductionOverB(ret.Results[0], loc, seen, nb) {
					found = true
				}
			})
			return found
		}
	}
	return false
}

// nnBind: parameters of the helpers being looked into, bound to the values their callers pass (innermost last).
var nnBind []map[*ssa.Parameter]ssa.Value

func nnPush(call *ssa.Call, c *ssa.Function) {
	b := map[*ssa.Parameter]ssa.Value{}
	for i, p := range c.Params {
		if i < len(call.Call.Args) {
			b[p] = call.Call.Args[i]
		}
	}
	nnBind = append(nnBind, b)
}

// nonNegative: v is provably >= 0 by a shallow structural argument.
func nonNegative(v ssa.Value, inProgress map[ssa.Value]bool, depth int) bool {
	if depth > 12 {
		return false
	}
	if inProgress[v] {
		return true // coinductive assumption on loop-carried phis
	}
	switch x := v.(type) {
	case *ssa.Parameter:
		// a parameter of a helper whose result is being judged: as non-negative as what the caller passes
		for i := len(nnBind) - 1; i >= 0; i-- {
			if a, ok := nnBind[i][x]; ok {
				saved := nnBind
				nnBind = append([]map[*ssa.Parameter]ssa.Value(nil), nnBind[:i]...) // a copy: pushes below must not overwrite the saved frames
				res := nonNegative(a, inProgress, depth+1)
				nnBind = saved
				return res
			}
		}
		return false
	case *ssa.Const:
		c, ok := constInt(x)
		return ok && c >= 0
	case *ssa.Phi:
		inProgress[v] = true
		defer delete(inProgress, v)
		for _, e := range x.Edges {
			if !nonNegative(e, inProgress, depth+1) {
				return false
			}
		}
		return true
	case *ssa.BinOp:
		switch x.Op {
		case token.ADD:
			return nonNegative(x.X, inProgress, depth+1) && nonNegative(x.Y, inProgress, depth+1)
		}
	case *ssa.Extract:
		// result i of a module function: every return's i-th value
		if call, ok := x.Tuple.(*ssa.Call); ok {
			if c := call.Call.StaticCallee(); c != nil && inModule(c) && len(c.Blocks) > 0 {
				inProgress[v] = true
				defer delete(inProgress, v)
				nnPush(call, c)
				defer func() { nnBind = nnBind[:len(nnBind)-1] }()
				n, all := 0, true
				eachInstr(c, func(in ssa.Instruction) {
					if ret, ok := in.(*ssa.Return); ok && x.Index < len(ret.Results) {
						n++
						if !nonNegative(ret.Results[x.Index], inProgress, depth+1) {
							all = false
						}
					}
				})
				return n > 0 && all
			}
		}
	case *ssa.Call:
		if c := x.Call.StaticCallee(); c != nil && inModule(c) && len(c.Blocks) > 0 && c.Signature.Results().Len() == 1 {
			inProgress[v] = true
			defer delete(inProgress, v)
			nnPush(x, c)
			defer func() { nnBind = nnBind[:len(nnBind)-1] }()
			n, all := 0, true
			eachInstr(c, func(in ssa.Instruction) {
				if ret, ok := in.(*ssa.Return); ok && len(ret.Results) == 1 {
					n++
					if !nonNegative(ret.Results[0], inProgress, depth+1) {
						all = false
					}
				}
			})
			return n > 0 && all
		}
		if mk := minMaxKind(&x.Call); mk != "" {
			switch mk {
			case "max":
				for _, a := range x.Call.Args {
					if nonNegative(a, inProgress, depth+1) {
						return true
					}
				}
			case "min":
				for _, a := range x.Call.Args {
					if !nonNegative(a, inProgress, depth+1) {
						return false
					}
				}
				return true
			case "len":
				return true
			}
		}
	}
	return false
}

func runOrd4(m *Model, r *RuleResult) {
	m.fxInit()
	norm := map[*ssa.Function]bool{}
	for _, f := range m.Src {
		if isNormaliser(f) {
			norm[f] = true
			r.add(Obligation{Key: "normaliser:" + funcKey(f), Pos: m.Pos(f.Pos()), Desc: "recognised as a layer normaliser (Layer -= min Layer)", Verdict: "holds", Control: m.FuncIsPosctl(f)})
		}
	}
	if len(norm) == 0 {
		r.undecided("normaliser", "-", "a layer normaliser must exist in phase 2", "none recognised by shape")
		return
	}
	// layerWritesNonNegative: all stores to Node.Layer performed by f or its callees store provably non-negative values
	var layerWritesOK func(f *ssa.Function, seen map[*ssa.Function]bool) (bool, string)
	layerWritesOK = func(f *ssa.Function, seen map[*ssa.Function]bool) (bool, string) {
		if seen[f] {
			return true, ""
		}
		seen[f] = true
		ok, why := true, ""
		// a modification inside f is harmless when f itself runs a normaliser afterwards on every path
		var fNorm []ssa.CallInstruction
		eachInstr(f, func(in ssa.Instruction) {
			if ci, isCI := in.(ssa.CallInstruction); isCI {
				for _, cal := range m.Callees(ci) {
					if norm[cal] {
						fNorm = append(fNorm, ci)
					}
				}
			}
		})
		renormalised := func(in ssa.Instruction) bool {
			if len(fNorm) == 0 || len(f.Blocks) == 0 {
				return false
			}
			cfg := getCFG(f)
			for _, nc := range fNorm {
				if nc.Block() == in.Block() && instrIndex(nc) > instrIndex(in) {
					return true
				}
				if nc.Block() != in.Block() && cfg.postDominates(nc.Block(), in.Block()) {
					return true
				}
			}
			return false
		}
		eachInstr(f, func(in ssa.Instruction) {
			if !ok {
				return
			}
			switch x := in.(type) {
			case *ssa.Store:
				if fa, isFA := x.Addr.(*ssa.FieldAddr); isFA {
					_, steps := fieldChain(fa)
					if locOfSteps(steps) == igNode+".Layer" && !isFreshObject(fa.X, 0) {
						if !nonNegative(x.Val, map[ssa.Value]bool{}, 0) && !renormalised(in) {
							ok, why = false, fmt.Sprintf("%s stores %s into Node.Layer at %s", funcKey(f), x.Val.String(), m.Pos(x.Pos()))
						}
					}
				}
			case ssa.CallInstruction:
				for _, cal := range m.Callees(x) {
					ce := m.effects[cal]
					if ce != nil && ce.Mod[igNode+".Layer"] && !norm[cal] {
						if o, w := layerWritesOK(cal, seen); !o && !renormalised(in) {
							ok, why = false, w
						}
					}
				}
			}
		})
		return ok, why
	}
	for _, f := range m.Src {
		var normCalls []ssa.CallInstruction
		eachInstr(f, func(in ssa.Instruction) {
			if ci, ok := in.(ssa.CallInstruction); ok {
				for _, cal := range m.Callees(ci) {
					if norm[cal] {
						normCalls = append(normCalls, ci)
					}
				}
			}
		})
		if len(normCalls) == 0 {
			continue
		}
		ctl := m.FuncIsPosctl(f)
		cfg := getCFG(f)
		var bad []string
		nmods := 0
		eachInstr(f, func(in ssa.Instruction) {
			// is `in` a Layer modification?
			mod := false
			desc := ""
			okVal := true
			why := ""
			switch x := in.(type) {
			case *ssa.Store:
				if fa, isFA := x.Addr.(*ssa.FieldAddr); isFA {
					_, steps := fieldChain(fa)
					if locOfSteps(steps) == igNode+".Layer" {
						mod = true
						desc = "store at " + m.Pos(x.Pos())
						okVal = nonNegative(x.Val, map[ssa.Value]bool{}, 0)
						why = desc + " writes a value not provably >= 0"
					}
				}
			case ssa.CallInstruction:
				for _, cal := range m.Callees(x) {
					if norm[cal] {
						return
					}
					ce := m.effects[cal]
					if ce != nil && ce.Mod[igNode+".Layer"] {
						mod = true
						desc = "call of " + funcKey(cal) + " at " + m.Pos(in.Pos())
						if o, w := layerWritesOK(cal, map[*ssa.Function]bool{}); !o {
							okVal = false
							why = desc + ": " + w
						}
					}
				}
			}
			if !mod {
				return
			}
			// only modifications that may execute after some normaliser call matter
			after := false
			for _, nc := range normCalls {
				if instrReaches(nc, in) {
					after = true
				}
			}
			if !after {
				return
			}
			nmods++
			if okVal {
				return
			}
			// followed on every path by another normaliser call?
			covered := false
			for _, nc := range normCalls {
				if nc.Block() == in.Block() && instrIndex(nc) > instrIndex(in) {
					covered = true
				}
				if nc.Block() != in.Block() && cfg.postDominates(nc.Block(), in.Block()) {
					covered = true
				}
			}
			if !covered {
				bad = append(bad, why+" and no normaliser runs afterwards on every path")
			}
		})
		key := "after-normalise:" + funcKey(f)
		if len(bad) > 0 {
			r.add(Obligation{Key: key, Pos: m.Pos(normCalls[0].Pos()), Desc: "layers modified after normalisation", Verdict: "violation",
				Detail: strings.Join(bad, "; ") + ": layer indices can become negative (slice index panic when layers are built) or the top band is no longer 0", Control: ctl})
		} else {
			r.add(Obligation{Key: key, Pos: m.Pos(normCalls[0].Pos()), Desc: fmt.Sprintf("%d later modification(s) of Node.Layer keep it >= 0 or are re-normalised", nmods), Verdict: "holds", Control: ctl})
		}
	}
	ord4BalancerInput(m, r, norm)
}

// degreeGuardedLayerStore: the function stores Node.Layer under Indeg(n) == Outdeg(n) of the same node (vertical balancing).
func degreeGuardedLayerStore(f *ssa.Function) bool {
	found := false
	eachInstr(f, func(in ssa.Instruction) {
		st, ok := in.(*ssa.Store)
		if !ok {
			return
		}
		fa, ok := st.Addr.(*ssa.FieldAddr)
		if !ok {
			return
		}
		node, steps := fieldChain(fa)
		if locOfSteps(steps) != igNode+".Layer" {
			return
		}
		for _, d := range transitiveControlDeps(st.Block()) {
			bo, ok := d.If.Cond.(*ssa.BinOp)
			if !ok || !((bo.Op == token.EQL && d.Branch == 0) || (bo.Op == token.NEQ && d.Branch == 1)) {
				continue
			}
			cx, ok1 := bo.X.(*ssa.Call)
			cy, ok2 := bo.Y.(*ssa.Call)
			if ok1 && ok2 && len(cx.Call.Args) == 1 && len(cy.Call.Args) == 1 && cx.Call.Args[0] == node && cy.Call.Args[0] == node {
				found = true
			}
			if a, b := degreeOperand(bo.X, node), degreeOperand(bo.Y, node); a != "" && b != "" && a != b {
				found = true
			}
		}
	})
	return found
}

// degreeOperand: v is the in-degree ("in") or out-degree ("out") of node: Indeg(node) / Outdeg(node), or len(node.In) / len(node.Out)
func degreeOperand(v ssa.Value, node ssa.Value) string {
	call, ok := v.(*ssa.Call)
	if !ok || len(call.Call.Args) != 1 {
		return ""
	}
	if c := call.Call.StaticCallee(); c != nil {
		if call.Call.Args[0] != node && !sameSSAExpr(call.Call.Args[0], node, 0) {
			return ""
		}
		switch c.Name() {
		case "Indeg":
			return "in"
		case "Outdeg":
			return "out"
		}
		return ""
	}
	if b, isB := call.Call.Value.(*ssa.Builtin); isB && b.Name() == "len" {
		u, ok := call.Call.Args[0].(*ssa.UnOp)
		if !ok || u.Op != token.MUL {
			return ""
		}
		fa, ok := u.X.(*ssa.FieldAddr)
		if !ok {
			return ""
		}
		base, steps := fieldChain(fa)
		if base != node && !sameSSAExpr(base, node, 0) {
			return ""
		}
		switch locOfSteps(steps) {
		case igNode + ".In":
			return "in"
		case igNode + ".Out":
			return "out"
		}
	}
	return ""
}

// ord4BalancerInput: the vertical balancer seeds its feasible window with the absolute layer 0 and the maximum layer, so it is
// only correct on normalised layers: every call of it must be dominated by a normaliser call with no other modification of
// Node.Layer in between.
func ord4BalancerInput(m *Model, r *RuleResult, norm map[*ssa.Function]bool) {
	n := 0
	for _, f := range m.Src {
		var normCalls, balCalls []ssa.CallInstruction
		eachInstr(f, func(in ssa.Instruction) {
			if ci, ok := in.(ssa.CallInstruction); ok {
				for _, cal := range m.Callees(ci) {
					if norm[cal] {
						normCalls = append(normCalls, ci)
					} else if degreeGuardedLayerStore(cal) {
						balCalls = append(balCalls, ci)
					}
				}
			}
		})
		for _, bc := range balCalls {
			n++
			ctl := m.FuncIsPosctl(f)
			key := "balancer-input:" + funcKey(f)
			ok := false
			why := "no normaliser call dominates the balancing call"
			for _, nc := range normCalls {
				if !instrDominates(nc, bc) {
					continue
				}
				clean := true
				eachInstr(f, func(in ssa.Instruction) {
					if in == ssa.Instruction(nc) || in == ssa.Instruction(bc) || !instrReaches(nc, in) || !instrReaches(in, bc) {
						return
					}
					switch x := in.(type) {
					case *ssa.Store:
						if fa, isFA := x.Addr.(*ssa.FieldAddr); isFA {
							_, steps := fieldChain(fa)
							if locOfSteps(steps) == igNode+".Layer" {
								clean = false
								why = "Node.Layer is stored at " + m.Pos(x.Pos()) + " between normalisation and balancing"
							}
						}
					case ssa.CallInstruction:
						for _, cal := range m.Callees(x) {
							if e := m.effects[cal]; e != nil && e.Mod[igNode+".Layer"] && !norm[cal] {
								clean = false
								why = funcKey(cal) + " modifies Node.Layer between normalisation and balancing"
							}
						}
					}
				})
				if clean {
					ok = true
				}
			}
			if !ok && !ctl {
				// the balancing call sits in a dispatch helper: nothing modifies Layer between the helper's entry and the call,
				// and every call of the helper is preceded by a normaliser call with nothing in between
				cleanPrefix := true
				eachInstr(f, func(in ssa.Instruction) {
					if in == ssa.Instruction(bc) || !instrReaches(in, bc) {
						return
					}
					switch x := in.(type) {
					case *ssa.Store:
						if fa, isFA := x.Addr.(*ssa.FieldAddr); isFA {
							_, steps := fieldChain(fa)
							if locOfSteps(steps) == igNode+".Layer" {
								cleanPrefix = false
							}
						}
					case ssa.CallInstruction:
						for _, cal := range m.Callees(x) {
							if e := m.effects[cal]; e != nil && e.Mod[igNode+".Layer"] {
								cleanPrefix = false
							}
						}
					}
				})
				nSites, allOK := 0, true
				for _, g := range m.Src {
					var gNorm []ssa.CallInstruction
					eachInstr(g, func(in ssa.Instruction) {
						if ci, isCI := in.(ssa.CallInstruction); isCI {
							for _, cal := range m.Callees(ci) {
								if norm[cal] {
									gNorm = append(gNorm, ci)
								}
							}
						}
					})
					for _, site := range staticCalls(g, func(c *ssa.Function) bool { return c == f }) {
						nSites++
						siteOK := false
						for _, nc := range gNorm {
							if !instrDominates(nc, site) {
								continue
							}
							clean := true
							eachInstr(g, func(in ssa.Instruction) {
								if in == ssa.Instruction(nc) || in == ssa.Instruction(site) || !instrReaches(nc, in) || !instrReaches(in, site) {
									return
								}
								switch x := in.(type) {
								case *ssa.Store:
									if fa, isFA := x.Addr.(*ssa.FieldAddr); isFA {
										_, steps := fieldChain(fa)
										if locOfSteps(steps) == igNode+".Layer" {
											clean = false
										}
									}
								case ssa.CallInstruction:
									for _, cal := range m.Callees(x) {
										if e := m.effects[cal]; e != nil && e.Mod[igNode+".Layer"] && !norm[cal] {
											clean = false
										}
									}
								}
							})
							if clean {
								siteOK = true
							}
						}
						if !siteOK {
							allOK = false
							why = "the helper " + funcKey(f) + " is called at " + m.Pos(site.Pos()) + " without a normaliser call right before it"
						}
					}
				}
				if cleanPrefix && nSites > 0 && allOK {
					ok = true
				}
			}
			if ok {
				r.add(Obligation{Key: key, Pos: m.Pos(bc.Pos()), Desc: "the vertical balancer runs on freshly normalised layers (its window is seeded with the absolute layer 0)", Verdict: "holds", Control: ctl})
			} else {
				r.add(Obligation{Key: key, Pos: m.Pos(bc.Pos()), Desc: "the vertical balancer must run on normalised layers", Verdict: "violation",
					Detail: why + ": with negative layers its window [max(0, ...), ...] is wrong and a node can be moved onto or below its successors (edge inside a band / upward)", Control: ctl})
			}
		}
	}
	if n == 0 {
		r.Notes = append(r.Notes, "no call of a degree-guarded balancer found")
	}
}

// ---------- ORD-5 ----------

func runOrd5(m *Model, r *RuleResult) {
	process := m.SSAFunc("internal/phase1", "(Alg).Process")
	rev := m.anchorReverse()
	if process == nil || rev == nil {
		r.undecided("anchors", "-", "phase1.(Alg).Process / (*Edge).Reverse", "not found")
		return
	}
	// acyclicity test in Process: bool-returning static callee whose result decides an If with one early-return successor
	var cyclicBlock *ssa.BasicBlock
	for _, b := range process.Blocks {
		iff, ok := b.Instrs[len(b.Instrs)-1].(*ssa.If)
		if !ok {
			continue
		}
		cond := iff.Cond
		neg := false
		if u, ok := cond.(*ssa.UnOp); ok && u.Op == token.NOT {
			cond, neg = u.X, true
		}
		call, ok := cond.(*ssa.Call)
		if !ok || call.Call.StaticCallee() == nil || pkgPathOf(call.Call.StaticCallee()) != pkgPathOf(process) {
			continue
		}
		isEarlyReturn := func(bb *ssa.BasicBlock) bool {
			if len(bb.Instrs) != 1 {
				return false
			}
			_, ok := bb.Instrs[0].(*ssa.Return)
			return ok
		}
		t, f := b.Succs[0], b.Succs[1]
		if neg {
			t, f = f, t
		}
		// t = "has cycles" edge, f = "acyclic" edge
		if isEarlyReturn(f) && !isEarlyReturn(t) && cyclicBlock == nil {
			cyclicBlock = t
			r.holds("acyclicity-test", m.Pos(iff.Pos()), "Process returns early when "+call.Call.StaticCallee().Name()+"(g) reports no cycle")
		}
	}
	if cyclicBlock == nil {
		r.violation("acyclicity-test", m.Pos(process.Pos()), "Process must return early on acyclic graphs", "no `if !hasCycles(g) { return }` shaped test found: acyclic inputs reach the cycle breakers")
		return
	}
	// functions of phase1 containing Reverse calls
	for _, f := range m.Src {
		if pkgPathOf(f) != pkgPathOf(process) {
			continue
		}
		sites := staticCalls(f, func(c *ssa.Function) bool { return c == rev })
		if len(sites) == 0 {
			continue
		}
		ctl := m.FuncIsPosctl(f)
		key := "reverser:" + funcKey(f)
		// (i) all chains from Process to f pass through a site dominated by cyclicBlock
		guarded, reached := guardedReach(m, process, f, cyclicBlock)
		if ctl {
			reached = true
		}
		if !reached {
			r.add(Obligation{Key: key, Pos: m.Pos(sites[0].Pos()), Desc: "reverses edges but is not reachable from Process", Verdict: "holds", Control: ctl})
			continue
		}
		if guarded && !ctl {
			r.add(Obligation{Key: key, Pos: m.Pos(sites[0].Pos()), Desc: "reverses edges only after the graph was found cyclic", Verdict: "holds", Control: ctl})
			continue
		}
		// (ii) antiparallel witness (typed AST)
		if ok, why := antiparallelWitness(m, f); ok {
			r.add(Obligation{Key: key, Pos: m.Pos(sites[0].Pos()), Desc: "reverses only edges with an antiparallel partner already seen (a two-node cycle exists)", Verdict: "holds", Control: ctl})
		} else {
			r.add(Obligation{Key: key, Pos: m.Pos(sites[0].Pos()), Desc: "edges reversed without the graph being established cyclic", Verdict: "violation",
				Detail: why + ": an acyclic input can come back with reversed (ArrowHeadStart) edges", Control: ctl})
		}
	}
}

// guardedReach: is target reachable from root through static calls, and does every path use a call site in root dominated by guard?
func guardedReach(m *Model, root, target *ssa.Function, guard *ssa.BasicBlock) (guarded, reached bool) {
	reachesTarget := map[*ssa.Function]bool{}
	var reaches func(f *ssa.Function, seen map[*ssa.Function]bool) bool
	reaches = func(f *ssa.Function, seen map[*ssa.Function]bool) bool {
		if f == target {
			return true
		}
		if v, ok := reachesTarget[f]; ok {
			return v
		}
		if seen[f] {
			return false
		}
		seen[f] = true
		res := false
		eachInstr(f, func(in ssa.Instruction) {
			if ci, ok := in.(ssa.CallInstruction); ok {
				for _, c := range m.Callees(ci) {
					if inModule(c) && reaches(c, seen) {
						res = true
					}
				}
			}
			if mc, ok := in.(*ssa.MakeClosure); ok {
				if reaches(mc.Fn.(*ssa.Function), seen) {
					res = true
				}
			}
		})
		reachesTarget[f] = res
		return res
	}
	guarded = true
	eachInstr(root, func(in ssa.Instruction) {
		ci, ok := in.(ssa.CallInstruction)
		if !ok {
			return
		}
		for _, c := range m.Callees(ci) {
			if inModule(c) && reaches(c, map[*ssa.Function]bool{}) {
				reached = true
				if !(guard == in.Block() || guard.Dominates(in.Block())) {
					guarded = false
				}
			}
		}
	})
	return guarded && reached, reached
}

func antiparallelWitness(m *Model, f *ssa.Function) (bool, string) {
	fd, _ := f.Syntax().(*ast.FuncDecl)
	if fd == nil {
		return false, "no syntax for " + funcKey(f)
	}
	var info *types.Info
	for _, p := range m.Pkgs {
		if p.PkgPath == pkgPathOf(f) {
			info = p.TypesInfo
		}
	}
	type pairKey struct{ a, b types.Object }
	litPair := func(e ast.Expr) (pairKey, bool) {
		cl, ok := e.(*ast.CompositeLit)
		if !ok || len(cl.Elts) != 2 {
			return pairKey{}, false
		}
		ia, ok1 := cl.Elts[0].(*ast.Ident)
		ib, ok2 := cl.Elts[1].(*ast.Ident)
		if !ok1 || !ok2 {
			return pairKey{}, false
		}
		return pairKey{info.Uses[ia], info.Uses[ib]}, true
	}
	// insertions M[{p,q}] = true
	inserts := map[types.Object][]pairKey{}
	okShape := true
	why := ""
	ast.Inspect(fd.Body, func(n ast.Node) bool {
		as, ok := n.(*ast.AssignStmt)
		if !ok {
			return true
		}
		for i, l := range as.Lhs {
			ix, ok := l.(*ast.IndexExpr)
			if !ok {
				continue
			}
			id, ok := ix.X.(*ast.Ident)
			if !ok {
				continue
			}
			if _, isMap := info.TypeOf(ix.X).Underlying().(*types.Map); !isMap {
				continue
			}
			pk, ok := litPair(ix.Index)
			if !ok {
				continue
			}
			if i < len(as.Rhs) {
				if tv, ok := info.Types[as.Rhs[i]]; !ok || tv.Value == nil || tv.Value.String() != "true" {
					okShape = false
					why = "witness map stores a non-constant value"
				}
			}
			inserts[info.Uses[id]] = append(inserts[info.Uses[id]], pk)
		}
		return true
	})
	// the condition that guards the collection / reversal
	found := false
	ast.Inspect(fd.Body, func(n ast.Node) bool {
		is, ok := n.(*ast.IfStmt)
		if !ok {
			return true
		}
		// guard form: `if !witness[pair] { continue }` followed, in the same block, by the collection
		var cond ast.Expr = is.Cond
		var guarded ast.Node = is.Body
		if ue, isNot := stripParens(is.Cond).(*ast.UnaryExpr); isNot && ue.Op == token.NOT && is.Else == nil && len(is.Body.List) >= 1 {
			// (the guard's own body may hold what used to be the else branch - the insertion into the witness map - before the continue)
			if br, isBr := is.Body.List[len(is.Body.List)-1].(*ast.BranchStmt); isBr && br.Tok == token.CONTINUE && br.Label == nil {
				if _, isIdx := stripParens(ue.X).(*ast.IndexExpr); isIdx {
					// the statements after the guard in the enclosing block
					var rest *ast.BlockStmt
					ast.Inspect(fd.Body, func(n3 ast.Node) bool {
						if bl, ok := n3.(*ast.BlockStmt); ok {
							for i, s := range bl.List {
								if s == ast.Stmt(is) {
									rest = &ast.BlockStmt{List: bl.List[i+1:]}
								}
							}
						}
						return true
					})
					if rest != nil {
						cond, guarded = stripParens(ue.X), rest
					}
				}
			}
		}
		// does the then-branch collect or reverse?
		collects := false
		ast.Inspect(guarded, func(n2 ast.Node) bool {
			if call, ok := n2.(*ast.CallExpr); ok {
				name := funcFullName(calleeObj(info, call))
				if name == "builtin.append" || strings.HasSuffix(name, ".Reverse") {
					collects = true
				}
			}
			return true
		})
		if !collects {
			return true
		}
		ix, ok := cond.(*ast.IndexExpr)
		if !ok {
			okShape = false
			why = "reversal candidates are selected by `" + types.ExprString(is.Cond) + "`, not by a single antiparallel lookup"
			return true
		}
		id, ok := ix.X.(*ast.Ident)
		if !ok {
			okShape = false
			return true
		}
		pk, ok := litPair(ix.Index)
		if !ok {
			okShape = false
			why = "lookup key is not a pair literal"
			return true
		}
		ins := inserts[info.Uses[id]]
		if len(ins) == 0 {
			okShape = false
			why = "no insertion into the witness map"
			return true
		}
		for _, in := range ins {
			if !(in.a == pk.b && in.b == pk.a) || pk.a == pk.b {
				okShape = false
				why = "witness lookup and insertion use the same orientation: parallel (same-direction) edges are treated as a cycle"
			}
		}
		found = true
		return true
	})
	if !found && okShape {
		return false, "no guarded collection of reversal candidates recognised in " + funcKey(f)
	}
	return okShape && found, why
}

// ---------- EFF-1 ----------

func runEff1(m *Model, r *RuleResult) {
	m.fxInit()
	rev := m.anchorReverse()
	if rev == nil {
		r.undecided("anchor", "-", "(*Edge).Reverse", "not found")
		return
	}
	e := ssa.Value(rev.Params[0])
	pos := m.Pos(rev.Pos())
	// list operations
	want := map[string]bool{"remove Out of From": false, "remove In of To": false, "add In of From": false, "add Out of To": false}
	extra := []string{}
	isEndStore := func(in ssa.Instruction) bool {
		if st, ok := in.(*ssa.Store); ok {
			if fa, ok := st.Addr.(*ssa.FieldAddr); ok {
				_, steps := fieldChain(fa)
				l := locOfSteps(steps)
				return l == igEdge+".From" || l == igEdge+".To"
			}
		}
		return false
	}
	// helpers of the package that finish the job on the same edge (e.g. swapEnds): their stores count as Reverse's own
	type helperCall struct {
		in ssa.CallInstruction
		fn *ssa.Function
		pe ssa.Value // the helper's parameter that is the edge
	}
	var helpers []helperCall
	eachInstr(rev, func(in ssa.Instruction) {
		ci, ok := in.(ssa.CallInstruction)
		if !ok {
			return
		}
		c := ci.Common().StaticCallee()
		if c == nil || m.fx.listPrim[c] != "" || pkgPathOf(c) != pkgPathOf(rev) || len(c.Blocks) == 0 {
			return
		}
		for i, a := range ci.Common().Args {
			if a == e && i < len(c.Params) {
				helpers = append(helpers, helperCall{ci, c, c.Params[i]})
			}
		}
	})
	// the first point at which From/To change: a direct store or the call of such a helper
	var firstStore ssa.Instruction
	eachInstr(rev, func(in ssa.Instruction) {
		if firstStore != nil {
			return
		}
		if isEndStore(in) {
			firstStore = in
		}
		for _, h := range helpers {
			if ssa.Instruction(h.in) == in {
				firstStore = in
			}
		}
	})
	endpointIn := func(v ssa.Value, ev ssa.Value, first ssa.Instruction) string {
		// v = load of ev.From / ev.To, read before the first change of From/To
		u, ok := v.(*ssa.UnOp)
		if !ok || u.Op != token.MUL {
			return "?"
		}
		fa, ok := u.X.(*ssa.FieldAddr)
		if !ok {
			return "?"
		}
		base, steps := fieldChain(fa)
		if base != ev {
			return "?"
		}
		if first != nil && !instrDominates(u, first) {
			return "?(read after From/To were overwritten)"
		}
		switch locOfSteps(steps) {
		case igEdge + ".From":
			return "From"
		case igEdge + ".To":
			return "To"
		}
		return "?"
	}
	endpointOf := func(v ssa.Value) string { return endpointIn(v, e, firstStore) }
	isHelperCall := func(in ssa.Instruction) bool {
		for _, h := range helpers {
			if ssa.Instruction(h.in) == in {
				return true
			}
		}
		return false
	}
	eachInstr(rev, func(in ssa.Instruction) {
		ci, ok := in.(ssa.CallInstruction)
		if !ok || isHelperCall(in) {
			return
		}
		c := ci.Common().StaticCallee()
		if c == nil {
			extra = append(extra, "dynamic call at "+m.Pos(in.Pos()))
			return
		}
		kind := m.fx.listPrim[c]
		if kind == "" {
			extra = append(extra, "call of "+funcKey(c))
			return
		}
		args := ci.Common().Args
		if len(args) != 2 || args[1] != e {
			extra = append(extra, kind+" of an element other than the receiver")
			return
		}
		fa, ok := args[0].(*ssa.FieldAddr)
		if !ok {
			extra = append(extra, kind+" on an unrecognised list")
			return
		}
		base, steps := fieldChain(fa)
		list := strings.TrimPrefix(locOfSteps(steps), igNode+".")
		k := kind + " " + list + " of " + endpointOf(base)
		if _, ok := want[k]; ok {
			want[k] = true
		} else {
			extra = append(extra, k)
		}
	})
	var ks []string
	for k := range want {
		ks = append(ks, k)
	}
	sort.Strings(ks)
	for _, k := range ks {
		if want[k] {
			r.holds("reverse:"+k, pos, "Reverse performs: "+k)
		} else {
			r.violation("reverse:"+k, pos, "Reverse must perform: "+k, "adjacency lists no longer agree with From/To after a reversal (extra/unrecognised: "+strings.Join(extra, ", ")+")")
		}
	}
	// field stores, in Reverse itself and in its helpers
	stores := map[string]string{}
	scan := func(fn *ssa.Function, ev ssa.Value) {
		var first ssa.Instruction
		eachInstr(fn, func(in ssa.Instruction) {
			if first == nil && isEndStore(in) {
				first = in
			}
		})
		if fn == rev {
			first = firstStore
		}
		eachInstr(fn, func(in ssa.Instruction) {
			if fn != rev {
				// a helper does nothing but store: any call in it is an extra effect
				if ci, ok := in.(ssa.CallInstruction); ok {
					extra = append(extra, "call of "+calleeFullName(ci.Common())+" in "+funcKey(fn))
				}
			}
			st, ok := in.(*ssa.Store)
			if !ok {
				return
			}
			fa, ok := st.Addr.(*ssa.FieldAddr)
			if !ok {
				extra = append(extra, "store through "+st.Addr.String())
				return
			}
			base, steps := fieldChain(fa)
			l := locOfSteps(steps)
			if base != ev {
				extra = append(extra, "store into "+l+" of another object")
				return
			}
			switch l {
			case igEdge + ".From", igEdge + ".To":
				stores[l] = endpointIn(st.Val, ev, first)
			case igEdge + ".IsReversed":
				if u, ok := st.Val.(*ssa.UnOp); ok && u.Op == token.NOT && isLoadOf(u.X, igEdge+".IsReversed") {
					stores[l] = "negated"
				} else {
					stores[l] = st.Val.String()
				}
			default:
				extra = append(extra, "store into "+l)
			}
		})
	}
	scan(rev, e)
	for _, h := range helpers {
		scan(h.fn, h.pe)
	}
	chk := func(key, desc string, ok bool, detail string) {
		if ok {
			r.holds(key, pos, desc)
		} else {
			r.violation(key, pos, desc, detail)
		}
	}
	chk("reverse:From:=oldTo", "Reverse stores From := old To", stores[igEdge+".From"] == "To", "From receives "+stores[igEdge+".From"])
	chk("reverse:To:=oldFrom", "Reverse stores To := old From", stores[igEdge+".To"] == "From", "To receives "+stores[igEdge+".To"])
	chk("reverse:IsReversed-toggles", "Reverse toggles IsReversed", stores[igEdge+".IsReversed"] == "negated", "IsReversed receives "+stores[igEdge+".IsReversed"]+": reversing twice would not restore the flag")
	chk("reverse:no-other-effect", "Reverse has no other effect", len(extra) == 0, strings.Join(extra, "; "))
}

// ---------- EFF-2 ----------

// listOpsOf lists (op, list location, base description, element value) of the list-primitive calls in f.
type listOp struct {
	op, loc string
	elem    ssa.Value
	base    ssa.Value
	in      ssa.Instruction
}

func listOpsOf(m *Model, f *ssa.Function) []listOp {
	var out []listOp
	eachInstr(f, func(in ssa.Instruction) {
		ci, ok := in.(ssa.CallInstruction)
		if !ok {
			return
		}
		c := ci.Common().StaticCallee()
		if c == nil || m.fx.listPrim[c] == "" {
			return
		}
		args := ci.Common().Args
		lo := listOp{op: m.fx.listPrim[c], elem: args[1], in: in}
		if fa, ok := args[0].(*ssa.FieldAddr); ok {
			base, steps := fieldChain(fa)
			lo.loc = locOfSteps(steps)
			lo.base = base
		}
		out = append(out, lo)
	})
	// append-style additions: store of append(load L, x) into L
	eachInstr(f, func(in ssa.Instruction) {
		st, ok := in.(*ssa.Store)
		if !ok {
			return
		}
		fa, ok := st.Addr.(*ssa.FieldAddr)
		if !ok {
			return
		}
		base, steps := fieldChain(fa)
		v := st.Val
		if ct, ok := v.(*ssa.ChangeType); ok {
			v = ct.X
		}
		call, ok := v.(*ssa.Call)
		if !ok {
			return
		}
		if b, ok := call.Call.Value.(*ssa.Builtin); !ok || b.Name() != "append" {
			return
		}
		out = append(out, listOp{op: "add", loc: locOfSteps(steps), base: base, in: in})
	})
	return out
}

func runEff2(m *Model, r *RuleResult) {
	m.fxInit()
	isl := m.anchorSelfLoopPre()
	if isl == nil {
		r.undecided("anchor:IgnoreSelfLoops", "-", "preprocessor.IgnoreSelfLoops", "not found")
	} else {
		pos := m.Pos(isl.Pos())
		var closure *ssa.Function
		eachInstr(isl, func(in ssa.Instruction) {
			if ret, ok := in.(*ssa.Return); ok && len(ret.Results) == 1 {
				v := ret.Results[0]
				if ct, ok := v.(*ssa.ChangeType); ok {
					v = ct.X
				}
				if mc, ok := v.(*ssa.MakeClosure); ok {
					closure = mc.Fn.(*ssa.Function)
				}
			}
		})
		// list operations of a function and of the helpers of its package that it calls (by location)
		var opsOf func(f *ssa.Function, op string, depth int, out map[string]bool)
		opsOf = func(f *ssa.Function, op string, depth int, out map[string]bool) {
			if f == nil || depth > 2 {
				return
			}
			for _, lo := range listOpsOf(m, f) {
				if lo.op == op {
					out[lo.loc] = true
				}
			}
			for _, sc := range staticCalls(f, func(c *ssa.Function) bool { return c != f && pkgPathOf(c) == pkgPathOf(isl) && m.fx.listPrim[c] == "" }) {
				opsOf(sc.Common().StaticCallee(), op, depth+1, out)
			}
		}
		rem := map[string]bool{}
		opsOf(isl, "remove", 0, rem)
		add := map[string]bool{}
		if closure != nil {
			opsOf(closure, "add", 0, add)
		}
		for _, l := range []string{igNode + ".Out", igNode + ".In", igDG + ".Edges"} {
			short := strings.TrimPrefix(l, "internal/graph.")
			if rem[l] {
				r.holds("selfloop-removed-from:"+short, pos, "IgnoreSelfLoops removes each self-loop from "+short)
			} else {
				r.violation("selfloop-removed-from:"+short, pos, "IgnoreSelfLoops must remove each self-loop from "+short, "phases would still see the self-loop through "+short)
			}
			if add[l] {
				r.holds("selfloop-restored-to:"+short, pos, "the restore closure adds each self-loop back to "+short)
			} else {
				r.violation("selfloop-restored-to:"+short, pos, "the restore closure must add each self-loop back to "+short, "the returned graph would lack the self-loop in "+short)
			}
		}
		// the collection condition is From == To on the same edge
		selfCond := false
		isSelfTest := func(f *ssa.Function) bool {
			found := false
			eachInstr(f, func(in ssa.Instruction) {
				if bo, ok := in.(*ssa.BinOp); ok && bo.Op == token.EQL {
					if (isLoadOf(bo.X, igEdge+".From") && isLoadOf(bo.Y, igEdge+".To")) || (isLoadOf(bo.X, igEdge+".To") && isLoadOf(bo.Y, igEdge+".From")) {
						found = true
					}
				}
			})
			return found
		}
		selfCond = isSelfTest(isl)
		scanFns := []*ssa.Function{isl}
		for _, sc := range staticCalls(isl, func(c *ssa.Function) bool { return pkgPathOf(c) == pkgPathOf(isl) }) {
			scanFns = append(scanFns, sc.Common().StaticCallee())
			if isSelfTest(sc.Common().StaticCallee()) {
				selfCond = true
			}
		}
		for _, sf := range scanFns {
			if selfCond {
				break
			}
			// through a one-line accessor such as (*Edge).SelfLoops whose result is branched on
			eachInstr(sf, func(in ssa.Instruction) {
				if call, ok := in.(*ssa.Call); ok {
					if c := call.Call.StaticCallee(); c != nil && inModule(c) && len(c.Blocks) == 1 && isSelfTest(c) {
						if refs := call.Referrers(); refs != nil {
							for _, ref := range *refs {
								if _, isIf := ref.(*ssa.If); isIf {
									selfCond = true
								}
							}
						}
					}
				}
			})
		}
		if selfCond {
			r.holds("selfloop-test", pos, "edges are collected under e.From == e.To")
		} else {
			r.violation("selfloop-test", pos, "edges must be collected under e.From == e.To", "self-loop test not found")
		}
		// both loops range over the same collected slice
		same := false
		if closure != nil && len(closure.FreeVars) > 0 {
			same = true
		}
		if same {
			r.holds("selfloop-same-set", pos, "the restore closure captures the set collected by the removal")
		} else {
			r.violation("selfloop-same-set", pos, "the restore closure must capture the collected set", "closure captures nothing")
		}
	}
	// UnreverseEdges: Reverse exactly under e.IsReversed
	un := m.anchorUnreverse()
	rev := m.anchorReverse()
	if un == nil || rev == nil {
		r.undecided("anchor:UnreverseEdges", "-", "postprocessor.UnreverseEdges", "not found")
	} else {
		sites := staticCalls(un, func(c *ssa.Function) bool { return c == rev })
		ok := len(sites) == 1
		detail := fmt.Sprintf("%d Reverse call sites", len(sites))
		if ok {
			s := sites[0]
			recv := s.Common().Args[0]
			deps := controlDeps(s.Block())
			guard := false
			for _, d := range deps {
				if u, isU := d.If.Cond.(*ssa.UnOp); isU && u.Op == token.MUL && d.Branch == 0 {
					if fa, isFA := u.X.(*ssa.FieldAddr); isFA {
						base, steps := fieldChain(fa)
						if base == recv && locOfSteps(steps) == igEdge+".IsReversed" {
							guard = true
						}
					}
				}
			}
			// element of g.Edges
			elem := false
			if u, isU := recv.(*ssa.UnOp); isU {
				if ia, isIA := u.X.(*ssa.IndexAddr); isIA {
					for _, o := range originsOf(ia.X, 0) {
						if o.Kind == "fieldload" && o.Loc == igDG+".Edges" {
							elem = true
						}
					}
				}
			}
			ok = guard && elem
			detail = fmt.Sprintf("guarded by the edge's own IsReversed: %v; ranges over g.Edges: %v", guard, elem)
			if !ok {
				// collect-then-reverse: the edges come from a helper of the package that returns, in order, exactly the
				// elements of g.Edges whose IsReversed is set; they are then reversed unconditionally
				if u, isU := recv.(*ssa.UnOp); isU {
					if ia, isIA := u.X.(*ssa.IndexAddr); isIA {
						if call, isCall := ia.X.(*ssa.Call); isCall && len(controlDepsNoLoop(s.Block(), un)) == 0 {
							if h := call.Call.StaticCallee(); h != nil && pkgPathOf(h) == pkgPathOf(un) && collectsFlaggedEdges(h) {
								ok = true
							}
						}
					}
				}
			}
		}
		if ok {
			r.holds("unreverse-exactly-flagged", m.Pos(un.Pos()), "UnreverseEdges reverses exactly the edges of g.Edges whose IsReversed is set")
		} else {
			r.violation("unreverse-exactly-flagged", m.Pos(un.Pos()), "UnreverseEdges must reverse exactly the flagged edges", detail)
		}
	}
	// breakEdge / reduceForward
	be := m.anchorBreakEdge()
	rf := m.anchorChainMerge()
	if be == nil || rf == nil {
		r.undecided("anchor:break/merge", "-", "phase3.breakEdge / phase5.reduceForward", "not found")
		return
	}
	beMod := m.effects[be].Mod
	for _, l := range []string{igDG + ".Edges", igDG + ".Nodes", igLayer + ".Nodes", igEdge + ".To", igNode + ".In[]"} {
		short := strings.TrimPrefix(l, "internal/graph.")
		if beMod[l] {
			r.holds("break-writes:"+short, m.Pos(be.Pos()), "breakEdge updates "+short)
		} else {
			r.violation("break-writes:"+short, m.Pos(be.Pos()), "breakEdge must update "+short, "helper node/fragment not fully linked into the graph")
		}
	}
	rfOps := map[string]bool{}
	for _, lo := range listOpsOf(m, rf) {
		rfOps[lo.op+" "+lo.loc] = true
	}
	for _, k := range []string{"remove " + igDG + ".Edges", "remove " + igNode + ".In", "add " + igNode + ".In"} {
		short := strings.ReplaceAll(k, "internal/graph.", "")
		if rfOps[k] {
			r.holds("merge:"+short, m.Pos(rf.Pos()), "reduceForward performs "+short)
		} else {
			r.violation("merge:"+short, m.Pos(rf.Pos()), "reduceForward must perform "+short, "fragments of a long edge would survive in the output or the target would lose its in-edge")
		}
	}
	// the fragment taken out of the graph's edge list is the very fragment that is unlinked from its target
	var remE, remIn []ssa.Value
	for _, lo := range listOpsOf(m, rf) {
		if lo.op == "remove" && lo.loc == igDG+".Edges" {
			remE = append(remE, lo.elem)
		}
		if lo.op == "remove" && lo.loc == igNode+".In" {
			remIn = append(remIn, lo.elem)
		}
	}
	if len(remE) > 0 && len(remIn) > 0 {
		same := true
		for _, a := range remE {
			found := false
			for _, b := range remIn {
				if a == b || (sameSSAExpr(a, b, 0) && noWriteBetween(a, b)) {
					found = true
				}
			}
			same = same && found
		}
		if same {
			r.holds("merge:same-fragment", m.Pos(rf.Pos()), "the edge removed from DGraph.Edges is the fragment that is unlinked from its target's in-list")
		} else {
			r.violation("merge:same-fragment", m.Pos(rf.Pos()), "the edge removed from DGraph.Edges must be the fragment that is unlinked from its target", "a different edge is removed from the graph's edge list: a fragment of the long edge stays in the output and another edge is lost")
		}
	}
	if m.effects[rf].Mod[igEdge+".To"] {
		r.holds("merge:retarget", m.Pos(rf.Pos()), "reduceForward re-targets the head edge")
	} else {
		r.violation("merge:retarget", m.Pos(rf.Pos()), "reduceForward must re-target the head edge", "the merged edge would still end at a helper node")
	}
}

// ---------- EFF-3 ----------

func runEff3(m *Model, r *RuleResult) {
	m.fxInit()
	p4 := m.SSAFunc("internal/phase4", "(Alg).Process")
	p5 := m.SSAFunc("internal/phase5", "(Alg).Process")
	if p4 == nil || p5 == nil {
		r.undecided("anchors", "-", "phase4/phase5 (Alg).Process", "not found")
		return
	}
	// positioners: static callees with signature (*DGraph, Params)
	isPositioner := func(c *ssa.Function) bool {
		if pkgPathOf(c) != pkgPathOf(p4) || len(c.Params) != 2 || c.Signature.Recv() != nil {
			return false
		}
		return namedKey(c.Params[0].Type()) == igDG && namedKey(c.Params[1].Type()) == igPar
	}
	// (resolved through the call graph as well: the dispatch may go through a table of function values)
	type posSite struct {
		ssa.CallInstruction
		callee *ssa.Function
	}
	var posSites []posSite
	seenPos := map[*ssa.Function]bool{}
	eachInstr(p4, func(in ssa.Instruction) {
		ci, ok := in.(ssa.CallInstruction)
		if !ok {
			return
		}
		for _, c := range m.Callees(ci) {
			if isPositioner(c) && !seenPos[c] {
				seenPos[c] = true
				posSites = append(posSites, posSite{ci, c})
			}
		}
	})
	sort.Slice(posSites, func(i, j int) bool { return funcKey(posSites[i].callee) < funcKey(posSites[j].callee) })
	// Y assignment: callee with Node.Y in Mod
	ySites := staticCalls(p4, func(c *ssa.Function) bool {
		e := m.effects[c]
		return e != nil && e.Mod[igNode+".Y"] && !isPositioner(c)
	})
	r.stat("positioners", len(posSites))
	for _, s := range posSites {
		c := s.callee
		e := m.effects[c]
		key := "positioner:" + funcKey(c)
		pos := m.Pos(c.Pos())
		if e.Mod[igNode+".X"] {
			r.holds(key+":writes-X", pos, "positioner assigns Node.X")
		} else {
			r.violation(key+":writes-X", pos, "positioner must assign Node.X", "nodes keep x = 0 and overlap")
		}
		// Layer.H max-reduction of Node.H somewhere in the positioner (or its callees in phase4)
		if hasLayerHMax(m, c, map[*ssa.Function]bool{}) {
			r.holds(key+":layerH-max", pos, "positioner makes Layer.H the maximum of its nodes' heights")
		} else {
			r.violation(key+":layerH-max", pos, "positioner must make Layer.H the maximum node height of the layer", "bands would be stacked with a height smaller than their tallest node (vertical overlap, wrong band spacing)")
		}
		// ... and does so on every path to a normal return (added after seeded change C03g: a "single column" fast path returned before
		// the loop that records the band heights). Exits taken only for trivially small graphs (element count / nil tests) are tolerated.
		if esc := layerHEscape(m, c); esc == "" {
			r.holds(key+":layerH-always", pos, "every path to a normal return of the positioner passes the band-height reduction")
		} else {
			r.violation(key+":layerH-always", pos, "every path to a normal return of the positioner must pass the band-height reduction",
				esc+": on this path Layer.H keeps its old value (0), the Y assignment stacks the bands as if their nodes had no height, and tall nodes overlap the band below")
		}
		// Y assignment reachable after the positioner
		okY := false
		for _, y := range ySites {
			if instrReaches(s.CallInstruction, y) {
				okY = true
			}
		}
		if okY {
			r.holds(key+":then-Y", pos, "the Y assignment runs after the positioner")
		} else {
			r.violation(key+":then-Y", pos, "the Y assignment must run after the positioner", "nodes keep y = 0")
		}
	}
	// routers: callees taking the routable-edge slice
	isRouter := func(c *ssa.Function) bool {
		if pkgPathOf(c) != pkgPathOf(p5) || c.Signature.Recv() != nil {
			return false
		}
		for _, p := range c.Params {
			if sl, ok := p.Type().Underlying().(*types.Slice); ok && namedKey(sl.Elem()) == "internal/phase5.routableEdge" {
				return true
			}
		}
		return false
	}
	rSites := staticCalls(p5, isRouter)
	mergeSites := staticCalls(p5, func(c *ssa.Function) bool {
		if pkgPathOf(c) != pkgPathOf(p5) {
			return false
		}
		res := c.Signature.Results()
		if res.Len() != 1 {
			return false
		}
		sl, ok := res.At(0).Type().Underlying().(*types.Slice)
		return ok && namedKey(sl.Elem()) == "internal/phase5.routableEdge"
	})
	r.stat("routers", len(rSites))
	for _, s := range rSites {
		c := s.Common().StaticCallee()
		key := "router:" + funcKey(c)
		pos := m.Pos(c.Pos())
		if m.effects[c].Mod[igEdge+".Points"] {
			r.holds(key+":writes-Points", pos, "router assigns Edge.Points")
		} else {
			r.violation(key+":writes-Points", pos, "router must assign Edge.Points", "edges come back without a route")
		}
		okM := false
		for _, ms := range mergeSites {
			if instrDominates(ms, s) {
				for _, a := range s.Common().Args {
					if a == ms.Value() {
						okM = true
					}
				}
			}
		}
		if okM {
			r.holds(key+":after-merge", pos, "router receives the result of the long-edge merge")
		} else {
			r.violation(key+":after-merge", pos, "router must receive the result of the long-edge merge", "routes would be computed on edge fragments")
		}
	}
	if len(posSites) < 5 || len(rSites) < 4 {
		r.undecided("sibling-count", m.Pos(p4.Pos()), "5 positioners and 4 routers confirmed by hand", fmt.Sprintf("found %d positioners, %d routers", len(posSites), len(rSites)))
	}
}

// layerHEscape: a path from the entry of positioner f to a normal return that does not pass a band-height site (a store to Layer.H,
// or a call of a module function that performs the reduction); "" if there is none. A site inside a loop is passed when the
// outermost loop around it is reached (zero iterations = no layers).
func layerHEscape(m *Model, f *ssa.Function) string {
	if len(f.Blocks) == 0 {
		return ""
	}
	loops := naturalLoops(f)
	est := map[*ssa.BasicBlock]bool{}
	eachInstr(f, func(in ssa.Instruction) {
		site := false
		switch x := in.(type) {
		case *ssa.Store:
			if fa, ok := x.Addr.(*ssa.FieldAddr); ok {
				_, steps := fieldChain(fa)
				site = locOfSteps(steps) == igLayer+".H"
			}
		case ssa.CallInstruction:
			if c := x.Common().StaticCallee(); c != nil && inModule(c) && len(c.Blocks) > 0 {
				site = hasLayerHMax(m, c, map[*ssa.Function]bool{})
			}
		}
		if !site {
			return
		}
		b := in.Block()
		var outer *loopInfo
		for _, l := range loopsContaining(loops, b) {
			if outer == nil || len(l.Body) > len(outer.Body) {
				outer = l
			}
		}
		if outer != nil {
			est[outer.Head] = true
		} else {
			est[b] = true
		}
	})
	if len(est) == 0 {
		return "" // reported by the layerH-max clause
	}
	type item struct {
		b    *ssa.BasicBlock
		from *item
	}
	seen := map[*ssa.BasicBlock]bool{}
	queue := []*item{{b: f.Blocks[0]}}
	for len(queue) > 0 {
		it := queue[0]
		queue = queue[1:]
		if seen[it.b] || est[it.b] {
			continue
		}
		seen[it.b] = true
		if _, isRet := it.b.Instrs[len(it.b.Instrs)-1].(*ssa.Return); isRet {
			trivial, sawIf := false, false
			var steps []string
			for x := it; x != nil && x.from != nil; x = x.from {
				if iff, ok := x.from.b.Instrs[len(x.from.b.Instrs)-1].(*ssa.If); ok {
					if !sawIf && isCountOrNilTest(iff.Cond, 0) {
						trivial = true // the branch that decides for this return is an element-count / nil test
					}
					sawIf = true
					br := "true"
					if len(x.from.b.Succs) == 2 && x.from.b.Succs[1] == x.b {
						br = "false"
					}
					steps = append([]string{fmt.Sprintf("%s is %s at %s", iff.Cond.String(), br, m.Pos(iff.Cond.Pos()))}, steps...)
				}
			}
			if trivial {
				continue
			}
			return "return at " + m.Pos(it.b.Instrs[len(it.b.Instrs)-1].Pos()) + " reached via [" + strings.Join(steps, "; ") + "]"
		}
		for _, s := range it.b.Succs {
			queue = append(queue, &item{b: s, from: it})
		}
	}
	return ""
}

func hasLayerHMax(m *Model, f *ssa.Function, seen map[*ssa.Function]bool) bool {
	if seen[f] {
		return false
	}
	seen[f] = true
	found := false
	eachInstr(f, func(in ssa.Instruction) {
		switch x := in.(type) {
		case *ssa.Store:
			if fa, ok := x.Addr.(*ssa.FieldAddr); ok {
				base, steps := fieldChain(fa)
				if locOfSteps(steps) != igLayer+".H" {
					return
				}
				// form B: the stored value is a local max-reduction over node heights (accumulated in a variable, possibly in
				// a helper of the same package that returns it)
				if isNodeHMaxReduction(x.Val, 0) {
					found = true
					return
				}
				call, ok := isMinMaxCall(x.Val)
				if !ok {
					return
				}
				if minMaxKind(&call.Call) != "max" {
					return
				}
				hasOld, hasNode := false, false
				for _, a := range call.Call.Args {
					if u, ok := a.(*ssa.UnOp); ok && u.Op == token.MUL {
						if fa2, ok := u.X.(*ssa.FieldAddr); ok {
							b2, s2 := fieldChain(fa2)
							switch locOfSteps(s2) {
							case igLayer + ".H":
								if b2 == base || sameSSAExpr(b2, base, 0) {
									hasOld = true
								}
							case igNode + ".H":
								if isFullLayerScanElem(b2, x.Block()) {
									hasNode = true
								}
							}
						}
					}
				}
				if hasOld && hasNode {
					found = true
				}
			}
		case ssa.CallInstruction:
			if c := x.Common().StaticCallee(); c != nil && inModule(c) && len(c.Blocks) > 0 {
				if hasLayerHMax(m, c, seen) {
					found = true
				}
			}
		case *ssa.MakeClosure:
			if hasLayerHMax(m, x.Fn.(*ssa.Function), seen) {
				found = true
			}
		}
	})
	return found
}

// isFullLayerScanElem: node is the element n = L.Nodes[i] of a loop that scans all of a layer's node list, and block `at` runs in
// every iteration of that loop (no condition inside the iteration): the height of every node of the layer takes part
func isFullLayerScanElem(node ssa.Value, at *ssa.BasicBlock) bool {
	if par, ok := node.(*ssa.Parameter); ok {
		return isRangeFuncElemOfNodeList(par, at)
	}
	u, ok := node.(*ssa.UnOp)
	if !ok || u.Op != token.MUL {
		return false
	}
	ia, ok := u.X.(*ssa.IndexAddr)
	if !ok {
		return false
	}
	// the layer's own list, or the node list a helper was given
	if _, isParam := ia.X.(*ssa.Parameter); !isLoadOf(ia.X, igLayer+".Nodes") && !isParam {
		return false
	}
	loops := naturalLoops(at.Parent())
	for _, l := range loopsContaining(loops, u.Block()) {
		idx, ok := fullScanLoopAny(l, ia.X)
		if !ok || idx != ia.Index || !l.Body[at] {
			continue
		}
		cond := false
		for _, d := range iterationControlDeps(at, loops) {
			if l.Body[d.If.Block()] {
				cond = true
			}
		}
		if !cond {
			return true
		}
	}
	return false
}

// isRangeFuncElemOfNodeList: par is the element parameter of the body of `for _, n := range slices.Backward(L.Nodes)` (or Values /
// All), the body is never left early and block `at` runs in every call of it
func isRangeFuncElemOfNodeList(par *ssa.Parameter, at *ssa.BasicBlock) bool {
	fn := par.Parent()
	if fn == nil || fn.Synthetic != "range-over-func yield" || at.Parent() != fn || fn.Parent() == nil {
		return false
	}
	okRet := true
	eachInstr(fn, func(in ssa.Instruction) {
		if ret, ok := in.(*ssa.Return); ok {
			if len(ret.Results) != 1 || !isConstBool(ret.Results[0], true) {
				okRet = false
			}
		}
	})
	if !okRet {
		return false
	}
	for _, d := range transitiveControlDeps(at) {
		if d.If.Block() != fn.Blocks[0] {
			return false
		}
	}
	found := false
	eachInstr(fn.Parent(), func(in ssa.Instruction) {
		mc, ok := in.(*ssa.MakeClosure)
		if !ok || mc.Fn != ssa.Value(fn) || mc.Referrers() == nil {
			return
		}
		for _, ref := range *mc.Referrers() {
			call, ok := ref.(*ssa.Call)
			if !ok || len(call.Call.Args) != 1 || call.Call.Args[0] != ssa.Value(mc) {
				continue
			}
			it, ok := call.Call.Value.(*ssa.Call)
			if !ok || len(it.Call.Args) != 1 {
				continue
			}
			switch calleeFullName(&it.Call) {
			case "slices.Backward", "slices.Values", "slices.All":
				if _, isParam := it.Call.Args[0].(*ssa.Parameter); isParam || isLoadOf(it.Call.Args[0], igLayer+".Nodes") {
					found = true
				}
			}
		}
	})
	return found
}

// isNodeHMaxReduction: v is a loop-carried maximum of Node.H values: a phi whose edges are constants, itself, or
// max(<the phi>, load Node.H); or the corresponding result of a same-module helper that returns such a phi.
func isNodeHMaxReduction(v ssa.Value, depth int) bool {
	if depth > 3 {
		return false
	}
	switch x := v.(type) {
	case *ssa.Extract:
		call, ok := x.Tuple.(*ssa.Call)
		if !ok {
			return false
		}
		c := call.Call.StaticCallee()
		if c == nil || !inModule(c) || len(c.Blocks) == 0 {
			return false
		}
		n, all := 0, true
		eachInstr(c, func(in ssa.Instruction) {
			if ret, ok := in.(*ssa.Return); ok && x.Index < len(ret.Results) {
				n++
				if !isNodeHMaxReduction(ret.Results[x.Index], depth+1) {
					all = false
				}
			}
		})
		return n > 0 && all
	case *ssa.Call:
		c := x.Call.StaticCallee()
		if c == nil || !inModule(c) || len(c.Blocks) == 0 || c.Signature.Results().Len() != 1 {
			return false
		}
		n, all := 0, true
		eachInstr(c, func(in ssa.Instruction) {
			if ret, ok := in.(*ssa.Return); ok && len(ret.Results) == 1 {
				n++
				if !isNodeHMaxReduction(ret.Results[0], depth+1) {
					all = false
				}
			}
		})
		return n > 0 && all
	case *ssa.Phi:
		hasMax := false
		for _, e := range x.Edges {
			switch y := e.(type) {
			case *ssa.Const:
			case *ssa.Phi:
				if y != x && !isNodeHMaxReduction(y, depth+1) {
					return false
				}
			case *ssa.Call:
				if minMaxKind(&y.Call) != "max" {
					return false
				}
				hasPhi, hasNode := false, false
				for _, a := range y.Call.Args {
					if a == ssa.Value(x) {
						hasPhi = true
					}
					if p2, ok := a.(*ssa.Phi); ok && p2 != x {
						// the inner loop's phi of a nested reduction
						for _, e2 := range p2.Edges {
							if e2 == ssa.Value(x) {
								hasPhi = true
							}
						}
					}
					if u, ok := a.(*ssa.UnOp); ok && u.Op == token.MUL {
						if fa, ok := u.X.(*ssa.FieldAddr); ok {
							nb, st := fieldChain(fa)
							if locOfSteps(st) == igNode+".H" && isFullLayerScanElem(nb, y.Block()) {
								hasNode = true
							}
						}
					}
				}
				if !hasPhi || !hasNode {
					return false
				}
				hasMax = true
			default:
				return false
			}
		}
		return hasMax
	}
	return false
}

// noWriteBetween: two structurally equal loads denote the same value when they sit in one block with no store or call
// between them.
func noWriteBetween(a, b ssa.Value) bool {
	ia, ok1 := a.(ssa.Instruction)
	ib, ok2 := b.(ssa.Instruction)
	if !ok1 || !ok2 || ia.Block() != ib.Block() {
		return false
	}
	in := false
	for _, x := range ia.Block().Instrs {
		if x == ia || x == ib {
			if in {
				return true
			}
			in = true
			continue
		}
		if in {
			switch x.(type) {
			case *ssa.Store, *ssa.MapUpdate, ssa.CallInstruction:
				return false
			}
		}
	}
	return false
}

// controlDepsNoLoop: the control dependences of b other than loop-header tests of its function.
func controlDepsNoLoop(b *ssa.BasicBlock, f *ssa.Function) []ctrlDep {
	loops := naturalLoops(f)
	var out []ctrlDep
	for _, d := range controlDeps(b) {
		head := false
		for _, l := range loops {
			if l.Head == d.If.Block() {
				head = true
			}
		}
		if !head {
			out = append(out, d)
		}
	}
	return out
}

// collectsFlaggedEdges: h(g) returns a slice built only by append(acc, e) with e an element of g.Edges, each append being
// control-dependent (within the iteration) on exactly e.IsReversed being true.
func collectsFlaggedEdges(h *ssa.Function) bool {
	if len(h.Params) != 1 || namedKey(h.Params[0].Type()) != igDG {
		return false
	}
	loops := naturalLoops(h)
	n, good := 0, true
	eachInstr(h, func(in ssa.Instruction) {
		call, ok := in.(*ssa.Call)
		if !ok {
			return
		}
		b, ok := call.Call.Value.(*ssa.Builtin)
		if !ok || b.Name() != "append" || len(call.Call.Args) != 2 {
			return
		}
		// the appended element: varargs slice of a one-element array holding e
		var elem ssa.Value
		if sl, ok := call.Call.Args[1].(*ssa.Slice); ok {
			if arr, ok := sl.X.(*ssa.Alloc); ok {
				for _, ref := range *arr.Referrers() {
					if ia, ok := ref.(*ssa.IndexAddr); ok {
						for _, r2 := range *ia.Referrers() {
							if st, ok := r2.(*ssa.Store); ok && st.Addr == ssa.Value(ia) {
								elem = st.Val
							}
						}
					}
				}
			}
		}
		if elem == nil {
			good = false
			return
		}
		n++
		// element of g.Edges
		isElem := false
		if u, ok := elem.(*ssa.UnOp); ok && u.Op == token.MUL {
			if ia, ok := u.X.(*ssa.IndexAddr); ok {
				for _, o := range originsOf(ia.X, 0) {
					if o.Kind == "fieldload" && o.Loc == igDG+".Edges" {
						isElem = true
					}
				}
			}
		}
		flagged, other := false, false
		for _, d := range iterationControlDeps(in.Block(), loops) {
			if u, ok := d.If.Cond.(*ssa.UnOp); ok && u.Op == token.MUL {
				if fa, ok := u.X.(*ssa.FieldAddr); ok {
					base, steps := fieldChain(fa)
					if base == elem && locOfSteps(steps) == igEdge+".IsReversed" && d.Branch == 0 {
						flagged = true
						continue
					}
				}
			}
			other = true
		}
		if !isElem || !flagged || other {
			good = false
		}
	})
	return n > 0 && good
}
