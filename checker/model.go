package main

// Engine E0: shared program model. Loads /repo's current working tree with go/packages,
// type-checks it, builds go/ssa (InstantiateGenerics) and a VTA call graph seeded by CHA.
// Nothing from the repository is executed.

import (
	"fmt"
	"go/ast"
	"go/token"
	"go/types"
	"os"
	"path/filepath"
	"sort"
	"strings"

	"golang.org/x/tools/go/callgraph"
	"golang.org/x/tools/go/callgraph/cha"
	"golang.org/x/tools/go/callgraph/vta"
	"golang.org/x/tools/go/packages"
	"golang.org/x/tools/go/ssa"
	"golang.org/x/tools/go/ssa/ssautil"
)

const modPath = "github.com/nulab/autog"

const posctlPrefix = "zz_verif_posctl"

type Model struct {
	RepoDir     string
	Tags        string
	Fset        *token.FileSet
	Pkgs        []*packages.Package // module packages, sorted by path
	ByPath      map[string]*packages.Package
	Prog        *ssa.Program
	OverlaySrc  map[string][]byte
	Normalised  int // > 0: this is the normalised view, with that many accessor calls inlined
	SSAPkg      map[string]*ssa.Package
	Funcs       []*ssa.Function // every module function with a body (incl. literals, generic instances, wrappers), sorted
	Src         []*ssa.Function // Funcs without synthetic wrappers/thunks (one per source function, literal or instance)
	CG          *callgraph.Graph
	CHA         *callgraph.Graph
	Reach       map[*ssa.Function]bool // reachable from the root set through VTA
	layoutReach map[*ssa.Function]bool
	Roots       []*ssa.Function

	// typed AST indexes
	Decl     map[*types.Func]*ast.FuncDecl
	DeclPkg  map[*types.Func]*packages.Package
	FileOf   map[*ast.File]*packages.Package
	Overlays []string        // overlay (positive control) file names
	Prod     map[string]bool // module packages in the import closure of the public packages autog and autog/graph

	effects map[*ssa.Function]*Effects // lazily computed
	fx      *fxState
}

type LoadOpts struct {
	RepoDir string
	Tags    string
	Overlay map[string][]byte
	UseCHA  bool // reachability over CHA instead of VTA (thorough)
}

func pkgPathOf(f *ssa.Function) string {
	for f != nil {
		if f.Pkg != nil {
			return f.Pkg.Pkg.Path()
		}
		if o := f.Origin(); o != nil && o != f {
			if o.Pkg != nil {
				return o.Pkg.Pkg.Path()
			}
		}
		if f.Object() != nil && f.Object().Pkg() != nil {
			return f.Object().Pkg().Path()
		}
		f = f.Parent()
	}
	return ""
}

func inModulePath(p string) bool {
	return p == modPath || strings.HasPrefix(p, modPath+"/")
}

func inModule(f *ssa.Function) bool { return inModulePath(pkgPathOf(f)) }

// shortPkg turns github.com/nulab/autog/internal/phase1 into internal/phase1, and the root into "autog".
func shortPkg(p string) string {
	if p == modPath {
		return "autog"
	}
	return strings.TrimPrefix(p, modPath+"/")
}

// funcKey is the stable, line-independent name of a function used in obligation keys.
func funcKey(f *ssa.Function) string {
	if f == nil {
		return "<nil>"
	}
	s := f.RelString(nil)
	s = strings.ReplaceAll(s, modPath+"/", "")
	s = strings.ReplaceAll(s, modPath, "autog")
	return s
}

func Load(o LoadOpts) (*Model, error) {
	cfgCache = map[*ssa.Function]*cfgInfo{} // per-program cache: do not keep a previous program alive
	env := append(os.Environ(), "GOFLAGS=-mod=mod", "GOPROXY=off", "GOSUMDB=off", "GOTOOLCHAIN=local", "GOWORK=off")
	cfg := &packages.Config{
		Mode:    packages.LoadAllSyntax,
		Dir:     o.RepoDir,
		Tests:   false,
		Env:     env,
		Overlay: o.Overlay,
	}
	if o.Tags != "" {
		cfg.BuildFlags = []string{"-tags=" + o.Tags}
	}
	pkgs, err := packages.Load(cfg, "./...")
	if err != nil {
		return nil, fmt.Errorf("packages.Load: %w", err)
	}
	var errs []string
	packages.Visit(pkgs, nil, func(p *packages.Package) {
		for _, e := range p.Errors {
			errs = append(errs, e.Error())
		}
	})
	if len(errs) > 0 {
		sort.Strings(errs)
		if len(errs) > 10 {
			errs = errs[:10]
		}
		return nil, fmt.Errorf("type-check/load errors: %s", strings.Join(errs, "; "))
	}
	m := &Model{RepoDir: o.RepoDir, Tags: o.Tags, ByPath: map[string]*packages.Package{}, SSAPkg: map[string]*ssa.Package{},
		Decl: map[*types.Func]*ast.FuncDecl{}, DeclPkg: map[*types.Func]*packages.Package{}, FileOf: map[*ast.File]*packages.Package{}}
	for name := range o.Overlay {
		m.Overlays = append(m.Overlays, name)
	}
	m.OverlaySrc = o.Overlay
	sort.Strings(m.Overlays)
	for _, p := range pkgs {
		if inModulePath(p.PkgPath) {
			m.Pkgs = append(m.Pkgs, p)
			m.ByPath[p.PkgPath] = p
			m.Fset = p.Fset
		}
	}
	sort.Slice(m.Pkgs, func(i, j int) bool { return m.Pkgs[i].PkgPath < m.Pkgs[j].PkgPath })
	if len(m.Pkgs) == 0 {
		return nil, fmt.Errorf("no module packages loaded from %s", o.RepoDir)
	}
	for _, p := range m.Pkgs {
		for _, f := range p.Syntax {
			m.FileOf[f] = p
			for _, d := range f.Decls {
				if fd, ok := d.(*ast.FuncDecl); ok {
					if fn, ok := p.TypesInfo.Defs[fd.Name].(*types.Func); ok {
						m.Decl[fn] = fd
						m.DeclPkg[fn] = p
					}
				}
			}
		}
	}
	m.Prod = map[string]bool{}
	var addProd func(p *packages.Package)
	addProd = func(p *packages.Package) {
		if p == nil || m.Prod[p.PkgPath] || !inModulePath(p.PkgPath) {
			return
		}
		m.Prod[p.PkgPath] = true
		for _, ip := range p.Imports {
			addProd(ip)
		}
	}
	addProd(m.ByPath[modPath])
	addProd(m.ByPath[modPath+"/graph"])
	prog, spkgs := ssautil.AllPackages(pkgs, ssa.InstantiateGenerics)
	prog.Build()
	m.Prog = prog
	for _, sp := range spkgs {
		if sp != nil && inModulePath(sp.Pkg.Path()) {
			m.SSAPkg[sp.Pkg.Path()] = sp
		}
	}
	all := ssautil.AllFunctions(prog)
	// AllFunctions only visits methods of exported named types; add the methods of every named module type
	// (and whatever they reference) so that unexported, currently unreferenced methods are analysed too.
	var addFn func(fn *ssa.Function)
	addFn = func(fn *ssa.Function) {
		if fn == nil || all[fn] {
			return
		}
		all[fn] = true
		for _, b := range fn.Blocks {
			for _, in := range b.Instrs {
				for _, op := range in.Operands(nil) {
					if g, ok := (*op).(*ssa.Function); ok {
						addFn(g)
					}
				}
			}
		}
	}
	for _, sp := range spkgs {
		if sp == nil || !inModulePath(sp.Pkg.Path()) {
			continue
		}
		for _, mem := range sp.Members {
			t, ok := mem.(*ssa.Type)
			if !ok {
				continue
			}
			named, ok := t.Type().(*types.Named)
			if !ok || named.TypeParams() != nil || types.IsInterface(named) {
				continue
			}
			for _, T := range []types.Type{named, types.NewPointer(named)} {
				mset := prog.MethodSets.MethodSet(T)
				for i := 0; i < mset.Len(); i++ {
					addFn(prog.MethodValue(mset.At(i)))
				}
			}
		}
	}
	for f := range all {
		if inModule(f) && f.Blocks != nil {
			m.Funcs = append(m.Funcs, f)
		}
	}
	sort.Slice(m.Funcs, func(i, j int) bool {
		a, b := m.Funcs[i], m.Funcs[j]
		if a.String() != b.String() {
			return a.String() < b.String()
		}
		return a.Pos() < b.Pos()
	})
	for _, f := range m.Funcs {
		if !isWrapper(f) {
			m.Src = append(m.Src, f)
		}
	}
	m.CHA = cha.CallGraph(prog)
	m.CG = vta.CallGraph(all, m.CHA)
	// root set: Layout + every function and literal of packages autog and autog/graph
	// (option closures are invoked through a parameter and not resolved by VTA).
	for _, f := range m.Funcs {
		pp := pkgPathOf(f)
		if pp == modPath || pp == modPath+"/graph" {
			if m.IsPosctl(f.Pos()) {
				continue
			}
			m.Roots = append(m.Roots, f)
		}
	}
	g := m.CG
	if o.UseCHA {
		g = m.CHA
	}
	m.Reach = reachFrom(g, m.Roots)
	return m, nil
}

func isWrapper(f *ssa.Function) bool {
	s := f.Synthetic
	return strings.HasPrefix(s, "wrapper") || strings.HasPrefix(s, "bound method wrapper") || strings.HasPrefix(s, "thunk")
}

func isPkgInit(f *ssa.Function) bool {
	return f.Synthetic == "package initializer"
}

func reachFrom(g *callgraph.Graph, roots []*ssa.Function) map[*ssa.Function]bool {
	reach := map[*ssa.Function]bool{}
	var stack []*callgraph.Node
	for _, r := range roots {
		if n := g.Nodes[r]; n != nil {
			stack = append(stack, n)
		} else {
			reach[r] = true
		}
	}
	for len(stack) > 0 {
		n := stack[len(stack)-1]
		stack = stack[:len(stack)-1]
		if reach[n.Func] {
			continue
		}
		reach[n.Func] = true
		for _, e := range n.Out {
			if !reach[e.Callee.Func] {
				stack = append(stack, e.Callee)
			}
		}
	}
	return reach
}

func (m *Model) Pos(p token.Pos) string {
	if !p.IsValid() {
		return "-"
	}
	pos := m.Fset.Position(p)
	rel, err := filepath.Rel(m.RepoDir, pos.Filename)
	if err != nil {
		rel = pos.Filename
	}
	return fmt.Sprintf("%s:%d", rel, pos.Line)
}

func (m *Model) File(p token.Pos) string {
	if !p.IsValid() {
		return ""
	}
	pos := m.Fset.Position(p)
	rel, err := filepath.Rel(m.RepoDir, pos.Filename)
	if err != nil {
		rel = pos.Filename
	}
	return rel
}

// IsPosctl reports whether the position lies in a positive-control overlay file.
func (m *Model) IsPosctl(p token.Pos) bool {
	if !p.IsValid() {
		return false
	}
	return strings.HasPrefix(filepath.Base(m.Fset.Position(p).Filename), posctlPrefix)
}

func (m *Model) FuncIsPosctl(f *ssa.Function) bool {
	for f != nil {
		if f.Pos().IsValid() {
			return m.IsPosctl(f.Pos())
		}
		if f.Syntax() != nil {
			return m.IsPosctl(f.Syntax().Pos())
		}
		f = f.Parent()
	}
	return false
}

// Pkg returns the module package with the given short path ("internal/phase1", "autog", "graph").
func (m *Model) Pkg(short string) *packages.Package {
	if short == "autog" || short == "" {
		return m.ByPath[modPath]
	}
	return m.ByPath[modPath+"/"+short]
}

// SSAFunc finds a package-level function or method by short package and name ("(*Edge).Reverse" / "Layout").
func (m *Model) SSAFunc(shortpkg, name string) *ssa.Function {
	want := name
	for _, f := range m.Funcs {
		if f.Parent() != nil || shortPkg(pkgPathOf(f)) != shortpkg {
			continue
		}
		if fnShortName(f) == want {
			return f
		}
	}
	return nil
}

// fnShortName: "Layout", "(*Edge).Reverse", "(Alg).Process", "hashmap[K,V].Keys" (generic origin, unlikely needed)
func fnShortName(f *ssa.Function) string {
	if f.Signature.Recv() != nil {
		rt := f.Signature.Recv().Type()
		ptr := ""
		if p, ok := rt.(*types.Pointer); ok {
			rt = p.Elem()
			ptr = "*"
		}
		n := rt.String()
		if nt, ok := rt.(*types.Named); ok {
			n = nt.Obj().Name()
		}
		return "(" + ptr + n + ")." + f.Name()
	}
	return f.Name()
}

// TypesFunc resolves the *types.Func of a package-level function or method.
func (m *Model) TypesFunc(shortpkg, recv, name string) *types.Func {
	p := m.Pkg(shortpkg)
	if p == nil {
		return nil
	}
	if recv == "" {
		if fn, ok := p.Types.Scope().Lookup(name).(*types.Func); ok {
			return fn
		}
		return nil
	}
	tn, ok := p.Types.Scope().Lookup(recv).(*types.TypeName)
	if !ok {
		return nil
	}
	obj, _, _ := types.LookupFieldOrMethod(types.NewPointer(tn.Type()), true, p.Types, name)
	fn, _ := obj.(*types.Func)
	return fn
}

// EnclosingFuncDecl returns the FuncDecl containing pos in package p.
func (m *Model) EnclosingFuncDecl(p *packages.Package, pos token.Pos) *ast.FuncDecl {
	for _, f := range p.Syntax {
		if f.Pos() <= pos && pos <= f.End() {
			for _, d := range f.Decls {
				if fd, ok := d.(*ast.FuncDecl); ok && fd.Pos() <= pos && pos <= fd.End() {
					return fd
				}
			}
		}
	}
	return nil
}

// astFuncKey names a FuncDecl in a package: internal/phase1.execGreedy or internal/graph.(*Edge).Reverse
func astFuncKey(p *packages.Package, fd *ast.FuncDecl) string {
	name := fd.Name.Name
	if fd.Recv != nil && len(fd.Recv.List) > 0 {
		t := fd.Recv.List[0].Type
		ptr := ""
		if s, ok := t.(*ast.StarExpr); ok {
			t = s.X
			ptr = "*"
		}
		switch x := t.(type) {
		case *ast.IndexExpr:
			t = x.X
		case *ast.IndexListExpr:
			t = x.X
		}
		name = "(" + ptr + types.ExprString(t) + ")." + name
	}
	return shortPkg(p.PkgPath) + "." + name
}

// callees of a call instruction according to the VTA call graph (module or not).
func (m *Model) Callees(site ssa.CallInstruction) []*ssa.Function {
	if c := site.Common().StaticCallee(); c != nil {
		return []*ssa.Function{c}
	}
	n := m.CG.Nodes[site.Parent()]
	if n == nil {
		return nil
	}
	var out []*ssa.Function
	seen := map[*ssa.Function]bool{}
	for _, e := range n.Out {
		if e.Site == site && !seen[e.Callee.Func] {
			seen[e.Callee.Func] = true
			out = append(out, e.Callee.Func)
		}
	}
	sort.Slice(out, func(i, j int) bool { return out[i].String() < out[j].String() })
	return out
}

// LayoutReach: the functions that can run during autog.Layout: everything reachable from the functions of the root package
// (Layout itself and the option constructors, whose closures Layout invokes) through resolved calls (VTA, with CHA for
// interface dispatch such as Source.Populate), plus the closures created by reachable functions.
func (m *Model) LayoutReach() map[*ssa.Function]bool {
	if m.layoutReach != nil {
		return m.layoutReach
	}
	reach := map[*ssa.Function]bool{}
	var stack []*ssa.Function
	for _, f := range m.Funcs {
		if pkgPathOf(f) == modPath && !m.FuncIsPosctl(f) {
			stack = append(stack, f)
		}
	}
	for len(stack) > 0 {
		f := stack[len(stack)-1]
		stack = stack[:len(stack)-1]
		if reach[f] || f == nil {
			continue
		}
		reach[f] = true
		for _, b := range f.Blocks {
			for _, in := range b.Instrs {
				switch x := in.(type) {
				case *ssa.MakeClosure:
					if fn, ok := x.Fn.(*ssa.Function); ok {
						stack = append(stack, fn)
					}
				case ssa.CallInstruction:
					stack = append(stack, m.Callees(x)...)
					if m.CHA != nil && x.Common().IsInvoke() {
						if n := m.CHA.Nodes[f]; n != nil {
							for _, e := range n.Out {
								if e.Site == x {
									stack = append(stack, e.Callee.Func)
								}
							}
						}
					}
				}
				// function values that are passed around (method values, named functions used as callbacks)
				for _, op := range in.Operands(nil) {
					if op != nil && *op != nil {
						if fn, ok := (*op).(*ssa.Function); ok {
							stack = append(stack, fn)
						}
					}
				}
			}
		}
	}
	m.layoutReach = reach
	return reach
}
