package main

// Engine E4: symbolic affine executor over the typed AST.
//
// Abstract values: lin (canonical linear form over atoms), apt/aseq (array / slice literals of values), asym (opaque symbol:
// node references, booleans, calls). It executes assignments, op-assignments, if (path split), range over a slice or over
// slices.Backward(slice), three-clause for (body executed once with symbolic loop-carried variables, giving difference
// equations and ordered store effects), append, composite literals, and inlines same-module callees to depth 3.

import (
	"fmt"
	"go/ast"
	"go/constant"
	"go/token"
	"go/types"
	"sort"
	"strings"

	"golang.org/x/tools/go/ssa"
)

type lin struct {
	c map[string]float64
	k float64
}

func linConst(k float64) lin { return lin{map[string]float64{}, k} }
func linAtom(a string) lin   { return lin{map[string]float64{a: 1}, 0} }
func (a lin) add(b lin, s float64) lin {
	r := lin{map[string]float64{}, a.k + s*b.k}
	for k, v := range a.c {
		r.c[k] = v
	}
	for k, v := range b.c {
		r.c[k] += s * v
		if r.c[k] == 0 {
			delete(r.c, k)
		}
	}
	return r
}
func (a lin) scale(s float64) lin {
	r := lin{map[string]float64{}, a.k * s}
	for k, v := range a.c {
		if v*s != 0 {
			r.c[k] = v * s
		}
	}
	return r
}
func (a lin) isConst() bool { return len(a.c) == 0 }
func (a lin) equal(b lin) bool {
	d := a.add(b, -1)
	return len(d.c) == 0 && d.k == 0
}
func (a lin) String() string {
	var ks []string
	for k := range a.c {
		ks = append(ks, k)
	}
	sort.Strings(ks)
	var parts []string
	for _, k := range ks {
		switch a.c[k] {
		case 1:
			parts = append(parts, k)
		case -1:
			parts = append(parts, "-"+k)
		default:
			parts = append(parts, fmt.Sprintf("%g*%s", a.c[k], k))
		}
	}
	if a.k != 0 || len(parts) == 0 {
		parts = append(parts, fmt.Sprintf("%g", a.k))
	}
	return strings.Join(parts, " + ")
}

type aseq struct{ e []aval } // array or slice literal

// aacc is a local slice variable that a loop appends to: its elements are the emission list st.emits[key]
type aacc struct{ key string }
type asym struct{ s string }
type aval interface{}

func avalString(v aval) string {
	switch x := v.(type) {
	case lin:
		return x.String()
	case aseq:
		var p []string
		for _, e := range x.e {
			p = append(p, avalString(e))
		}
		return "[" + strings.Join(p, " ; ") + "]"
	case asym:
		return x.s
	case aacc:
		return "acc:" + x.key
	case nil:
		return "?"
	}
	return fmt.Sprint(v)
}

type affStore struct {
	target string
	val    aval
	pos    token.Pos
}

type affItem struct {
	val  aval     // a point (aseq of 2 lins) or any value
	star *affLoop // or: the emissions of a loop body, repeated
}

type affCond struct {
	op   string // < <= > >= == !=
	l, r aval
	neg  bool
}

type affState struct {
	env     map[types.Object]aval
	heap    map[string]aval
	stores  []affStore
	emits   map[string][]affItem // per target (canonical "X.Points")
	cond    []string
	sc      []affCond // structured comparisons among the path conditions
	stopped string    // "", return, continue, break
	ret     aval
	hasRet  bool
}

func (s *affState) clone() *affState {
	n := &affState{env: map[types.Object]aval{}, heap: map[string]aval{}, emits: map[string][]affItem{}, stopped: s.stopped, ret: s.ret, hasRet: s.hasRet}
	for k, v := range s.env {
		if a, ok := v.(aseq); ok {
			v = aseq{append([]aval{}, a.e...)}
		}
		n.env[k] = v
	}
	for k, v := range s.heap {
		n.heap[k] = v
	}
	n.stores = append(n.stores, s.stores...)
	for k, v := range s.emits {
		n.emits[k] = append([]affItem{}, v...)
	}
	n.cond = append(n.cond, s.cond...)
	n.sc = append(n.sc, s.sc...)
	return n
}

type affCarried struct {
	name  string
	init  aval   // value before the loop
	posts []aval // value at the end of the body, per body path
}

type affLoop struct {
	id       int
	pos      token.Pos
	kind     string // range | for
	over     string // canonical iterated expression (range) or condition (for)
	backward bool
	valVar   string
	keyVar   string
	forInit  string
	forCond  string
	forPost  string
	initLin  *lin // for-loop: initial value of the counter
	lastLin  *lin // for-loop: last value of the counter (bound-1 for <, bound for <=)
	// iteration descriptor: the loop visits the elements of `container`; `elem` is the canonical reference of the visited
	// element (the value variable, or container[key]); dir +1 ascending, -1 descending, 0 unknown; full = all indices
	container string
	elem      string
	dir       int
	full      bool
	carried   map[string]*affCarried
	paths     []*affState
	parent    *affLoop
	fn        string
}

type affExec struct {
	namedResults []types.Object
	m            *Model
	info         *types.Info
	depth        int
	loops        *[]*affLoop
	curLoop      *affLoop
	fnName       string
	undec        *[]string // shapes the executor could not follow
	rootPkg      string
	escaped      map[types.Object]bool // local variables whose address is taken: never tracked
	stack        map[*types.Func]bool
	idx          map[string]affIdx // registry of indexed references: "r.ns[i + -1]" -> (r.ns, i-1)
}

type affIdx struct {
	container string
	idx       lin
}

func escapedVars(info *types.Info, fd *ast.FuncDecl) map[types.Object]bool {
	out := map[types.Object]bool{}
	ast.Inspect(fd.Body, func(n ast.Node) bool {
		if u, ok := n.(*ast.UnaryExpr); ok && u.Op == token.AND {
			if id, ok := u.X.(*ast.Ident); ok {
				if o := info.Uses[id]; o != nil {
					out[o] = true
				}
			}
		}
		return true
	})
	return out
}

// inlinable: same package as the function under analysis, plus the small accessors of internal/graph and internal/num.
func (x *affExec) inlinable(fn *types.Func) bool {
	if fn.Pkg() == nil {
		return false
	}
	p := fn.Pkg().Path()
	return p == x.rootPkg || p == modPath+"/internal/graph" || p == modPath+"/internal/num"
}

func (x *affExec) note(n ast.Node, msg string) {
	*x.undec = append(*x.undec, fmt.Sprintf("%s: %s", x.m.Pos(n.Pos()), msg))
}

func (x *affExec) canon(e ast.Expr, st *affState) string {
	switch v := x.eval(e, st).(type) {
	case asym:
		return v.s
	case lin:
		return v.String()
	case aseq:
		return avalString(v)
	}
	return types.ExprString(e)
}

func isNumeric(t types.Type) bool {
	if t == nil {
		return false
	}
	b, ok := t.Underlying().(*types.Basic)
	return ok && b.Info()&types.IsNumeric != 0
}

func (x *affExec) eval(e ast.Expr, st *affState) aval {
	if tv, ok := x.info.Types[e]; ok && tv.Value != nil {
		if tv.Value.Kind() == constant.Int || tv.Value.Kind() == constant.Float {
			f, _ := constant.Float64Val(constant.ToFloat(tv.Value))
			return linConst(f)
		}
		return asym{tv.Value.String()}
	}
	switch v := e.(type) {
	case *ast.ParenExpr:
		return x.eval(v.X, st)
	case *ast.Ident:
		o := x.info.Uses[v]
		if o == nil {
			o = x.info.Defs[v]
		}
		if val, ok := st.env[o]; ok {
			return val
		}
		if isNumeric(x.info.TypeOf(v)) {
			return linAtom(v.Name)
		}
		return asym{v.Name}
	case *ast.SelectorExpr:
		if sel, ok := x.info.Selections[v]; ok && sel.Kind() == types.FieldVal {
			base := x.canon(v.X, st)
			key := base + "." + v.Sel.Name
			if hv, ok := st.heap[key]; ok {
				return hv
			}
			if isNumeric(x.info.TypeOf(v)) {
				return linAtom(key)
			}
			return asym{key}
		}
		return asym{types.ExprString(v)}
	case *ast.StarExpr:
		key := "*" + x.canon(v.X, st)
		if hv, ok := st.heap[key]; ok {
			return hv
		}
		if isNumeric(x.info.TypeOf(v)) {
			return linAtom(key)
		}
		return asym{key}
	case *ast.IndexExpr:
		b := x.eval(v.X, st)
		if a, ok := b.(aseq); ok {
			if i, ok := x.eval(v.Index, st).(lin); ok && i.isConst() && int(i.k) >= 0 && int(i.k) < len(a.e) {
				return a.e[int(i.k)]
			}
		}
		idx := x.canon(v.Index, st)
		key := avalString(b) + "[" + idx + "]"
		if il, ok := x.eval(v.Index, st).(lin); ok && x.idx != nil {
			x.idx[key] = affIdx{avalString(b), il}
		}
		if hv, ok := st.heap[key]; ok {
			return hv
		}
		if isNumeric(x.info.TypeOf(v)) {
			return linAtom(key)
		}
		return asym{key}
	case *ast.SliceExpr:
		if v.Low == nil && v.High == nil {
			// a[:] of a followed array / sequence value is the sequence itself
			if sq, ok := x.eval(v.X, st).(aseq); ok {
				return sq
			}
		}
		lo, hi := "", ""
		if v.Low != nil {
			lo = x.canon(v.Low, st)
		}
		if v.High != nil {
			hi = x.canon(v.High, st)
		}
		return asym{x.canon(v.X, st) + "[" + lo + ":" + hi + "]"}
	case *ast.UnaryExpr:
		switch v.Op {
		case token.SUB:
			if l, ok := x.eval(v.X, st).(lin); ok {
				return l.scale(-1)
			}
		case token.NOT:
			return asym{"!" + x.canon(v.X, st)}
		case token.AND:
			if id, ok := v.X.(*ast.Ident); ok {
				// the variable escapes: from now on it is opaque
				if o := x.info.Uses[id]; o != nil {
					delete(st.env, o)
				}
				return asym{"&" + id.Name}
			}
			switch ast.Unparen(v.X).(type) {
			case *ast.IndexExpr, *ast.SelectorExpr:
				// &a[i] / &s.f: selectors through the pointer name the element itself (automatic dereference)
				return asym{x.canon(v.X, st)}
			}
			return asym{"&" + x.canon(v.X, st)}
		}
		return x.eval(v.X, st)
	case *ast.BinaryExpr:
		lv, rv := x.eval(v.X, st), x.eval(v.Y, st)
		l, lok := lv.(lin)
		r, rok := rv.(lin)
		if lok && rok {
			switch v.Op {
			case token.ADD:
				return l.add(r, 1)
			case token.SUB:
				return l.add(r, -1)
			case token.MUL:
				if r.isConst() {
					return l.scale(r.k)
				}
				if l.isConst() {
					return r.scale(l.k)
				}
			case token.QUO:
				if r.isConst() && r.k != 0 {
					if isFloatType(x.info.TypeOf(v)) {
						return l.scale(1 / r.k)
					}
				}
			}
		}
		s := "(" + avalString(lv) + " " + v.Op.String() + " " + avalString(rv) + ")"
		if isNumeric(x.info.TypeOf(v)) {
			return linAtom(s)
		}
		return asym{s}
	case *ast.CompositeLit:
		if t := x.info.TypeOf(v); t != nil {
			if _, isMap := t.Underlying().(*types.Map); isMap {
				return nil
			}
			if _, isStruct := t.Underlying().(*types.Struct); isStruct {
				keyed := len(v.Elts) == 0
				for _, el := range v.Elts {
					if _, ok := el.(*ast.KeyValueExpr); ok {
						keyed = true
					}
				}
				if keyed {
					return asym{"lit:" + types.ExprString(v.Type)}
				}
			}
		}
		var out aseq
		for _, el := range v.Elts {
			if kv, ok := el.(*ast.KeyValueExpr); ok {
				el = kv.Value
			}
			out.e = append(out.e, x.eval(el, st))
		}
		return out
	case *ast.CallExpr:
		return x.call(v, st)
	}
	return asym{types.ExprString(e)}
}

func (x *affExec) call(c *ast.CallExpr, st *affState) aval {
	if tv, ok := x.info.Types[c.Fun]; ok && tv.IsType() && len(c.Args) == 1 {
		// conversion
		a := x.eval(c.Args[0], st)
		if l, ok := a.(lin); ok {
			from := x.info.TypeOf(c.Args[0])
			if isFloatType(tv.Type) == isFloatType(from) || l.isConst() {
				return l
			}
			return linAtom(types.ExprString(c.Fun) + "(" + l.String() + ")")
		}
		return a
	}
	obj := calleeObj(x.info, c)
	if b, ok := obj.(*types.Builtin); ok {
		switch b.Name() {
		case "max", "min":
			var as []string
			for _, a := range c.Args {
				as = append(as, avalString(x.eval(a, st)))
			}
			sort.Strings(as)
			return linAtom(b.Name() + "(" + strings.Join(as, ", ") + ")")
		case "len":
			return linAtom("len(" + x.canon(c.Args[0], st) + ")")
		case "make":
			// make([]T, 0[, n]) is the empty list
			if len(c.Args) >= 2 {
				if _, isSlice := x.info.TypeOf(c.Args[0]).Underlying().(*types.Slice); isSlice {
					if l, ok := x.eval(c.Args[1], st).(lin); ok && l.isConst() && l.k == 0 {
						return aseq{}
					}
				}
			}
		case "append":
			base := x.eval(c.Args[0], st)
			if sy, ok := base.(asym); ok && sy.s == "nil" {
				base = aseq{}
			}
			if a, ok := base.(aseq); ok && !c.Ellipsis.IsValid() {
				out := aseq{append([]aval{}, a.e...)}
				for _, arg := range c.Args[1:] {
					out.e = append(out.e, x.eval(arg, st))
				}
				return out
			}
			var as []string
			for _, a := range c.Args {
				as = append(as, x.canon(a, st))
			}
			return asym{"append(" + strings.Join(as, ", ") + ")"}
		}
	}
	if fn, ok := obj.(*types.Func); ok {
		if or := fn.Origin(); or != nil {
			fn = or
		}
		// a two-argument helper of the module that returns the larger / smaller of its parameters is max / min
		if len(c.Args) == 2 && x.m.Decl[fn] != nil {
			if mk := ssaMinMaxHelper(x.m.Prog.FuncValue(fn)); mk != "" {
				as := []string{avalString(x.eval(c.Args[0], st)), avalString(x.eval(c.Args[1], st))}
				sort.Strings(as)
				return linAtom(mk + "(" + strings.Join(as, ", ") + ")")
			}
		}
		fd := x.m.Decl[fn]
		if fd != nil && fd.Body != nil && x.depth < 3 && !x.stack[fn] && x.inlinable(fn) {
			p := x.m.DeclPkg[fn]
			sub := &affExec{m: x.m, info: p.TypesInfo, depth: x.depth + 1, loops: x.loops, curLoop: x.curLoop, fnName: x.fnName, undec: x.undec, stack: map[*types.Func]bool{fn: true}, idx: x.idx, rootPkg: x.rootPkg, escaped: escapedVars(p.TypesInfo, fd)}
			for k := range x.stack {
				sub.stack[k] = true
			}
			ns := &affState{env: map[types.Object]aval{}, heap: st.heap, emits: map[string][]affItem{}}
			i := 0
			okBind := true
			if fd.Recv != nil && len(fd.Recv.List) == 1 {
				if se, isSel := c.Fun.(*ast.SelectorExpr); isSel && len(fd.Recv.List[0].Names) == 1 {
					ns.env[sub.info.Defs[fd.Recv.List[0].Names[0]]] = x.eval(se.X, st)
				}
			}
			argv := x.callArgs(c, st, fd.Type.Params.NumFields())
			for _, fl := range fd.Type.Params.List {
				for _, nm := range fl.Names {
					if i >= len(argv) {
						okBind = false
						break
					}
					ns.env[sub.info.Defs[nm]] = argv[i]
					i++
				}
			}
			sub.bindNamedResults(fd, ns)
			if okBind {
				outs := sub.block(fd.Body.List, []*affState{ns})
				var rets []aval
				neff := 0
				for _, o := range outs {
					if len(o.stores) > 0 || len(o.emits) > 0 {
						neff++
					}
				}
				if neff > 1 {
					x.note(c, "callee "+fn.Name()+" has several effectful paths and is called inside an expression")
				}
				for _, o := range outs {
					// effects of the callee on the caller's state
					st.stores = append(st.stores, o.stores...)
					for k, v := range o.emits {
						st.emits[k] = append(st.emits[k], v...)
					}
					if o.hasRet {
						rets = append(rets, o.ret)
					}
				}
				if len(rets) == 1 {
					return rets[0]
				}
				if len(rets) > 1 {
					same := true
					for _, r := range rets[1:] {
						if avalString(r) != avalString(rets[0]) {
							same = false
						}
					}
					if same {
						return rets[0]
					}
					// several distinct results: keep them as an opaque choice
					var ss []string
					for _, r := range rets {
						ss = append(ss, avalString(r))
					}
					return asym{"choice{" + strings.Join(ss, " | ") + "}"}
				}
				if fd.Type.Results == nil {
					return nil
				}
			}
		}
	}
	var as []string
	for _, a := range c.Args {
		as = append(as, x.canon(a, st))
	}
	name := types.ExprString(c.Fun)
	if se, ok := c.Fun.(*ast.SelectorExpr); ok {
		if _, isSel := x.info.Selections[se]; isSel {
			name = x.canon(se.X, st) + "." + se.Sel.Name
		}
	}
	s := name + "(" + strings.Join(as, ", ") + ")"
	if isNumeric(x.info.TypeOf(c)) {
		return linAtom(s)
	}
	return asym{s}
}

// callArgs evaluates the arguments of a call; f(g()) with a multi-value g is spread into its components.
func (x *affExec) callArgs(c *ast.CallExpr, st *affState, want int) []aval {
	if len(c.Args) == 1 && want > 1 {
		if sq, ok := x.eval(c.Args[0], st).(aseq); ok && len(sq.e) == want {
			return append([]aval{}, sq.e...)
		}
	}
	out := make([]aval, len(c.Args))
	for i, a := range c.Args {
		out[i] = x.eval(a, st)
	}
	return out
}

// bindNamedResults gives the named results of an inlined function their zero values.
func (x *affExec) bindNamedResults(fd *ast.FuncDecl, ns *affState) {
	x.namedResults = nil
	if fd.Type.Results == nil {
		return
	}
	for _, fl := range fd.Type.Results.List {
		for _, nm := range fl.Names {
			o := x.info.Defs[nm]
			if o == nil {
				continue
			}
			x.namedResults = append(x.namedResults, o)
			if x.escaped[o] {
				continue
			}
			if isNumeric(o.Type()) {
				ns.env[o] = linConst(0)
			} else {
				ns.env[o] = asym{"nil"}
			}
		}
	}
}

// inlineStmtCall inlines a call used as a statement and forks the caller's state per callee path.
func (x *affExec) inlineStmtCall(c *ast.CallExpr, st *affState) ([]*affState, bool) {
	fn, ok := calleeObj(x.info, c).(*types.Func)
	if !ok {
		return nil, false
	}
	if or := fn.Origin(); or != nil {
		fn = or
	}
	fd := x.m.Decl[fn]
	if fd == nil || fd.Body == nil || x.depth >= 3 || x.stack[fn] || !x.inlinable(fn) {
		return nil, false
	}
	if len(c.Args) == 2 && ssaMinMaxHelper(x.m.Prog.FuncValue(fn)) != "" {
		return nil, false // evaluated as max / min
	}
	p := x.m.DeclPkg[fn]
	sub := &affExec{m: x.m, info: p.TypesInfo, depth: x.depth + 1, loops: x.loops, curLoop: x.curLoop, fnName: x.fnName, undec: x.undec, stack: map[*types.Func]bool{fn: true}, idx: x.idx, rootPkg: x.rootPkg, escaped: escapedVars(p.TypesInfo, fd)}
	for k := range x.stack {
		sub.stack[k] = true
	}
	ns := &affState{env: map[types.Object]aval{}, heap: map[string]aval{}, emits: map[string][]affItem{}}
	for k, v := range st.heap {
		ns.heap[k] = v
	}
	if fd.Recv != nil && len(fd.Recv.List) == 1 {
		if se, isSel := c.Fun.(*ast.SelectorExpr); isSel && len(fd.Recv.List[0].Names) == 1 {
			ns.env[sub.info.Defs[fd.Recv.List[0].Names[0]]] = x.eval(se.X, st)
		}
	}
	i := 0
	argv := x.callArgs(c, st, fd.Type.Params.NumFields())
	for _, fl := range fd.Type.Params.List {
		for _, nm := range fl.Names {
			if i >= len(argv) {
				return nil, false
			}
			ns.env[sub.info.Defs[nm]] = argv[i]
			i++
		}
	}
	sub.bindNamedResults(fd, ns)
	outs := sub.block(fd.Body.List, []*affState{ns})
	var res []*affState
	for _, o := range outs {
		n := st.clone()
		n.cond = append(n.cond, o.cond...)
		n.stores = append(n.stores, o.stores...)
		for k, v := range o.heap {
			n.heap[k] = v
		}
		for k, v := range o.emits {
			// whole-value assignment inside the callee replaces, append extends: the callee state started empty, so extend
			n.emits[k] = append(n.emits[k], v...)
		}
		n.ret, n.hasRet = o.ret, o.hasRet
		res = append(res, n)
	}
	return res, true
}

func (x *affExec) lvalueKey(lhs ast.Expr, st *affState) string {
	switch l := lhs.(type) {
	case *ast.SelectorExpr:
		return x.canon(l.X, st) + "." + l.Sel.Name
	case *ast.StarExpr:
		return "*" + x.canon(l.X, st)
	case *ast.IndexExpr:
		return avalString(x.eval(l.X, st)) + "[" + x.canon(l.Index, st) + "]"
	case *ast.ParenExpr:
		return x.lvalueKey(l.X, st)
	}
	return types.ExprString(lhs)
}

func (x *affExec) assignTo(lhs ast.Expr, v aval, st *affState, pos token.Pos) {
	switch l := lhs.(type) {
	case *ast.Ident:
		if l.Name == "_" {
			return
		}
		o := x.info.Defs[l]
		if o == nil {
			o = x.info.Uses[l]
		}
		if v == nil || x.escaped[o] {
			delete(st.env, o)
			return
		}
		st.env[o] = v
	case *ast.IndexExpr:
		if id, ok := l.X.(*ast.Ident); ok {
			o := x.info.Uses[id]
			if a, ok := st.env[o].(aseq); ok {
				if i, ok := x.eval(l.Index, st).(lin); ok && i.isConst() && int(i.k) < len(a.e) {
					a.e[int(i.k)] = v
					return
				}
			}
		}
		key := x.lvalueKey(lhs, st)
		st.heap[key] = v
		st.stores = append(st.stores, affStore{key, v, pos})
	case *ast.SelectorExpr:
		key := x.lvalueKey(lhs, st)
		if l.Sel.Name == "Points" {
			// X.Points = <whole value>: the emission list is replaced
			if a, ok := v.(aseq); ok {
				var items []affItem
				for _, e := range a.e {
					items = append(items, affItem{val: e})
				}
				st.emits[key] = items
			} else if sy, ok := v.(asym); ok && sy.s == "nil" {
				st.emits[key] = []affItem{}
			} else if ac, ok := v.(aacc); ok {
				if items, known := st.emits[ac.key]; known {
					st.emits[key] = append([]affItem{}, items...)
				} else {
					st.emits[key] = []affItem{{val: v}}
				}
			} else {
				st.emits[key] = []affItem{{val: v}}
			}
			st.stores = append(st.stores, affStore{key, v, pos})
			return
		}
		st.heap[key] = v
		st.stores = append(st.stores, affStore{key, v, pos})
	case *ast.StarExpr:
		key := x.lvalueKey(lhs, st)
		st.heap[key] = v
		st.stores = append(st.stores, affStore{key, v, pos})
	}
}

func (x *affExec) block(list []ast.Stmt, in []*affState) []*affState {
	cur := in
	for _, s := range list {
		var next []*affState
		for _, st := range cur {
			if st.stopped != "" {
				next = append(next, st)
				continue
			}
			next = append(next, x.stmt(s, st)...)
		}
		cur = next
		if len(cur) > 64 {
			x.note(s, "path explosion (>64 paths)")
			cur = cur[:64]
		}
	}
	return cur
}

// assigned lvalues inside a loop body: identifiers and field/deref/index cells
func (x *affExec) assignedIn(body *ast.BlockStmt) (idents map[types.Object]string, cells []ast.Expr) {
	idents = map[types.Object]string{}
	note := func(l ast.Expr) {
		switch v := l.(type) {
		case *ast.Ident:
			if o := x.info.Uses[v]; o != nil {
				idents[o] = v.Name
			}
		case *ast.SelectorExpr, *ast.StarExpr, *ast.IndexExpr:
			cells = append(cells, v)
		}
	}
	ast.Inspect(body, func(n ast.Node) bool {
		switch s := n.(type) {
		case *ast.AssignStmt:
			if s.Tok != token.DEFINE {
				for _, l := range s.Lhs {
					note(l)
				}
			}
		case *ast.IncDecStmt:
			note(s.X)
		case *ast.FuncLit:
			return false
		}
		return true
	})
	return
}

// onlyAppendedTo: every assignment to o inside body has the form o = append(o, ...)
func (x *affExec) onlyAppendedTo(body *ast.BlockStmt, o types.Object) bool {
	ok := true
	ast.Inspect(body, func(n ast.Node) bool {
		switch s := n.(type) {
		case *ast.FuncLit:
			return false
		case *ast.IncDecStmt:
			if id, isId := s.X.(*ast.Ident); isId && x.info.Uses[id] == o {
				ok = false
			}
		case *ast.AssignStmt:
			for i, l := range s.Lhs {
				id, isId := l.(*ast.Ident)
				if !isId || x.info.Uses[id] != o {
					continue
				}
				good := false
				if s.Tok == token.ASSIGN && len(s.Lhs) == len(s.Rhs) {
					if c, isC := s.Rhs[i].(*ast.CallExpr); isC && len(c.Args) >= 1 {
						if b, isB := calleeObj(x.info, c).(*types.Builtin); isB && b.Name() == "append" {
							if a0, isId := c.Args[0].(*ast.Ident); isId && x.info.Uses[a0] == o {
								good = true
							}
						}
					}
				}
				if !good {
					ok = false
				}
			}
		}
		return true
	})
	return ok
}

func rootIdentOf(e ast.Expr) *ast.Ident {
	for {
		switch v := e.(type) {
		case *ast.Ident:
			return v
		case *ast.SelectorExpr:
			e = v.X
		case *ast.StarExpr:
			e = v.X
		case *ast.IndexExpr:
			e = v.X
		case *ast.ParenExpr:
			e = v.X
		default:
			return nil
		}
	}
}

func (x *affExec) stmt(s ast.Stmt, st *affState) []*affState {
	switch v := s.(type) {
	case *ast.EmptyStmt:
		return []*affState{st}
	case *ast.AssignStmt:
		// x := f(...) / x, y := f(...) with f a followed function of several paths: one successor state per path of f
		if len(v.Rhs) == 1 && (v.Tok == token.DEFINE || v.Tok == token.ASSIGN) {
			if call, ok := ast.Unparen(v.Rhs[0]).(*ast.CallExpr); ok {
				if _, isB := calleeObj(x.info, call).(*types.Builtin); !isB {
					if outs, ok := x.inlineStmtCall(call, st); ok && len(outs) > 1 {
						allRet := true
						for _, o := range outs {
							if !o.hasRet {
								allRet = false
							}
						}
						if allRet {
							for _, o := range outs {
								rv := o.ret
								o.ret, o.hasRet = st.ret, st.hasRet
								if len(v.Lhs) == 1 {
									x.assignTo(v.Lhs[0], rv, o, v.Pos())
								} else if sq, ok := rv.(aseq); ok && len(sq.e) == len(v.Lhs) {
									for i, l := range v.Lhs {
										x.assignTo(l, sq.e[i], o, v.Pos())
									}
								} else {
									for i, l := range v.Lhs {
										x.assignTo(l, asym{fmt.Sprintf("%s#%d", avalString(rv), i)}, o, v.Pos())
									}
								}
							}
							return outs
						}
					}
				}
			}
		}
		if len(v.Lhs) == len(v.Rhs) {
			vals := make([]aval, len(v.Rhs))
			skip := make([]bool, len(v.Rhs))
			for i := range v.Rhs {
				// x = slices.Grow(x, n) / slices.Clip(x): capacity only, the elements stay
				if c, ok := v.Rhs[i].(*ast.CallExpr); ok && len(c.Args) >= 1 && v.Tok == token.ASSIGN {
					switch funcFullName(calleeObj(x.info, c)) {
					case "slices.Grow", "slices.Clip":
						if sameExpr(v.Lhs[i], c.Args[0]) {
							skip[i] = true
							continue
						}
					}
				}
				// append to X.Points
				if c, ok := v.Rhs[i].(*ast.CallExpr); ok {
					if b, ok := calleeObj(x.info, c).(*types.Builtin); ok && b.Name() == "append" {
						key := ""
						if se, ok := c.Args[0].(*ast.SelectorExpr); ok && se.Sel.Name == "Points" && sameExpr(v.Lhs[i], c.Args[0]) {
							key = x.lvalueKey(se, st)
						} else if id, ok := c.Args[0].(*ast.Ident); ok && sameExpr(v.Lhs[i], c.Args[0]) {
							if ac, ok := st.env[x.info.Uses[id]].(aacc); ok {
								key = ac.key
							}
						}
						if key != "" {
							for _, a := range c.Args[1:] {
								val := x.eval(a, st)
								if c.Ellipsis.IsValid() {
									if sq, ok := val.(aseq); ok {
										for _, e := range sq.e {
											st.emits[key] = append(st.emits[key], affItem{val: e})
										}
										continue
									}
									if ac, ok := val.(aacc); ok {
										if items, known := st.emits[ac.key]; known && ac.key != key {
											st.emits[key] = append(st.emits[key], items...)
											continue
										}
									}
								}
								st.emits[key] = append(st.emits[key], affItem{val: val})
							}
							if !strings.HasPrefix(key, "$") {
								st.stores = append(st.stores, affStore{key, asym{"append"}, v.Pos()})
							}
							skip[i] = true
							continue
						}
					}
				}
				rv := x.eval(v.Rhs[i], st)
				switch v.Tok {
				case token.ADD_ASSIGN, token.SUB_ASSIGN:
					old, ok1 := x.eval(v.Lhs[i], st).(lin)
					r, ok2 := rv.(lin)
					if ok1 && ok2 {
						sg := 1.0
						if v.Tok == token.SUB_ASSIGN {
							sg = -1
						}
						rv = old.add(r, sg)
					} else {
						rv = asym{"(" + x.canon(v.Lhs[i], st) + " " + v.Tok.String() + " " + avalString(rv) + ")"}
					}
				case token.MUL_ASSIGN, token.QUO_ASSIGN:
					old, ok1 := x.eval(v.Lhs[i], st).(lin)
					r, ok2 := rv.(lin)
					if ok1 && ok2 && r.isConst() && r.k != 0 {
						if v.Tok == token.MUL_ASSIGN {
							rv = old.scale(r.k)
						} else {
							rv = old.scale(1 / r.k)
						}
					} else {
						rv = linAtom("(" + x.canon(v.Lhs[i], st) + " " + v.Tok.String() + " " + avalString(rv) + ")")
					}
				}
				vals[i] = rv
			}
			for i := range v.Lhs {
				if !skip[i] {
					x.assignTo(v.Lhs[i], vals[i], st, v.Pos())
				}
			}
		} else if len(v.Rhs) == 1 {
			rv := x.eval(v.Rhs[0], st)
			if sq, ok := rv.(aseq); ok && len(sq.e) == len(v.Lhs) {
				// a multi-value result that the executor followed (inlined callee)
				for i, l := range v.Lhs {
					x.assignTo(l, sq.e[i], st, v.Pos())
				}
				return []*affState{st}
			}
			for i, l := range v.Lhs {
				x.assignTo(l, asym{fmt.Sprintf("%s#%d", avalString(rv), i)}, st, v.Pos())
			}
		}
		return []*affState{st}
	case *ast.IncDecStmt:
		if old, ok := x.eval(v.X, st).(lin); ok {
			d := 1.0
			if v.Tok == token.DEC {
				d = -1
			}
			x.assignTo(v.X, old.add(linConst(d), 1), st, v.Pos())
		}
		return []*affState{st}
	case *ast.DeclStmt:
		if gd, ok := v.Decl.(*ast.GenDecl); ok {
			for _, sp := range gd.Specs {
				if vs, ok := sp.(*ast.ValueSpec); ok {
					for i, n := range vs.Names {
						if i < len(vs.Values) {
							if val := x.eval(vs.Values[i], st); val != nil && !x.escaped[x.info.Defs[n]] {
								st.env[x.info.Defs[n]] = val
							}
						} else if isNumeric(x.info.Defs[n].Type()) && !x.escaped[x.info.Defs[n]] {
							st.env[x.info.Defs[n]] = linConst(0)
						}
					}
				}
			}
		}
		return []*affState{st}
	case *ast.ReturnStmt:
		if len(v.Results) == 0 && len(x.namedResults) > 0 {
			// naked return: the current values of the named results
			if len(x.namedResults) == 1 {
				st.ret = st.env[x.namedResults[0]]
			} else {
				var sq aseq
				for _, o := range x.namedResults {
					sq.e = append(sq.e, st.env[o])
				}
				st.ret = sq
			}
		}
		if len(v.Results) == 1 {
			st.ret = x.eval(v.Results[0], st)
		} else if len(v.Results) > 1 {
			var sq aseq
			for _, r := range v.Results {
				sq.e = append(sq.e, x.eval(r, st))
			}
			st.ret = sq
		}
		st.hasRet = true
		st.stopped = "return"
		return []*affState{st}
	case *ast.BranchStmt:
		switch v.Tok {
		case token.CONTINUE:
			st.stopped = "continue"
		case token.BREAK:
			st.stopped = "break"
		default:
			x.note(v, "goto")
			st.stopped = "break"
		}
		return []*affState{st}
	case *ast.ExprStmt:
		if c, ok := v.X.(*ast.CallExpr); ok {
			if b, ok := calleeObj(x.info, c).(*types.Builtin); ok && b.Name() == "panic" {
				return nil // panicking paths are dropped
			}
			ret0, has0 := st.ret, st.hasRet
			if outs, ok := x.inlineStmtCall(c, st); ok {
				for _, o := range outs {
					o.ret, o.hasRet = ret0, has0
				}
				return outs
			}
			x.eval(c, st)
		}
		return []*affState{st}
	case *ast.IfStmt:
		if v.Init != nil {
			outs := x.stmt(v.Init, st)
			if len(outs) != 1 {
				return outs
			}
			st = outs[0]
		}
		c := x.canon(v.Cond, st)
		var sc *affCond
		if be, ok := v.Cond.(*ast.BinaryExpr); ok {
			switch be.Op {
			case token.LSS, token.LEQ, token.GTR, token.GEQ, token.EQL, token.NEQ:
				sc = &affCond{op: be.Op.String(), l: x.eval(be.X, st), r: x.eval(be.Y, st)}
			}
		}
		a := st.clone()
		a.cond = append(a.cond, c)
		if sc != nil {
			a.sc = append(a.sc, *sc)
		}
		outA := x.block(v.Body.List, []*affState{a})
		b := st
		b.cond = append(b.cond, "!("+c+")")
		if sc != nil {
			n := *sc
			n.neg = true
			b.sc = append(b.sc, n)
		}
		var outB []*affState
		if v.Else != nil {
			if eb, ok := v.Else.(*ast.BlockStmt); ok {
				outB = x.block(eb.List, []*affState{b})
			} else {
				outB = x.stmt(v.Else, b)
			}
		} else {
			outB = []*affState{b}
		}
		return append(outA, outB...)
	case *ast.SwitchStmt:
		// switch { case cond: ... } and switch tag { case v: ... } as an if-chain
		var outs []*affState
		rest := st
		if v.Init != nil {
			x.stmt(v.Init, rest)
		}
		tag := ""
		if v.Tag != nil {
			tag = x.canon(v.Tag, rest)
		}
		var deflt *ast.CaseClause
		for _, cc := range v.Body.List {
			cl := cc.(*ast.CaseClause)
			if cl.List == nil {
				deflt = cl
				continue
			}
			var cs []string
			for _, e := range cl.List {
				if tag != "" {
					cs = append(cs, tag+" == "+x.canon(e, rest))
				} else {
					cs = append(cs, x.canon(e, rest))
				}
			}
			c := strings.Join(cs, " || ")
			// structured form of the clause's comparisons (the clause itself only when it has a single expression; the
			// fall-through always carries the negation of every expression)
			var scs []affCond
			for _, e := range cl.List {
				if v.Tag != nil {
					scs = append(scs, affCond{op: "==", l: x.eval(v.Tag, rest), r: x.eval(e, rest)})
				} else if be, ok := ast.Unparen(e).(*ast.BinaryExpr); ok {
					switch be.Op {
					case token.LSS, token.LEQ, token.GTR, token.GEQ, token.EQL, token.NEQ:
						scs = append(scs, affCond{op: be.Op.String(), l: x.eval(be.X, rest), r: x.eval(be.Y, rest)})
					}
				}
			}
			a := rest.clone()
			a.cond = append(a.cond, c)
			if len(cl.List) == 1 && len(scs) == 1 {
				a.sc = append(a.sc, scs[0])
			}
			for _, n := range scs {
				n.neg = true
				rest.sc = append(rest.sc, n)
			}
			for _, o := range x.block(cl.Body, []*affState{a}) {
				if o.stopped == "break" {
					o.stopped = ""
				}
				outs = append(outs, o)
			}
			rest.cond = append(rest.cond, "!("+c+")")
		}
		if deflt != nil {
			for _, o := range x.block(deflt.Body, []*affState{rest}) {
				if o.stopped == "break" {
					o.stopped = ""
				}
				outs = append(outs, o)
			}
		} else {
			outs = append(outs, rest)
		}
		return outs
	case *ast.RangeStmt, *ast.ForStmt:
		return x.loop(s, st)
	case *ast.BlockStmt:
		return x.block(v.List, []*affState{st})
	case *ast.LabeledStmt:
		return x.stmt(v.Stmt, st)
	case *ast.DeferStmt:
		return []*affState{st}
	}
	x.note(s, fmt.Sprintf("unsupported statement %T", s))
	return []*affState{st}
}

func (x *affExec) loop(s ast.Stmt, st *affState) []*affState {
	ls := &affLoop{id: len(*x.loops), pos: s.Pos(), carried: map[string]*affCarried{}, parent: x.curLoop, fn: x.fnName}
	*x.loops = append(*x.loops, ls)
	inner := st.clone()
	inner.emits = map[string][]affItem{}
	inner.stores = nil
	inner.cond = nil
	inner.sc = nil
	var body *ast.BlockStmt
	if r, ok := s.(*ast.RangeStmt); ok {
		ls.kind = "range"
		body = r.Body
		rx := r.X
		if c, ok := rx.(*ast.CallExpr); ok {
			switch funcFullName(calleeObj(x.info, c)) {
			case "slices.Backward":
				ls.backward = true
				rx = c.Args[0]
			case "slices.Values", "slices.All":
				rx = c.Args[0]
			}
		}
		ls.over = x.canon(rx, st)
		if id, ok := r.Value.(*ast.Ident); ok && r.Value != nil && id.Name != "_" {
			ls.valVar = id.Name
			inner.env[x.info.Defs[id]] = asym{id.Name}
		}
		if id, ok := r.Key.(*ast.Ident); ok && r.Key != nil && id.Name != "_" {
			ls.keyVar = id.Name
			if r.Value == nil && !isNumeric(x.info.TypeOf(id)) {
				// range-over-func / single-variable range over elements
				inner.env[x.info.Defs[id]] = asym{id.Name}
			} else {
				inner.env[x.info.Defs[id]] = linAtom(id.Name)
			}
		}
	} else {
		f := s.(*ast.ForStmt)
		ls.kind = "for"
		body = f.Body
		if f.Cond != nil {
			ls.forCond = types.ExprString(f.Cond)
		}
		if f.Post != nil {
			switch p := f.Post.(type) {
			case *ast.IncDecStmt:
				ls.forPost = types.ExprString(p.X) + p.Tok.String()
			case *ast.AssignStmt:
				ls.forPost = types.ExprString(p.Lhs[0]) + " " + p.Tok.String() + " " + types.ExprString(p.Rhs[0])
			}
		}
		if f.Init != nil {
			if as, ok := f.Init.(*ast.AssignStmt); ok && len(as.Lhs) >= 1 {
				if id, ok := as.Lhs[0].(*ast.Ident); ok {
					ls.keyVar = id.Name
					ls.forInit = x.canon(as.Rhs[0], st)
					if o := x.info.Defs[id]; o != nil {
						inner.env[o] = linAtom(id.Name)
					}
				}
			}
		}
		if f.Cond != nil {
			ls.over = x.canon(f.Cond, inner)
			if be, ok := f.Cond.(*ast.BinaryExpr); ok && ls.keyVar != "" {
				if id, ok := be.X.(*ast.Ident); ok && id.Name == ls.keyVar {
					if b, ok := x.eval(be.Y, st).(lin); ok {
						switch be.Op {
						case token.LSS:
							l := b.add(linConst(1), -1)
							ls.lastLin = &l
						case token.LEQ:
							ls.lastLin = &b
						}
					}
				}
			}
		}
		if as, ok := f.Init.(*ast.AssignStmt); ok && f.Init != nil && len(as.Rhs) >= 1 {
			if il, ok := x.eval(as.Rhs[0], st).(lin); ok {
				ls.initLin = &il
			}
		}
	}
	// iteration descriptor
	lenAtomOf := func(l *lin) (string, float64, float64) {
		if l == nil {
			return "", 0, 0
		}
		for a, c := range l.c {
			if strings.HasPrefix(a, "len(") && strings.HasSuffix(a, ")") && len(l.c) == 1 {
				return a[4 : len(a)-1], c, l.k
			}
		}
		return "", 0, l.k
	}
	if ls.kind == "range" {
		if r, ok := s.(*ast.RangeStmt); ok && ls.keyVar != "" {
			// index of the first and of the last iteration of a range over a slice / array / integer
			z := linConst(0)
			var last *lin
			switch t := x.info.TypeOf(r.X); u := t.Underlying().(type) {
			case *types.Slice, *types.Array:
				_ = u
				if ls.over != "" && r.Value != nil || isNumeric(x.info.TypeOf(r.Key)) {
					l := linAtom("len("+ls.over+")").add(linConst(1), -1)
					last = &l
				}
			case *types.Basic:
				if u.Info()&types.IsInteger != 0 {
					if b, ok := x.eval(r.X, st).(lin); ok {
						l := b.add(linConst(1), -1)
						last = &l
					}
				}
			}
			if last != nil {
				if ls.backward {
					ls.initLin, ls.lastLin = last, &z
				} else {
					ls.initLin, ls.lastLin = &z, last
				}
			}
		}
		ls.container = ls.over
		ls.full = true
		ls.dir = 1
		if ls.backward {
			ls.dir = -1
		}
		switch {
		case ls.valVar != "":
			ls.elem = ls.valVar
		case ls.keyVar != "":
			ls.elem = ls.over + "[" + ls.keyVar + "]"
		}
	} else if ls.keyVar != "" && ls.initLin != nil {
		if f, ok := s.(*ast.ForStmt); ok && f.Cond != nil {
			if be, ok := f.Cond.(*ast.BinaryExpr); ok {
				if id, ok := be.X.(*ast.Ident); ok && id.Name == ls.keyVar {
					bound, _ := x.eval(be.Y, st).(lin)
					switch {
					case ls.forPost == ls.keyVar+"++" && ls.initLin.isConst() && ls.initLin.k == 0 && ls.lastLin != nil:
						if c, co, k := lenAtomOf(ls.lastLin); c != "" && co == 1 && k == -1 {
							ls.container, ls.dir, ls.full = c, 1, true
						}
					case ls.forPost == ls.keyVar+"--" && be.Op == token.GEQ && bound.isConst() && bound.k == 0:
						if c, co, k := lenAtomOf(ls.initLin); c != "" && co == 1 && k == -1 {
							ls.container, ls.dir, ls.full = c, -1, true
							z := linConst(0)
							ls.lastLin = &z
						}
					}
				}
			}
		}
		if ls.container != "" {
			ls.elem = ls.container + "[" + ls.keyVar + "]"
		}
	}
	idents, cells := x.assignedIn(body)
	// local slices that the body only appends to become emission targets; other non-numeric locals assigned in the body are
	// unknown after the loop
	var havoc []types.Object
	for o, name := range idents {
		if o == nil || isNumeric(o.Type()) {
			continue
		}
		cur, defined := st.env[o]
		if !defined {
			continue
		}
		if _, isAcc := cur.(aacc); isAcc {
			continue
		}
		if _, isSlice := o.Type().Underlying().(*types.Slice); isSlice && x.onlyAppendedTo(body, o) {
			var items []affItem
			okInit := false
			switch c := cur.(type) {
			case aseq:
				okInit = true
				for _, e := range c.e {
					items = append(items, affItem{val: e})
				}
			case asym:
				okInit = c.s == "nil"
			}
			if okInit {
				key := fmt.Sprintf("$%s@%d", name, o.Pos())
				if items == nil {
					items = []affItem{}
				}
				st.emits[key] = items
				st.env[o] = aacc{key}
				inner.env[o] = aacc{key}
				continue
			}
		}
		havoc = append(havoc, o)
	}
	pre := map[types.Object]string{}
	for o, name := range idents {
		if cur, defined := st.env[o]; defined {
			if _, isLin := cur.(lin); isLin || isNumeric(o.Type()) {
				if o == nil {
					continue
				}
				if ls.kind == "for" && name == ls.keyVar {
					continue
				}
				inner.env[o] = linAtom("c:" + name)
				pre[o] = name
				ls.carried[name] = &affCarried{name: name, init: cur}
			}
		}
	}
	// heap cells written in the body whose root variable is defined outside the loop: loop-carried cells
	preCells := map[string]bool{}
	for _, c := range cells {
		rid := rootIdentOf(c)
		if rid == nil {
			continue
		}
		o := x.info.Uses[rid]
		if o == nil {
			continue
		}
		if _, outside := st.env[o]; !outside {
			// parameter or variable not tracked in env: outside as well unless it is this loop's own variable
			if rid.Name == ls.valVar || rid.Name == ls.keyVar {
				continue
			}
			if o.Pos() >= body.Pos() && o.Pos() <= body.End() {
				continue
			}
		}
		if !isNumeric(x.info.TypeOf(c)) {
			continue
		}
		// index cells keyed by the loop variable are per-element, not carried
		if ix, ok := c.(*ast.IndexExpr); ok {
			if id := rootIdentOf(ix.Index); id != nil && (id.Name == ls.valVar || id.Name == ls.keyVar) {
				continue
			}
			// m[xs[i]]: the key is a function of the loop variable
			perElem := false
			ast.Inspect(ix.Index, func(n ast.Node) bool {
				if id, ok := n.(*ast.Ident); ok && id.Name != "_" && (id.Name == ls.valVar || id.Name == ls.keyVar) {
					perElem = true
				}
				return true
			})
			if perElem {
				continue
			}
		}
		key := x.lvalueKey(c, inner)
		if preCells[key] {
			continue
		}
		preCells[key] = true
		var init aval = linAtom(key)
		if hv, ok := st.heap[key]; ok {
			init = hv
		}
		inner.heap[key] = linAtom("c:" + key)
		ls.carried[key] = &affCarried{name: key, init: init}
	}
	sub := *x
	sub.curLoop = ls
	outs := sub.block(body.List, []*affState{inner})
	for _, o := range outs {
		if o.stopped == "continue" {
			o.stopped = ""
		}
		for obj, name := range pre {
			ls.carried[name].posts = append(ls.carried[name].posts, o.env[obj])
		}
		for key := range preCells {
			ls.carried[key].posts = append(ls.carried[key].posts, o.heap[key])
		}
	}
	ls.paths = outs
	// after the loop: carried values become opaque finals
	for obj, name := range pre {
		st.env[obj] = linAtom(fmt.Sprintf("final(%s)@L%d", name, ls.id))
	}
	for key := range preCells {
		st.heap[key] = linAtom(fmt.Sprintf("final(%s)@L%d", key, ls.id))
	}
	for _, o := range havoc {
		st.env[o] = asym{fmt.Sprintf("final(%s)@L%d", o.Name(), ls.id)}
	}
	// emissions of the body become a star item per target
	targets := map[string]bool{}
	for _, o := range outs {
		for k := range o.emits {
			targets[k] = true
		}
	}
	for k := range targets {
		st.emits[k] = append(st.emits[k], affItem{star: ls})
	}
	// stores of the body are visible through the loop summary; early returns inside loops end the function on that path (ignored)
	return []*affState{st}
}

type affResult struct {
	paths []*affState
	loops []*affLoop
	undec []string
	fd    *ast.FuncDecl
	idx   map[string]affIdx
}

// affRun symbolically executes the named top-level function.
func affRun(m *Model, shortpkg, recv, name string) *affResult {
	fn := m.TypesFunc(shortpkg, recv, name)
	if fn == nil {
		return nil
	}
	fd := m.Decl[fn]
	if fd == nil || fd.Body == nil {
		return nil
	}
	p := m.DeclPkg[fn]
	res := &affResult{fd: fd}
	res.idx = map[string]affIdx{}
	x := &affExec{m: m, info: p.TypesInfo, loops: &res.loops, undec: &res.undec, fnName: shortpkg + "." + name, stack: map[*types.Func]bool{fn: true}, idx: res.idx, rootPkg: fn.Pkg().Path(), escaped: escapedVars(p.TypesInfo, fd)}
	st := &affState{env: map[types.Object]aval{}, heap: map[string]aval{}, emits: map[string][]affItem{}}
	res.paths = x.block(fd.Body.List, []*affState{st})
	return res
}

// ---- helpers for rules ----

// decomposeNode splits a linear form whose atoms are all fields of one base object: returns base and field coefficients.
func decomposeNode(l lin) (base string, coef map[string]float64, ok bool) {
	coef = map[string]float64{}
	for a, c := range l.c {
		i := strings.LastIndex(a, ".")
		if i < 0 {
			return "", nil, false
		}
		b, f := a[:i], a[i+1:]
		if base == "" {
			base = b
		} else if base != b {
			return "", nil, false
		}
		coef[f] = c
	}
	return base, coef, true
}

func coefEq(got map[string]float64, want map[string]float64) bool {
	if len(got) != len(want) {
		return false
	}
	for k, v := range want {
		if got[k] != v {
			return false
		}
	}
	return true
}

func pointOf(v aval) (x, y lin, ok bool) {
	sq, isSeq := v.(aseq)
	if !isSeq || len(sq.e) != 2 {
		return lin{}, lin{}, false
	}
	lx, ok1 := sq.e[0].(lin)
	ly, ok2 := sq.e[1].(lin)
	return lx, ly, ok1 && ok2
}

// dispatchCallee finds the function an algorithm constant dispatches to: in (Alg).Process of the package, the first
// same-package function called in the case clause of `case <constName>:`. Robust to renaming the exec* functions
// (the constants are public API through autolayout_options_algs.go).
func dispatchCallee(m *Model, shortpkg, constName, fallback string) string {
	fn := m.TypesFunc(shortpkg, "Alg", "Process")
	if fn == nil || m.Decl[fn] == nil {
		return fallback
	}
	p := m.DeclPkg[fn]
	info := p.TypesInfo
	found := ""
	ast.Inspect(m.Decl[fn].Body, func(n ast.Node) bool {
		cc, ok := n.(*ast.CaseClause)
		if !ok || found != "" {
			return true
		}
		match := false
		for _, e := range cc.List {
			if id, ok := e.(*ast.Ident); ok && id.Name == constName {
				match = true
			}
		}
		if !match {
			return true
		}
		for _, st := range cc.Body {
			ast.Inspect(st, func(n2 ast.Node) bool {
				if call, ok := n2.(*ast.CallExpr); ok && found == "" {
					if f, ok := calleeObj(info, call).(*types.Func); ok && f.Pkg() == p.Types {
						if sig, ok := f.Type().(*types.Signature); ok && sig.Recv() == nil {
							found = f.Name()
						}
					}
				}
				return true
			})
		}
		return true
	})
	if found == "" {
		// table dispatch: a package-level composite literal keyed by the algorithm constants whose values are functions
		for _, f := range p.Syntax {
			ast.Inspect(f, func(n ast.Node) bool {
				kv, ok := n.(*ast.KeyValueExpr)
				if !ok || found != "" {
					return true
				}
				if id, ok := kv.Key.(*ast.Ident); ok && id.Name == constName {
					if vid, ok := kv.Value.(*ast.Ident); ok {
						if fo, ok := info.Uses[vid].(*types.Func); ok && fo.Pkg() == p.Types {
							found = fo.Name()
						}
					}
				}
				return true
			})
		}
	}
	if found == "" {
		return fallback
	}
	return found
}

// yAssigner finds the function called by phase4's Process after the dispatch switch that writes Node.Y.
func yAssigner(m *Model) string {
	m.fxInit()
	p4 := m.SSAFunc("internal/phase4", "(Alg).Process")
	if p4 == nil {
		return "assignYCoords"
	}
	name := "assignYCoords"
	for _, s := range staticCalls(p4, func(c *ssa.Function) bool {
		e := m.effects[c]
		return e != nil && e.Mod[igNode+".Y"] && pkgPathOf(c) == pkgPathOf(p4) && !(len(c.Params) == 2 && namedKey(c.Params[1].Type()) == igPar)
	}) {
		name = s.Common().StaticCallee().Name()
	}
	return name
}
