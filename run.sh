#!/bin/sh
# usage: ./run.sh <property-id> [quick|thorough]
# Builds the checker if needed and decides one property on /repo's current working tree (static analysis only).
cd "$(dirname "$0")" || exit 2
export GOFLAGS=-mod=mod GOPROXY=off GOSUMDB=off GOTOOLCHAIN=local
unset GOWORK
VERIF_DIR="$(pwd)"
REPO_DIR="${VERIF_REPO:-/repo}"
if [ ! -x bin/autogverif ] || [ -n "$(find checker -newer bin/autogverif -name '*.go' 2>/dev/null | head -1)" ]; then
  (cd checker && go build -o ../bin/autogverif .) || { echo "checker build failed"; exit 2; }
fi
exec ./bin/autogverif check -p "$1" -tier "${2:-${VERIF_TIER:-quick}}" -repo "$REPO_DIR" -verif "$VERIF_DIR"
