package main

import (
	"flag"
	"fmt"
	"reflect"
	"strings"

	"github.com/nulab/autog"
	"github.com/nulab/autog/graph"
)

func main() {
	edges := flag.String("e", "a>b,b>c", "edges")
	reps := flag.Int("n", 1, "repetitions (report differing runs)")
	cb := flag.String("p1", "greedy", "greedy|dfs")
	ly := flag.String("p2", "ns", "ns|lp")
	pos := flag.String("p4", "sink", "sink|valign|pack|ns|bk")
	rt := flag.String("p5", "poly", "poly|straight|ortho|splines|noop")
	fw := flag.Float64("w", 10, "fixed width")
	fh := flag.Float64("h", 10, "fixed height")
	sizes := flag.String("sizes", "", "id:w:h,...")
	nsp := flag.Float64("ns", 60, "node spacing")
	lsp := flag.Float64("ls", 150, "layer spacing")
	virt := flag.Bool("virt", false, "output virtual nodes")
	quiet := flag.Bool("q", false, "quiet")
	flag.Parse()
	var es [][]string
	for _, p := range strings.Split(*edges, ",") {
		ab := strings.Split(p, ">")
		es = append(es, []string{ab[0], ab[1]})
	}
	opts := []autog.Option{autog.WithNodeFixedSize(*fw, *fh), autog.WithNodeSpacing(*nsp), autog.WithLayerSpacing(*lsp), autog.WithOutputVirtualNodes(*virt)}
	if *sizes != "" {
		m := map[string]graph.Size{}
		for _, s := range strings.Split(*sizes, ",") {
			var id string
			var w, h float64
			parts := strings.Split(s, ":")
			id = parts[0]
			fmt.Sscan(parts[1], &w)
			fmt.Sscan(parts[2], &h)
			m[id] = graph.Size{W: w, H: h}
		}
		opts = append(opts, autog.WithNodeSize(m))
	}
	switch *cb {
	case "dfs":
		opts = append(opts, autog.WithCycleBreaking(autog.CycleBreakingDepthFirst))
	}
	if *ly == "lp" {
		opts = append(opts, autog.WithLayering(autog.LayeringLongestPath))
	}
	switch *pos {
	case "valign":
		opts = append(opts, autog.WithPositioning(autog.PositioningVAlign))
	case "pack":
		opts = append(opts, autog.WithPositioning(autog.PositioningPackRight))
	case "ns":
		opts = append(opts, autog.WithPositioning(autog.PositioningNetworkSimplex))
	case "bk":
		opts = append(opts, autog.WithPositioning(autog.PositioningBrandesKoepf))
	}
	switch *rt {
	case "straight":
		opts = append(opts, autog.WithEdgeRouting(autog.EdgeRoutingStraight))
	case "ortho":
		opts = append(opts, autog.WithEdgeRouting(autog.EdgeRoutingOrtho))
	case "splines":
		opts = append(opts, autog.WithEdgeRouting(autog.EdgeRoutingSplines))
	case "noop":
		opts = append(opts, autog.WithEdgeRouting(autog.EdgeRoutingNoop))
	}
	run := func() (l graph.Layout, err any) {
		defer func() { err = recover() }()
		return autog.Layout(graph.EdgeSlice(es), opts...), nil
	}
	first, err := run()
	if err != nil {
		fmt.Println("PANIC:", err)
		return
	}
	if !*quiet {
		for _, n := range first.Nodes {
			fmt.Printf("  node %-6q x=%7.1f y=%7.1f w=%5.1f h=%5.1f\n", n.ID, n.X, n.Y, n.W, n.H)
		}
		for _, e := range first.Edges {
			fmt.Printf("  edge %q->%q ahs=%v pts=%v\n", e.FromID, e.ToID, e.ArrowHeadStart, e.Points)
		}
	}
	diff, pan := 0, 0
	for i := 1; i < *reps; i++ {
		l, err := run()
		if err != nil {
			pan++
		} else if !reflect.DeepEqual(first, l) {
			diff++
		}
	}
	if *reps > 1 {
		fmt.Printf("runs=%d differing=%d panics=%d\n", *reps, diff, pan)
	}
}
