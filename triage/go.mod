module triage

go 1.23.1

require github.com/nulab/autog v0.0.0

replace github.com/nulab/autog => /repo
